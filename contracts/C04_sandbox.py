"""C04 -- sandbox lifecycle and isolation of the Exactly process.  See DESIGN.md section 3 / C04.

A proof over a ghost file system and ghost process state (``pyvc/fsmodel.py``: the assumed contracts of
``Path.mkdir/open/chmod/resolve``, ``os.getcwd/chdir``, ``shutil.rmtree``, ``tempfile.mkdtemp``).  Paths are
``pathlib`` values modelled by their strings with ``/`` as an injective join (``pyvc/pymodels/pathlib_model.py``).
"""
import ast
import os
import pathlib
import shutil
import tempfile
from pathlib import Path
from types import MappingProxyType

from pyvc import fsmodel
from pyvc.api import (Module, Interface, Method, Iface, Inst, Int, Nat, Pos, Bool, Str, Opt, OneOf, Const, Union,
                      ListOf, FixedList, Any_, EnumOf, Custom, new_opaque)
from contracts.common import implies, iff

from exactly_lib.execution.partial_execution import execution as partial_execution
from exactly_lib.execution.partial_execution.impl import executor
from exactly_lib.execution.partial_execution.result import PartialExeResult
from exactly_lib.execution.result import ExecutionFailureStatus, ActionToCheckOutcome
from exactly_lib.tcfs import sds as sds_module
from exactly_lib.tcfs.sds import SandboxDs

M = Module('C04')

P_SDS = 'exactly_lib.tcfs.sds'
P_MISC = 'exactly_lib.util.file_utils.misc_utils'
P_EXE = 'exactly_lib.execution.partial_execution.execution'
P_EXECUTOR = 'exactly_lib.execution.partial_execution.impl.executor'
P_ATC = 'exactly_lib.execution.partial_execution.impl.atc_execution'

M.assume('file-system and process-state operations behave as the models of pyvc/fsmodel.py say (closed-world ghost '
         'file system; operations fail only for the reasons modelled: no permission errors, full disks or '
         'concurrent processes) -- DESIGN C04 "file-system operations of sandbox construction succeed"')
M.assume('a path is identified with its string and p / name is str(p) + "/" + name: exact for pathlib when p is a '
         'normalised name other than a file-system root and name a normalised relative name; the names the code '
         'joins are cross-checked against pathlib on every run (check `path-model`)')


# ============================================================================ spec functions (native + symbolic)

def is_dir(p):
    """the directory exists (ghost file system in proofs, the real one natively)"""
    return os.path.isdir(str(p))


def _m_is_dir(interp, args, kwargs):
    return fsmodel.is_known_dir(interp, fsmodel.path_str(interp, args[0]))


M.model(is_dir, _m_is_dir)


def exists(p):
    return os.path.lexists(str(p))


def _m_exists(interp, args, kwargs):
    return fsmodel.is_known_entry(interp, fsmodel.path_str(interp, args[0]))


M.model(exists, _m_exists)


def below(p, d):
    """p lies strictly below the directory d"""
    return str(p).startswith(str(d) + '/')


def events(trace, *kinds):
    return [e for e in trace if e[0] in kinds]


FS_EVENTS = ('mkdir', 'open', 'write', 'close', 'chmod', 'rmtree', 'mkdtemp')


def fs_paths(trace):
    """the paths of all file-system events of the trace (writes and closes are identified by their `open`)"""
    return [e[1] for e in trace if e[0] in ('mkdir', 'open', 'chmod', 'rmtree', 'mkdtemp')]


# ============================================================================ shapes

def _declare_existing_dir(name):
    """contract `setup`: the named str/path parameter is an existing directory, and -- the ghost file system
    being closed-world -- an empty one.  The matching `requires` clause makes callers prove it."""

    def setup(interp, args, ghosts):
        fsmodel.declare_dir(interp, fsmodel.path_str(interp, args[name]))

    return setup


PATH = Custom(lambda interp, name: fsmodel.mk_path(interp, Str.make(interp, name)))


def _mk_sds(interp, name):
    """a SandboxDs as its constructor builds it from a symbolic root name"""
    return interp.call(SandboxDs, [Str.make(interp, name + '.root')], {})


SDS = Custom(_mk_sds)


def layout(sds, root):
    """the documented layout of a sandbox rooted at `root`"""
    return (str(sds.root_dir) == str(Path(root))
            and str(sds.act_dir) == str(Path(root) / 'act')
            and str(sds.user_tmp_dir) == str(Path(root) / 'tmp')
            and str(sds.result_dir) == str(Path(root) / 'result')
            and str(sds.internal_tmp_dir) == str(Path(root) / 'internal' / 'tmp')
            and str(sds.log_dir) == str(Path(root) / 'internal' / 'log')
            and str(sds.result.stdout_file) == str(Path(root) / 'result' / 'stdout')
            and str(sds.result.stderr_file) == str(Path(root) / 'result' / 'stderr')
            and str(sds.result.exitcode_file) == str(Path(root) / 'result' / 'exit-code'))


def layout_dirs(root):
    return [str(Path(root) / 'act'), str(Path(root) / 'tmp'), str(Path(root) / 'result'),
            str(Path(root) / 'internal'), str(Path(root) / 'internal' / 'tmp'),
            str(Path(root) / 'internal' / 'log')]


# ============================================================================ tcfs/sds.py

M.contract(P_SDS + ':SandboxDs.__init__', params=dict(self=Inst(SandboxDs), dir_name=Str), inline=True,
           ensures={'documented-layout': lambda self, dir_name: layout(self, dir_name),
                    'no-file-system-effect': lambda trace: trace == []},
           raises_only=())

M.contract(P_SDS + ':construct_at', params=dict(directory_root=Str), returns=SDS,
           setup=_declare_existing_dir('directory_root'),
           # a fresh sandbox root: an existing directory with nothing in it
           requires=lambda directory_root: is_dir(directory_root)
                                           and not any(exists(d) for d in layout_dirs(directory_root)),
           event='construct_at',
           ensures={
               'creates-exactly-the-documented-directories-parents-first': lambda directory_root, trace:
               trace == [('mkdir', d) for d in layout_dirs(directory_root)],
               'the-directories-exist-afterwards': lambda directory_root:
               all(is_dir(d) for d in layout_dirs(directory_root)),
               'result-has-the-documented-layout': lambda directory_root, result: layout(result, directory_root),
           },
           raises_only=())


# ============================================================================ util/file_utils/misc_utils.py

def harness_preserved_cwd(elsewhere, then_raise):
    """`preserved_cwd` is a generator-based context manager: exercised with a body that changes the
    directory and then either completes or raises (the two ways a `with` body can end)."""
    from exactly_lib.util.file_utils.misc_utils import preserved_cwd
    before = os.getcwd()
    try:
        with preserved_cwd():
            os.chdir(elsewhere)
            if then_raise:
                raise KeyError('body fails')
    except KeyError:
        pass
    return os.getcwd() == before


M.contract('contracts.C04_sandbox:harness_preserved_cwd',
           params=dict(elsewhere=Str, then_raise=Bool),
           setup=_declare_existing_dir('elsewhere'),
           ensures={'cwd-restored-however-the-body-ends': lambda result: result},
           raises_only=())

M.contract(P_MISC + ':make_file_read_only__p', params=dict(path=PATH), inline=True,
           setup=lambda interp, args, ghosts: fsmodel.declare_file(interp, args['path']._s),
           requires=lambda path: exists(path),
           ensures={'read-only-for-everyone': lambda path, trace: trace == [('chmod', str(path), 0o444)]},
           raises_only=())

M.contract(P_MISC + ':resolved_path_name', params=dict(existing_path=Str), inline=True,
           setup=_declare_existing_dir('existing_path'),
           requires=lambda existing_path: is_dir(existing_path),
           ensures={'another-name-of-the-same-directory': lambda result: is_dir(result),
                    'no-file-system-change': lambda trace: events(trace, *FS_EVENTS) == []},
           raises_only=())


# ============================================================================ partial_execution/execution.py

STATUS = Opt(EnumOf(ExecutionFailureStatus))
ATC_OUTCOME = Opt(Inst(ActionToCheckOutcome, _tuple=[Int]))
PARTIAL_RESULT = Inst(PartialExeResult, _PartialExeResult__status=STATUS, _ResultBase__sds=Opt(SDS),
                      _ResultBase__action_to_check_outcome=ATC_OUTCOME, _ResultBase__failure_info=Opt(Any_))


def _m_executor_execute(interp, args, kwargs):
    """Model of the module-level `executor.execute(configuration, test_case)` = `_PartialExecutor(..).execute()`:
    ANY outcome -- returns a result with or without sandbox, or raises anything -- and leaves the process in
    ANY current directory (it changes to act/, instructions change directory at will).  C01 proves the
    stronger facts (never raises PhaseStepFailureException, has_sds iff the sandbox was constructed); nothing
    of that is needed here."""
    from pyvc.interp import PyRaise, ArbitraryException
    st = interp.st
    st.emit('partial-executor', tuple(args))
    elsewhere = Str.make(interp, 'cwd-after-executor')
    fsmodel.declare_dir(interp, elsewhere)
    st.ghost['cwd'] = elsewhere
    k = st.choose(2)
    if k == 1:
        st.emit('partial-executor:raised')
        raise PyRaise(ArbitraryException('anything the executor lets escape'))
    r = PARTIAL_RESULT.make(interp, 'partial_result')
    st.ghost['executor-result'] = r
    return r


M.model(executor.execute, _m_executor_execute)
M.trust('executor.execute (module level): modelled as "any outcome, any current directory afterwards" -- a '
        'superset of the behaviours C01 proves for _PartialExecutor.execute')


def rmtree_events(trace):
    return events(trace, 'rmtree')


M.contract(P_EXE + ':execute',
           params=dict(test_case=Any_, full_exe_input_conf=Any_, conf_phase_values=Any_, setup_handler=Any_,
                       is_keep_sandbox=Bool),
           returns=PARTIAL_RESULT, event='partial-execution',
           old=lambda: os.getcwd(),
           ensures={
               'cwd-restored': lambda old: os.getcwd() == old,
               'sandbox-removed-unless-keep': lambda result, is_keep_sandbox, trace:
               rmtree_events(trace) == ([('rmtree', str(result.sds.root_dir), True)]
                                        if result.has_sds and not is_keep_sandbox else []),
               'removal-comes-after-leaving-the-sandbox': lambda trace:
               [e[0] for e in events(trace, 'chdir', 'rmtree')][:1] != ['rmtree'],
               'result-is-the-executors': lambda result, ghost: result is ghost['executor-result'],
               'executor-runs-once': lambda trace: len(events(trace, 'partial-executor')) == 1,
           },
           raises={Exception: {'ensures': lambda old, trace: os.getcwd() == old and rmtree_events(trace) == []
                                                             and events(trace, 'partial-executor:raised') != []}},
           raises_only=())
