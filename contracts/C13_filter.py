"""C13 -- line selection by `filter` is exact.  See DESIGN.md section 3 / C13."""
from pyvc.api import (Module, Interface, Method, Iface, Inst, Int, Nat, Bool, Str, Opt, OneOf, Const, Union,
                      ListOf, FixedList, Any_, EnumOf)
from contracts.common import implies, iff

from exactly_lib.util.interval.int_interval import IntInterval
from exactly_lib.util.interval.w_inversion.interval import IntIntervalWInversion
from exactly_lib.util.interval.w_inversion import intervals, combinations
from exactly_lib.impls.types.condition import comparators

M = Module('C13')

P_INTERVALS = 'exactly_lib.util.interval.w_inversion.intervals'
P_COMB = 'exactly_lib.util.interval.w_inversion.combinations'
P_CMP = 'exactly_lib.impls.types.condition.comparators'


# ------------------------------------------------------------------------------ abstract view

def wf(p):
    """well-formed: lower <= upper when both are present"""
    return p.is_empty or p.lower is None or p.upper is None or p.lower <= p.upper


def mem(p, n):
    """n is a member of the interval p"""
    return (not p.is_empty) and (p.lower is None or p.lower <= n) and (p.upper is None or n <= p.upper)


def is_unlimited(p):
    return (not p.is_empty) and p.lower is None and p.upper is None


class PlainIntervalI(Interface):
    """IntInterval: is_empty / lower / upper; lower and upper raise on an empty interval."""
    target_class = IntInterval
    attrs = {'is_empty': Bool, 'lower': Opt(Int), 'upper': Opt(Int)}
    attr_raises = {
        'lower': (lambda self: self.is_empty, ValueError),
        'upper': (lambda self: self.is_empty, ValueError),
    }
    invariant = staticmethod(wf)


class IntervalI(PlainIntervalI):
    """IntIntervalWInversion: additionally an `inversion` that is again such an interval."""
    target_class = IntIntervalWInversion
    attrs = {'inversion': Iface(lambda: IntervalI)}


ANY_INTERVAL = Iface(IntervalI)


# ------------------------------------------------------------------------------ the six classes
# Each class is proved to implement the interface with its stated view: the properties
# return values of the right shape, raise exactly when empty, and the inversion is sound
# for the *exact* complement where the class promises one.

def _finite_ok(self):
    return self._lower <= self._upper


EMPTY = Inst(intervals.Empty)
UPPER = Inst(intervals.UpperLimit, _upper=Int)
LOWER = Inst(intervals.LowerLimit, _lower=Int)
FINITE = Inst(intervals.Finite, _invariant=_finite_ok, _lower=Int, _upper=Int)
UNLIMITED = Inst(intervals.Unlimited)
CUSTOM = Inst(intervals.WithCustomInversion, _pos=Iface(PlainIntervalI), _inversion=Iface(PlainIntervalI))

CONCRETE_INTERVAL = Union(EMPTY, UPPER, LOWER, FINITE, UNLIMITED, CUSTOM)


def _complement_sound(self, result, n):
    """every n outside self is inside the inversion (the inversion covers the complement)"""
    return wf(result) and implies(not mem(self, n), mem(result, n))


def _exact_complement(self, result, n):
    return wf(result) and iff(not mem(self, n), mem(result, n))


for _cls, _shape, _exact in (('Empty', EMPTY, False), ('UpperLimit', UPPER, True), ('LowerLimit', LOWER, True),
                             ('Finite', FINITE, False), ('Unlimited', UNLIMITED, True)):
    M.contract('%s:%s.inversion' % (P_INTERVALS, _cls),
               params=dict(self=_shape), ghosts=dict(n=Int), returns=ANY_INTERVAL, inline=True,
               ensures={'complement-covered': _complement_sound,
                        **({'complement-exact': _exact_complement} if _exact else {})},
               raises_only=())

M.contract(P_INTERVALS + ':WithCustomInversion.inversion',
           params=dict(self=CUSTOM), ghosts=dict(n=Int), returns=ANY_INTERVAL, inline=True,
           ensures={
               'swaps': lambda self, result, n: iff(mem(result, n), mem(self._inversion, n))
                                                and iff(mem(result.inversion, n), mem(self._pos, n)),
               'wf': lambda self, result: wf(result) and wf(result.inversion),
           },
           raises_only=())


def implements_interval_interface(x):
    """Harness: exercises the interface the way IntervalI describes it, on a real instance.
    Returns True iff the instance behaves as an IntervalI object is assumed to."""
    e = x.is_empty
    if not isinstance(e, bool):
        return False
    if e:
        try:
            x.lower
            return False
        except ValueError:
            pass
        try:
            x.upper
            return False
        except ValueError:
            pass
        return True
    lo = x.lower
    up = x.upper
    if lo is not None and not isinstance(lo, int):
        return False
    if up is not None and not isinstance(up, int):
        return False
    if lo is not None and up is not None and lo > up:
        return False
    # reading twice gives the same (attributes are pure)
    return x.lower == lo and x.upper == up and x.is_empty == e


M.contract('contracts.C13_filter:implements_interval_interface',
           params=dict(x=CONCRETE_INTERVAL),
           ensures={'every concrete interval class behaves as the interface IntervalI assumes': lambda result: result},
           raises_only=())

M.contract(P_INTERVALS + ':point', params=dict(x=Int), ghosts=dict(n=Int), returns=ANY_INTERVAL,
           ensures={'exact': lambda x, n, result: iff(mem(result, n), n == x) and wf(result)}, raises_only=())

M.contract(P_INTERVALS + ':unlimited_with_finite_inversion',
           params=dict(finite_negation=ANY_INTERVAL), ghosts=dict(n=Int), returns=ANY_INTERVAL,
           ensures={'pos-unlimited': lambda result: is_unlimited(result),
                    'inv-is-arg': lambda finite_negation, result, n:
                    iff(mem(result.inversion, n), mem(finite_negation, n)) and wf(result.inversion)},
           raises_only=())

M.contract(P_INTERVALS + ':unlimited_with_unlimited_inversion',
           params=dict(), returns=ANY_INTERVAL,
           ensures={'both-unlimited': lambda result: is_unlimited(result) and is_unlimited(result.inversion)},
           raises_only=())

# ------------------------------------------------------------------------------ combinations

M.contract(P_COMB + ':_not_nones', params=dict(x=Opt(Int), y=Opt(Int)), inline=True,
           ensures={
               'exactly-the-non-nones': lambda x, y, result:
               len(result) == (0 if x is None else 1) + (0 if y is None else 1)
               and (x is None or result[0] == x)
               and (y is None or result[len(result) - 1] == y),
           }, raises_only=())

M.contract(P_COMB + ':_of', params=dict(lower=Opt(Int), upper=Opt(Int)),
           requires=lambda lower, upper: lower is None or upper is None or lower <= upper,
           ghosts=dict(n=Int), returns=ANY_INTERVAL,
           ensures={
               'denotes-the-bounds': lambda lower, upper, n, result:
               iff(mem(result, n), (lower is None or lower <= n) and (upper is None or n <= upper)),
               'not-empty-wf': lambda result: (not result.is_empty) and wf(result),
           }, raises_only=())

M.contract(P_COMB + ':union', params=dict(a=ANY_INTERVAL, b=ANY_INTERVAL), ghosts=dict(n=Int),
           returns=ANY_INTERVAL,
           ensures={
               'covers-both': lambda a, b, n, result: implies(mem(a, n) or mem(b, n), mem(result, n)),
               'wf': lambda result: wf(result),
               'empty-iff-both-empty': lambda a, b, result: iff(result.is_empty, a.is_empty and b.is_empty),
           }, raises_only=())

M.contract(P_COMB + ':intersection', params=dict(a=ANY_INTERVAL, b=ANY_INTERVAL), ghosts=dict(n=Int),
           returns=ANY_INTERVAL,
           ensures={
               'exact': lambda a, b, n, result: iff(mem(a, n) and mem(b, n), mem(result, n)),
               'wf': lambda result: wf(result),
           }, raises_only=())

# ------------------------------------------------------------------------------ comparison operators

for _name, _rel in (('_int_interval_of_ne', lambda n, x: n != x),
                    ('_int_interval_of_lt', lambda n, x: n < x),
                    ('_int_interval_of_gt', lambda n, x: n > x)):
    M.contract('%s:%s' % (P_CMP, _name), params=dict(x=Int), ghosts=dict(n=Int, rel=Const(_rel)),
               returns=ANY_INTERVAL,
               ensures={
                   'pos-sound': lambda x, n, rel, result: implies(rel(n, x), mem(result, n)),
                   'neg-sound': lambda x, n, rel, result: implies(not rel(n, x), mem(result.inversion, n)),
                   'wf': lambda result: wf(result) and wf(result.inversion),
               }, raises_only=())
