"""C13 -- line selection by `filter` is exact.  See DESIGN.md section 3 / C13."""
from pyvc.api import (Module, Interface, Method, Iface, Involution, Inst, Int, Nat, Bool, Str, Opt, OneOf, Const, Union,
                      ListOf, FixedList, Any_, EnumOf)
from contracts.common import implies, iff

from exactly_lib.util.interval.int_interval import IntInterval
from exactly_lib.util.interval.w_inversion.interval import IntIntervalWInversion
from exactly_lib.util.interval.w_inversion import intervals, combinations
from exactly_lib.impls.types.condition import comparators

M = Module('C13')
# thorough tier: the contracts are installed as run-time monitors while these suites of the repository run
M.conformance_suites = ['exactly_lib_test.impls.types.interval.z_package_suite',
                        'exactly_lib_test.impls.types.line_matcher.z_package_suite',
                        'exactly_lib_test.impls.types.string_transformer.filter.z_package_suite',
                        'exactly_lib_test.util.interval.z_package_suite']

P_INTERVALS = 'exactly_lib.util.interval.w_inversion.intervals'
P_COMB = 'exactly_lib.util.interval.w_inversion.combinations'
P_CMP = 'exactly_lib.impls.types.condition.comparators'


# ------------------------------------------------------------------------------ abstract view

def wf(p):
    """well-formed: lower <= upper when both are present"""
    return p.is_empty or p.lower is None or p.upper is None or p.lower <= p.upper


def mem(p, n):
    """n is a member of the interval p"""
    return (not p.is_empty) and (p.lower is None or p.lower <= n) and (p.upper is None or n <= p.upper)


def is_unlimited(p):
    return (not p.is_empty) and p.lower is None and p.upper is None


class PlainIntervalI(Interface):
    """IntInterval: is_empty / lower / upper; lower and upper raise on an empty interval."""
    target_class = IntInterval
    attrs = {'is_empty': Bool, 'lower': Opt(Int), 'upper': Opt(Int)}
    attr_raises = {
        'lower': (lambda self: self.is_empty, ValueError),
        'upper': (lambda self: self.is_empty, ValueError),
    }
    invariant = staticmethod(wf)


class IntervalI(PlainIntervalI):
    """IntIntervalWInversion: additionally an `inversion` that is again such an interval."""
    target_class = IntIntervalWInversion
    # inversion.inversion has the same members as the interval itself (proved per class: 'involution')
    attrs = {'inversion': Involution(lambda: IntervalI, 'inversion')}


ANY_INTERVAL = Iface(IntervalI)


# ------------------------------------------------------------------------------ the six classes
# Each class is proved to implement the interface with its stated view: the properties
# return values of the right shape, raise exactly when empty, and the inversion is sound
# for the *exact* complement where the class promises one.

def _finite_ok(self):
    return self._lower <= self._upper


EMPTY = Inst(intervals.Empty)
UPPER = Inst(intervals.UpperLimit, _upper=Int)
LOWER = Inst(intervals.LowerLimit, _lower=Int)
FINITE = Inst(intervals.Finite, _invariant=_finite_ok, _lower=Int, _upper=Int)
UNLIMITED = Inst(intervals.Unlimited)
CUSTOM = Inst(intervals.WithCustomInversion, _pos=Iface(PlainIntervalI), _inversion=Iface(PlainIntervalI))

CONCRETE_INTERVAL = Union(EMPTY, UPPER, LOWER, FINITE, UNLIMITED, CUSTOM)


def _complement_sound(self, result, n):
    """every n outside self is inside the inversion (the inversion covers the complement)"""
    return wf(result) and implies(not mem(self, n), mem(result, n))


def _exact_complement(self, result, n):
    return wf(result) and iff(not mem(self, n), mem(result, n))


def _involution(self, result, n):
    return wf(result.inversion) and iff(mem(result.inversion, n), mem(self, n))


for _cls, _shape, _exact in (('Empty', EMPTY, False), ('UpperLimit', UPPER, True), ('LowerLimit', LOWER, True),
                             ('Finite', FINITE, False), ('Unlimited', UNLIMITED, True)):
    M.contract('%s:%s.inversion' % (P_INTERVALS, _cls),
               params=dict(self=_shape), ghosts=dict(n=Int), returns=ANY_INTERVAL, inline=True,
               ensures={'complement-covered': _complement_sound, 'involution': _involution,
                        **({'complement-exact': _exact_complement} if _exact else {})},
               raises_only=())

M.contract(P_INTERVALS + ':WithCustomInversion.inversion',
           params=dict(self=CUSTOM), ghosts=dict(n=Int), returns=ANY_INTERVAL, inline=True,
           ensures={
               'swaps': lambda self, result, n: iff(mem(result, n), mem(self._inversion, n))
                                                and iff(mem(result.inversion, n), mem(self._pos, n)),
               'wf': lambda self, result: wf(result) and wf(result.inversion),
               'involution': _involution,
           },
           raises_only=())


def implements_interval_interface(x):
    """Harness: exercises the interface the way IntervalI describes it, on a real instance.
    Returns True iff the instance behaves as an IntervalI object is assumed to."""
    e = x.is_empty
    if not isinstance(e, bool):
        return False
    if e:
        try:
            x.lower
            return False
        except ValueError:
            pass
        try:
            x.upper
            return False
        except ValueError:
            pass
        return True
    lo = x.lower
    up = x.upper
    if lo is not None and not isinstance(lo, int):
        return False
    if up is not None and not isinstance(up, int):
        return False
    if lo is not None and up is not None and lo > up:
        return False
    # reading twice gives the same (attributes are pure)
    return x.lower == lo and x.upper == up and x.is_empty == e


M.contract('contracts.C13_filter:implements_interval_interface',
           params=dict(x=CONCRETE_INTERVAL),
           ensures={'every concrete interval class behaves as the interface IntervalI assumes': lambda result: result},
           cover=False,     # the `return False` exits of the harness are unreachable exactly when the claim holds
           raises_only=())

M.contract(P_INTERVALS + ':point', params=dict(x=Int), ghosts=dict(n=Int), returns=ANY_INTERVAL,
           ensures={'exact': lambda x, n, result: iff(mem(result, n), n == x) and wf(result),
                    'inversion-covers-the-complement': lambda x, n, result:
                    wf(result.inversion) and implies(n != x, mem(result.inversion, n))}, raises_only=())

M.contract(P_INTERVALS + ':unlimited_with_finite_inversion',
           params=dict(finite_negation=ANY_INTERVAL), ghosts=dict(n=Int), returns=ANY_INTERVAL,
           ensures={'pos-unlimited': lambda result: is_unlimited(result),
                    'inv-is-arg': lambda finite_negation, result, n:
                    iff(mem(result.inversion, n), mem(finite_negation, n)) and wf(result.inversion)},
           raises_only=())

M.contract(P_INTERVALS + ':unlimited_with_unlimited_inversion',
           params=dict(), returns=ANY_INTERVAL,
           ensures={'both-unlimited': lambda result: is_unlimited(result) and is_unlimited(result.inversion)},
           raises_only=())

# ------------------------------------------------------------------------------ combinations

M.contract(P_COMB + ':_not_nones', params=dict(x=Opt(Int), y=Opt(Int)), inline=True,
           ensures={
               'exactly-the-non-nones': lambda x, y, result:
               len(result) == (0 if x is None else 1) + (0 if y is None else 1)
               and (x is None or result[0] == x)
               and (y is None or result[len(result) - 1] == y),
           }, raises_only=())

M.contract(P_COMB + ':_of', params=dict(lower=Opt(Int), upper=Opt(Int)),
           requires=lambda lower, upper: lower is None or upper is None or lower <= upper,
           ghosts=dict(n=Int), returns=ANY_INTERVAL,
           ensures={
               'denotes-the-bounds': lambda lower, upper, n, result:
               iff(mem(result, n), (lower is None or lower <= n) and (upper is None or n <= upper)),
               'not-empty-wf': lambda result: (not result.is_empty) and wf(result),
           }, raises_only=())

M.contract(P_COMB + ':union', params=dict(a=ANY_INTERVAL, b=ANY_INTERVAL), ghosts=dict(n=Int),
           returns=ANY_INTERVAL,
           ensures={
               'covers-both': lambda a, b, n, result: implies(mem(a, n) or mem(b, n), mem(result, n)),
               'wf': lambda result: wf(result),
               'empty-iff-both-empty': lambda a, b, result: iff(result.is_empty, a.is_empty and b.is_empty),
           }, raises_only=())

M.contract(P_COMB + ':intersection', params=dict(a=ANY_INTERVAL, b=ANY_INTERVAL), ghosts=dict(n=Int),
           returns=ANY_INTERVAL,
           ensures={
               'exact': lambda a, b, n, result: iff(mem(a, n) and mem(b, n), mem(result, n)),
               'wf': lambda result: wf(result),
           }, raises_only=())

# ------------------------------------------------------------------------------ comparison operators

for _name, _rel in (('_int_interval_of_ne', lambda n, x: n != x),
                    ('_int_interval_of_lt', lambda n, x: n < x),
                    ('_int_interval_of_gt', lambda n, x: n > x)):
    M.contract('%s:%s' % (P_CMP, _name), params=dict(x=Int), ghosts=dict(n=Int, rel=Const(_rel)),
               returns=ANY_INTERVAL,
               ensures={
                   'pos-sound': lambda x, n, rel, result: implies(rel(n, x), mem(result, n)),
                   'neg-sound': lambda x, n, rel, result: implies(not rel(n, x), mem(result.inversion, n)),
                   'wf': lambda result: wf(result) and wf(result.inversion),
               }, raises_only=())

# ------------------------------------------------------------------------------ matcher_interval
# Soundness pair carried through every matcher constructor.  `n` is one arbitrary fixed
# integer (ghost), so all obligations are first-order over the operands.

from pyvc.api import Custom, new_opaque, assume_pred
from pyvc.interp import BoundMethod
from contracts.common import forall_range, exists_range, is_opaque
from exactly_lib.impls.types.interval import matcher_interval
from exactly_lib.impls.types.interval.with_interval import WithIntInterval
from exactly_lib.impls.types.matcher.impls import combinator_matchers
from exactly_lib.type_val_prims.matcher.matcher_base_class import MatcherWTrace

P_MI = 'exactly_lib.impls.types.interval.matcher_interval'


class AdaptionI(Interface):
    """An interval adaption (e.g. to the line-number range): on its domain it loses nothing."""
    methods = {
        'dom': Method(returns=Bool, pure=True),
        '__call__': Method(returns=Iface(IntervalI),
                           ensures=lambda self, x, result:
                           _adaption_post(self, x, result)),
    }


def _adaption_post(self, x, result, n):
    return implies(self.dom(n) and mem(x, n), mem(result, n))


# the ensures above needs the ghost n: written as an explicit model instead
def _adaption_call(interp, self, args, kwargs):
    r = new_opaque(interp, IntervalI, 'adapted')
    assume_pred(interp, _adaption_post, self, args[0], r)
    return r


AdaptionI.methods['__call__'] = Method(model=_adaption_call)

ADAPTION = Union(Const(matcher_interval.no_adaption), Iface(AdaptionI))


def dom(adaption, n):
    return True if adaption is matcher_interval.no_adaption else adaption.dom(n)


def exact(adaption):
    """inversions survive: only the identity adaption is known to preserve them"""
    return adaption is matcher_interval.no_adaption


def D(m, n):
    """Denotation: the matcher accepts the integer n.  For the three combinators this is the
    meaning proved of their matches_w_trace (C05/C06); for any other matcher it is opaque."""
    if is_opaque(m):
        return m.D(n)
    if isinstance(m, combinator_matchers.Negation):
        return not D(m._negated, n)
    if isinstance(m, combinator_matchers.Conjunction):
        return forall_range(0, len(m._operands), lambda j: D(m._operands[j], n))
    if isinstance(m, combinator_matchers.Disjunction):
        return exists_range(0, len(m._operands), lambda j: D(m._operands[j], n))
    raise ValueError('D: unexpected matcher')


def sound(adaption, holds, interval, n):
    """`interval` is a sound description of a matcher that accepts n exactly when `holds`."""
    return wf(interval) \
        and implies(dom(adaption, n) and holds, mem(interval, n)) \
        and implies(exact(adaption), wf(interval.inversion) and implies(not holds, mem(interval.inversion, n)))


def _computer_of(visitor):
    if isinstance(visitor, matcher_interval._IntervalComputer):
        return visitor
    return visitor._matcher_evaluator.__self__


def _accept(interp, m, args, kwargs):
    """Induction hypothesis: accepting either visitor gives an interval that is sound for the
    (possibly negated) denotation of this matcher.  Justified by the contracts of the five
    visit_* methods of each visitor, which are proved below, and by the accept() dispatchers."""
    visitor = args[0]
    if isinstance(visitor, matcher_interval._IntervalComputer):
        r = new_opaque(interp, IntervalI, m._pv_uid + '.accept(computer)', index=m._pv_index)
        assume_pred(interp, _ih_pos, visitor._interval_adaption, m, r)
    elif isinstance(visitor, matcher_interval._NegationEvaluator):
        r = new_opaque(interp, IntervalI, m._pv_uid + '.accept(negation_evaluator)', index=m._pv_index)
        assume_pred(interp, _ih_neg, visitor._matcher_evaluator.__self__._interval_adaption, m, r)
    else:
        raise AssertionError('accept: unexpected visitor')
    return r


def _ih_pos(adaption, m, r, n):
    return sound(adaption, m.D(n), r, n)


def _ih_neg(adaption, m, r, n):
    return sound(adaption, not m.D(n), r, n)


def _matcher_interval_ok(self, n):
    return sound(matcher_interval.no_adaption, self.D(n), self.interval, n)


class MatcherI(Interface):
    target_class = MatcherWTrace
    may_also_be = (WithIntInterval,)
    attrs = {'interval': Iface(IntervalI)}
    methods = {
        'D': Method(returns=Bool, pure=True),
        'accept': Method(model=_accept),
    }
    # a matcher that implements WithIntInterval has an interval that is sound for it
    # (PropertyMatcherWithIntInterval: proved below; IntComparisonMatcher: proved below)
    invariant = staticmethod(_matcher_interval_ok)


MATCHER = Iface(MatcherI)


def _covers_everything(unknown, adaption, n):
    return wf(unknown) and wf(unknown.inversion) \
        and implies(dom(adaption, n), mem(unknown, n) and mem(unknown.inversion, n))


def _make_computer(interp, name):
    adaption = ADAPTION.make(interp, name + '._interval_adaption')
    unknown = new_opaque(interp, IntervalI, name + '._interval_of_unknown_class')
    assume_pred(interp, _covers_everything, unknown, adaption)
    comp = object.__new__(matcher_interval._IntervalComputer)
    neg = object.__new__(matcher_interval._NegationEvaluator)
    comp._interval_of_unknown_class = unknown
    comp._interval_adaption = adaption
    comp._negation_evaluator = neg
    neg._interval_of_unknown_class = unknown
    neg._matcher_evaluator = BoundMethod(matcher_interval._IntervalComputer.__dict__['_eval_matcher'], comp,
                                         matcher_interval._IntervalComputer)
    return comp


COMPUTER = Custom(_make_computer)
NEG_EVALUATOR = Custom(lambda interp, name: _make_computer(interp, name)._negation_evaluator)
OPERANDS = ListOf(MATCHER, min_len=1)

# --- _IntervalComputer

M.contract(P_MI + ':_IntervalComputer.visit_constant',
           params=dict(self=COMPUTER, value=Bool), ghosts=dict(n=Int), returns=ANY_INTERVAL,
           ensures={'sound': lambda self, value, result, n: sound(self._interval_adaption, value, result, n)},
           raises_only=())

M.contract(P_MI + ':_IntervalComputer.visit_negation',
           params=dict(self=COMPUTER, operand=MATCHER), ghosts=dict(n=Int), returns=ANY_INTERVAL,
           ensures={'sound': lambda self, operand, result, n:
           sound(self._interval_adaption, not D(operand, n), result, n)},
           raises_only=())

M.contract(P_MI + ':_IntervalComputer.visit_non_standard',
           params=dict(self=COMPUTER, matcher=MATCHER), ghosts=dict(n=Int), returns=ANY_INTERVAL,
           ensures={'sound': lambda self, matcher, result, n:
           sound(self._interval_adaption, D(matcher, n), result, n)},
           raises_only=())

M.contract(P_MI + ':_IntervalComputer.visit_conjunction',
           params=dict(self=COMPUTER, operands=OPERANDS), ghosts=dict(n=Int), returns=ANY_INTERVAL,
           ensures={'sound': lambda self, operands, result, n:
           sound(self._interval_adaption,
                 forall_range(0, len(operands), lambda j: D(operands[j], n)), result, n)},
           raises_only=())

M.contract(P_MI + ':_IntervalComputer.visit_disjunction',
           params=dict(self=COMPUTER, operands=OPERANDS), ghosts=dict(n=Int), returns=ANY_INTERVAL,
           ensures={'sound': lambda self, operands, result, n:
           sound(self._interval_adaption,
                 exists_range(0, len(operands), lambda j: D(operands[j], n)), result, n)},
           raises_only=())


def _combined(operator, operands, n):
    if operator is combinations.union:
        return exists_range(0, len(operands), lambda j: D(operands[j], n))
    return forall_range(0, len(operands), lambda j: D(operands[j], n))


def _is_dual(operator, inversion_operator):
    return (operator is combinations.union and inversion_operator is combinations.intersection) or \
        (operator is combinations.intersection and inversion_operator is combinations.union)


_OPERATOR = OneOf(combinations.union, combinations.intersection)

M.contract(P_MI + ':_IntervalComputer._bin_op',
           params=dict(self=COMPUTER, operator=_OPERATOR, inversion_operator=_OPERATOR, operands=OPERANDS),
           requires=lambda operator, inversion_operator: _is_dual(operator, inversion_operator),
           ghosts=dict(n=Int), returns=ANY_INTERVAL,
           ensures={'sound': lambda self, operator, operands, result, n:
           sound(self._interval_adaption, _combined(operator, operands, n), result, n)},
           raises_only=())


def _reduce_inv(value, _i, _xs, function, n):
    """accumulated interval covers (union) / is exactly (intersection) the elements so far"""
    return wf(value) and (
        implies(exists_range(0, _i, lambda j: mem(_xs[j], n)), mem(value, n))
        if function is combinations.union else
        iff(forall_range(0, _i, lambda j: mem(_xs[j], n)), mem(value, n))
    )


M.loop(P_MI + ':_IntervalComputer._bin_op', 'reduce#0', invariant=_reduce_inv,
       modifies=dict(value=ANY_INTERVAL, element='local'))
M.loop(P_MI + ':_IntervalComputer._bin_op', 'reduce#1', invariant=_reduce_inv,
       modifies=dict(value=ANY_INTERVAL, element='local'))

# --- _NegationEvaluator: computes the interval of the *negation* of the visited matcher

_ADAPTION_OF_NEG = lambda self: self._matcher_evaluator.__self__._interval_adaption

M.contract(P_MI + ':_NegationEvaluator.visit_constant',
           params=dict(self=NEG_EVALUATOR, value=Bool), ghosts=dict(n=Int), returns=ANY_INTERVAL,
           ensures={'sound-for-negation': lambda self, value, result, n:
           sound(_ADAPTION_OF_NEG(self), not value, result, n)},
           raises_only=())

M.contract(P_MI + ':_NegationEvaluator.visit_negation',
           params=dict(self=NEG_EVALUATOR, operand=MATCHER), ghosts=dict(n=Int), returns=ANY_INTERVAL,
           ensures={'sound-for-negation': lambda self, operand, result, n:
           sound(_ADAPTION_OF_NEG(self), D(operand, n), result, n)},
           raises_only=())

M.contract(P_MI + ':_NegationEvaluator.visit_conjunction',
           params=dict(self=NEG_EVALUATOR, operands=OPERANDS), ghosts=dict(n=Int), returns=ANY_INTERVAL,
           ensures={'sound-for-negation': lambda self, operands, result, n:
           sound(_ADAPTION_OF_NEG(self),
                 not forall_range(0, len(operands), lambda j: D(operands[j], n)), result, n)},
           raises_only=())

M.contract(P_MI + ':_NegationEvaluator.visit_disjunction',
           params=dict(self=NEG_EVALUATOR, operands=OPERANDS), ghosts=dict(n=Int), returns=ANY_INTERVAL,
           ensures={'sound-for-negation': lambda self, operands, result, n:
           sound(_ADAPTION_OF_NEG(self),
                 not exists_range(0, len(operands), lambda j: D(operands[j], n)), result, n)},
           raises_only=())

M.contract(P_MI + ':_NegationEvaluator.visit_non_standard',
           params=dict(self=NEG_EVALUATOR, matcher=MATCHER), ghosts=dict(n=Int), returns=ANY_INTERVAL,
           ensures={'sound-for-negation': lambda self, matcher, result, n:
           sound(_ADAPTION_OF_NEG(self), not D(matcher, n), result, n)},
           raises_only=())

# --- the recursion knot and the entry points

M.contract(P_MI + ':_IntervalComputer._eval_matcher',
           params=dict(self=COMPUTER, matcher=MATCHER), ghosts=dict(n=Int), returns=ANY_INTERVAL, inline=True,
           ensures={'sound': lambda self, matcher, result, n: sound(self._interval_adaption, D(matcher, n), result, n)},
           raises_only=())


def _unlimited_both_ways(x):
    return is_unlimited(x) and is_unlimited(x.inversion)


M.contract(P_MI + ':_IntervalComputer.__init__',
           params=dict(self=Inst(matcher_interval._IntervalComputer),
                       interval_of_unknown_class=ANY_INTERVAL, interval_adaption=ADAPTION), inline=True,
           requires=lambda interval_of_unknown_class: _unlimited_both_ways(interval_of_unknown_class),
           ghosts=dict(n=Int),
           ensures={
               'unknown-covers-domain': lambda self, n:
               _covers_everything(self._interval_of_unknown_class, self._interval_adaption, n),
               'knot': lambda self, interval_adaption:
               self._interval_adaption is interval_adaption
               and self._negation_evaluator._interval_of_unknown_class is self._interval_of_unknown_class
               and self._negation_evaluator._matcher_evaluator == self._eval_matcher,
           }, raises_only=())

M.contract(P_MI + ':interval_of__w_inversion',
           params=dict(matcher=MATCHER, interval_of_unknown_class=ANY_INTERVAL, interval_adaption=ADAPTION),
           requires=lambda interval_of_unknown_class: _unlimited_both_ways(interval_of_unknown_class),
           ghosts=dict(n=Int), returns=ANY_INTERVAL,
           ensures={'sound': lambda matcher, interval_adaption, result, n:
           sound(interval_adaption, D(matcher, n), result, n)},
           raises_only=())

M.contract(P_MI + ':interval_of',
           params=dict(matcher=MATCHER, interval_of_unknown_class=ANY_INTERVAL, interval_adaption=ADAPTION),
           requires=lambda interval_of_unknown_class: _unlimited_both_ways(interval_of_unknown_class),
           ghosts=dict(n=Int), returns=ANY_INTERVAL,
           ensures={'sound': lambda matcher, interval_adaption, result, n:
           sound(interval_adaption, D(matcher, n), result, n)},
           raises_only=())

M.contract(P_MI + ':no_adaption', params=dict(x=ANY_INTERVAL), inline=True,
           ensures={'identity': lambda x, result: result is x}, raises_only=())

# ------------------------------------------------------------------------------ accept() dispatchers
# Close the induction: for every matcher class the code knows, accept(visitor) yields what the
# induction hypothesis `_accept` assumes of an opaque matcher.

from exactly_lib.impls.types.matcher.impls import constant as constant_matcher
from exactly_lib.impls.types.matcher.impls import comparison_matcher
from exactly_lib.impls.types.matcher import property_matcher
from exactly_lib.impls.types.line_matcher import model_construction, line_nums_interval
from exactly_lib.impls.types.line_matcher.impl import line_number
from exactly_lib.type_val_prims.matcher.line_matcher import FIRST_LINE_NUMBER

_D_base = D


def D(m, n):  # noqa: F811  (extends the denotation to the constant matcher)
    if (not is_opaque(m)) and isinstance(m, constant_matcher.MatcherWithConstantResult):
        return m._result
    return _D_base(m, n)


def _visitor_sound(visitor, holds, result, n):
    if isinstance(visitor, matcher_interval._IntervalComputer):
        return sound(visitor._interval_adaption, holds, result, n)
    return sound(visitor._matcher_evaluator.__self__._interval_adaption, not holds, result, n)


VISITOR = Union(COMPUTER, NEG_EVALUATOR)

_P_COMBI = 'exactly_lib.impls.types.matcher.impls.combinator_matchers'

M.contract('exactly_lib.impls.types.matcher.impls.constant:MatcherWithConstantResult.accept',
           params=dict(self=Inst(constant_matcher.MatcherWithConstantResult, _result=Bool), visitor=VISITOR),
           ghosts=dict(n=Int), returns=ANY_INTERVAL,
           ensures={'as-the-induction-hypothesis-assumes': lambda self, visitor, result, n:
           _visitor_sound(visitor, D(self, n), result, n)}, raises_only=())

M.contract(_P_COMBI + ':Negation.accept',
           params=dict(self=Inst(combinator_matchers.Negation, _negated=MATCHER), visitor=VISITOR),
           ghosts=dict(n=Int), returns=ANY_INTERVAL,
           ensures={'as-the-induction-hypothesis-assumes': lambda self, visitor, result, n:
           _visitor_sound(visitor, D(self, n), result, n)}, raises_only=())

M.contract(_P_COMBI + ':Conjunction.accept',
           params=dict(self=Inst(combinator_matchers.Conjunction, _operands=OPERANDS), visitor=VISITOR),
           ghosts=dict(n=Int), returns=ANY_INTERVAL,
           ensures={'as-the-induction-hypothesis-assumes': lambda self, visitor, result, n:
           _visitor_sound(visitor, D(self, n), result, n)}, raises_only=())

M.contract(_P_COMBI + ':Disjunction.accept',
           params=dict(self=Inst(combinator_matchers.Disjunction, _operands=OPERANDS), visitor=VISITOR),
           ghosts=dict(n=Int), returns=ANY_INTERVAL,
           ensures={'as-the-induction-hypothesis-assumes': lambda self, visitor, result, n:
           _visitor_sound(visitor, D(self, n), result, n)}, raises_only=())

M.contract('exactly_lib.type_val_prims.matcher.matcher_base_class:MatcherWTrace.accept',
           params=dict(self=MATCHER, visitor=VISITOR),
           ghosts=dict(n=Int), returns=ANY_INTERVAL,
           ensures={'as-the-induction-hypothesis-assumes': lambda self, visitor, result, n:
           _visitor_sound(visitor, D(self, n), result, n)}, raises_only=())

# ------------------------------------------------------------------------------ leaves with an interval


class RendererI(Interface):
    methods = {'__call__': Method(returns=Any_)}


_INT_COMPARISON = Inst(comparison_matcher.IntComparisonMatcher,
                       _operator=OneOf(*comparators.ALL_OPERATORS), _rhs=Int,
                       _rhs_syntax_element=Any_, _model_renderer=Iface(RendererI))

M.contract('exactly_lib.impls.types.matcher.impls.comparison_matcher:ComparisonMatcher.matches_w_trace',
           params=dict(self=_INT_COMPARISON, model=Int),
           ensures={'value-is-the-comparison': lambda self, model, result:
           result.value == bool(self._operator.operator_fun(model, self._rhs))}, raises_only=())

M.contract('exactly_lib.impls.types.matcher.impls.comparison_matcher:IntComparisonMatcher.interval',
           params=dict(self=_INT_COMPARISON), ghosts=dict(n=Int), returns=ANY_INTERVAL,
           ensures={'sound-for-the-comparison': lambda self, result, n:
           sound(matcher_interval.no_adaption, bool(self._operator.operator_fun(n, self._rhs)), result, n)},
           raises_only=())


@M.check('operators')
def _operators(ctx):
    import operator as op
    expected = {'==': op.eq, '!=': op.ne, '<': op.lt, '<=': op.le, '>': op.gt, '>=': op.ge}
    got = {o.name: o.operator_fun for o in comparators.ALL_OPERATORS}
    ctx.obligation('ALL_OPERATORS are the six comparison operators with their Python meaning',
                   got == expected, 'enumeration', detail={'names': sorted(got)})


M.contract('exactly_lib.impls.types.line_matcher.impl.line_number:_get_int_interval_of_int_matcher',
           params=dict(matcher=MATCHER), ghosts=dict(n=Int), returns=ANY_INTERVAL,
           ensures={'sound': lambda matcher, result, n: sound(matcher_interval.no_adaption, D(matcher, n), result, n)},
           raises_only=())

M.contract('exactly_lib.impls.types.line_matcher.impl.line_number:_PropertyGetter.get_from',
           params=dict(self=Inst(line_number._PropertyGetter), model=FixedList(Int, Str, as_tuple=True)),
           inline=True, ensures={'the-line-number': lambda model, result: result == model[0]}, raises_only=())

M.contract('exactly_lib.impls.types.matcher.property_matcher:PropertyMatcherWithIntInterval.interval',
           params=dict(self=Inst(property_matcher.PropertyMatcherWithIntInterval,
                                 _matcher=MATCHER,
                                 _get_int_interval_of_prop_matcher=Const(line_number._get_int_interval_of_int_matcher),
                                 _property_getter=Inst(line_number._PropertyGetter), _describer=Any_,
                                 _structure=Any_)),
           ghosts=dict(n=Int), returns=ANY_INTERVAL,
           ensures={'line-num M has the interval of M': lambda self, result, n:
           sound(matcher_interval.no_adaption, D(self._matcher, n), result, n)},
           raises_only=())

# ------------------------------------------------------------------------------ adaptation to line numbers

_dom_base = dom


def dom(adaption, n):  # noqa: F811
    if adaption is model_construction.adapt_to_line_num_range:
        return n >= FIRST_LINE_NUMBER
    return _dom_base(adaption, n)


M.contract('exactly_lib.impls.types.line_matcher.model_construction:_adapt_limit', params=dict(limit=Int), inline=True,
           ensures={'max-with-first-line': lambda limit, result: result == (limit if limit >= 1 else 1)},
           raises_only=())

M.contract('exactly_lib.impls.types.line_matcher.model_construction:adapt_to_line_num_range',
           params=dict(interval=ANY_INTERVAL), ghosts=dict(n=Int), returns=ANY_INTERVAL,
           ensures={
               'loses-no-line-number': lambda interval, result, n:
               implies(n >= FIRST_LINE_NUMBER and mem(interval, n), mem(result, n)),
               'adapted': lambda result: wf(result) and (result.is_empty or (
                       (result.lower is None or result.lower > FIRST_LINE_NUMBER)
                       and (result.upper is None or result.upper >= FIRST_LINE_NUMBER))),
           },
           # dead code for well-formed intervals (lower <= upper survives max(., 1)): reachability cover exempted
           cover=('return intervals.Empty()',),
           raises_only=())


def is_adapted(x):
    return wf(x) and (x.is_empty or ((x.lower is None or x.lower > FIRST_LINE_NUMBER)
                                     and (x.upper is None or x.upper >= FIRST_LINE_NUMBER)))


M.contract('exactly_lib.impls.types.line_matcher.line_nums_interval:interval_of_matcher',
           params=dict(matcher=MATCHER), ghosts=dict(n=Int), returns=Iface(PlainIntervalI),
           ensures={'covers-every-accepted-line-number': lambda matcher, result, n:
           implies(n >= FIRST_LINE_NUMBER and D(matcher, n), mem(result, n))},
           raises_only=())

# ------------------------------------------------------------------------------ presenting the lines of the interval
from pyvc.api import IterOf

P_MC = 'exactly_lib.impls.types.line_matcher.model_construction'


class IsLastI(Interface):
    """predicate on line numbers: 'this is the last line number of the interval'"""
    methods = {'__call__': Method(returns=Bool, pure=True)}


def _correctly_numbered(yielded, X, s, k):
    """the k-th item is line s+k (0-based) of the input with its 1-based number and its text without new-line"""
    return yielded[k][0] == X[s + k] and yielded[k][1][0] == s + k + 1 and yielded[k][1][1] == X[s + k].rstrip('\n')


_PAIR = FixedList(Str, FixedList(Int, Str, as_tuple=True), as_tuple=True)

M.contract(P_MC + ':_line_of', params=dict(n=Int, full_line=Str), inline=True,
           ensures={'pair': lambda n, full_line, result:
           result[0] == full_line and result[1][0] == n and result[1][1] == full_line.rstrip('\n')},
           raises_only=())

def _skip(num_to_skip):
    return num_to_skip if num_to_skip > 0 else 0


M.contract(P_MC + ':_lines_interval',
           params=dict(num_to_skip=Int, is_last_line_num=Iface(IsLastI), lines=IterOf(Str)),
           yields=ListOf(_PAIR),
           ensures={
               'starts-after-the-skipped-lines-and-stays-inside-the-text': lambda num_to_skip, lines, yielded:
               _skip(num_to_skip) + len(yielded) <= max(len(lines.xs), _skip(num_to_skip)),
               'every-item-is-a-correctly-numbered-line-in-order': lambda num_to_skip, lines, yielded:
               forall_range(0, len(yielded), lambda k: _correctly_numbered(yielded, lines.xs, _skip(num_to_skip), k)),
               'nothing-after-the-last-line-number': lambda num_to_skip, is_last_line_num, yielded:
               forall_range(0, len(yielded) - 1, lambda k: not is_last_line_num(_skip(num_to_skip) + k + 1)),
               'no-line-of-the-window-is-lost': lambda num_to_skip, is_last_line_num, lines, yielded:
               (_skip(num_to_skip) + len(yielded) == len(lines.xs))
               or (len(lines.xs) <= _skip(num_to_skip) and len(yielded) == 0)
               or (len(yielded) > 0 and is_last_line_num(_skip(num_to_skip) + len(yielded))),
           }, raises_only=())

M.loop(P_MC + ':_lines_interval', 0,
       invariant=lambda _i, ln, num_to_skip, yielded: ln == _i and ln < num_to_skip and len(yielded) == 0,
       modifies={'ln': Int, '_': 'local'})

M.loop(P_MC + ':_lines_interval', 1,
       invariant=lambda _i, _start, ln, num_to_skip, is_last_line_num, lines, yielded:
       ln == _i and len(yielded) == _i - _start
       and (_start == _skip(num_to_skip) or (_start == len(lines.xs) and _start < num_to_skip))
       and forall_range(0, len(yielded), lambda k: _correctly_numbered(yielded, lines.xs, _skip(num_to_skip), k))
       and forall_range(0, len(yielded), lambda k: not is_last_line_num(_skip(num_to_skip) + k + 1)),
       modifies={'ln': Int, 'line': 'local', 'yielded': 'len'})

from contracts.common import items_of

M.contract(P_MC + ':original_and_model_iter_from_file_line_iter',
           params=dict(lines=IterOf(Str)), returns=IterOf(_PAIR),
           ensures={'every-line-with-its-number': lambda lines, result:
           len(items_of(result)) == len(lines.xs)
           and forall_range(0, len(lines.xs), lambda k: _correctly_numbered(items_of(result), lines.xs, 0, k))},
           raises_only=())


def _num_skipped(interval):
    return 0 if (interval.is_empty or interval.lower is None) else _skip(interval.lower - 1)


def _all_correctly_numbered(items, X, s):
    return forall_range(0, len(items), lambda k: _correctly_numbered(items, X, s, k))


def _presented_at(items, n, k):
    return 0 <= k and k < len(items) and items[k][1][0] == n


M.contract(P_MC + ':original_and_model_iter_from_file_line_iter__interval',
           params=dict(interval=Iface(PlainIntervalI), lines=IterOf(Str)),
           returns=IterOf(_PAIR),
           ghosts=dict(n=Int),
           ensures={
               'stays-inside-the-text': lambda interval, lines, result:
               _num_skipped(interval) + len(items_of(result)) <= max(len(lines.xs), _num_skipped(interval)),
               'only-correctly-numbered-lines-in-order': lambda interval, lines, result:
               _all_correctly_numbered(items_of(result), lines.xs, _num_skipped(interval)),
               # witness: line n is the item at position n - 1 - (number of skipped lines)
               'every-line-whose-number-is-in-the-interval-is-presented': lambda interval, lines, result, n:
               (not (1 <= n and n <= len(lines.xs) and mem(interval, n)))
               or _presented_at(items_of(result), n,
                                n - 1 - (0 if interval.lower is None else _skip(interval.lower - 1))),
           }, raises_only=())

# ------------------------------------------------------------------------------ the filter transformer itself
from exactly_lib.impls.types.string_transformer.impl.filter import line_matcher as filter_by_line_matcher

P_FLM = 'exactly_lib.impls.types.string_transformer.impl.filter.line_matcher'


class MatchingResultI(Interface):
    attrs = {'value': Bool, 'trace': Any_}


def _accepting_implies_D(self, model, result):
    """D(n) is the projection on the line number of 'accepts (n, text)' (definition of the ghost D)"""
    return implies(result.value, self.D(model[0]))


def _matches_model(interp, self, args, kwargs):
    from pyvc.api import call_opaque_method
    r = call_opaque_method(interp, self, 'matches_w_trace', _MATCHES_PURE, args, kwargs)
    return r


_MATCHES_PURE = Method(returns=Iface(MatchingResultI), pure=True,
                       ensures=lambda self, n, text, result: implies(result.value, self.D(n)))
MatcherI.methods['matches_w_trace'] = _MATCHES_PURE


def accepted(matcher, X, j):
    """the matcher accepts line j (0-based) of the text: applied to (1-based number, text without new-line)"""
    return matcher.matches_w_trace((j + 1, X[j].rstrip('\n'))).value


_FILTER_CONTENTS = Inst(filter_by_line_matcher._ContentsViaAsLines,
                        _line_matcher=MATCHER, _source=Any_, _file_name=Any_)

M.contract(P_FLM + ':_ContentsViaAsLines._line_and_line_matcher_models',
           params=dict(self=_FILTER_CONTENTS, lines=IterOf(Str)), returns=IterOf(_PAIR), ghosts=dict(n=Int),
           ensures={
               'items-are-consecutive-correctly-numbered-lines': lambda lines, result:
               forall_range(0, len(items_of(result)), lambda k:
               _numbered_from(items_of(result), lines.xs, k)),
               'every-line-the-matcher-may-accept-is-presented': lambda self, lines, result, n:
               (not (1 <= n and n <= len(lines.xs) and D(self._line_matcher, n)))
               or (len(items_of(result)) > 0
                   and _presented_at(items_of(result), n, n - items_of(result)[0][1][0])),
           }, raises_only=())


def _numbered_from(items, X, k):
    """item k is the line numbered first+k, where first is the number of item 0"""
    return 1 <= items[0][1][0] and items[0][1][0] + k <= len(X) \
        and items[k][1][0] == items[0][1][0] + k \
        and items[k][0] == X[items[k][1][0] - 1] \
        and items[k][1][1] == X[items[k][1][0] - 1].rstrip('\n')


M.contract(P_FLM + ':_ContentsViaAsLines._transform_lines',
           params=dict(self=_FILTER_CONTENTS, lines=IterOf(Str)), returns=IterOf(Str), ghosts=dict(n=Int),
           ensures={
               # THE property: the output is exactly the accepted lines, in order.
               # src(k) is the (0-based) input line of the k-th output line; pos_of(j) the output position of line j.
               'output-lines-are-accepted-input-lines-in-order': lambda self, lines, result:
               forall_range(0, len(items_of(result)), lambda k:
               0 <= _line_index(result, k) and _line_index(result, k) < len(lines.xs)
               and items_of(result)[k] == lines.xs[_line_index(result, k)]
               and accepted(self._line_matcher, lines.xs, _line_index(result, k)))
               and forall_range(0, len(items_of(result)) - 1, lambda k:
               _line_index(result, k) < _line_index(result, k + 1)),
               # n is an arbitrary line number (ghost): the statement holds for every line
               'no-accepted-line-is-lost': lambda self, lines, result, n:
               (not (1 <= n and n <= len(lines.xs) and accepted(self._line_matcher, lines.xs, n - 1)))
               or _kept(result, lines.xs, n - 1),
           }, raises_only=())


def _line_index(result, k):
    """0-based index of the input line that the k-th output line comes from (ghost map of the filter)"""
    out = items_of(result)
    return out.source[out.src(k)][1][0] - 1


def _kept(result, X, j):
    """input line j is in the output: at position pos_of(its index among the presented lines)"""
    out = items_of(result)
    presented = out.source
    i = j + 1 - presented[0][1][0]
    return len(presented) > 0 and 0 <= i and i < len(presented) \
        and 0 <= out.pos_of(i) and out.pos_of(i) < len(out) and out.src(out.pos_of(i)) == i
