"""C03, "every validator of every argument is asked before anything is executed": the validator of a composite value
is made of the validators of ALL its parts -- three composites whose validators were dropped by seeded changes of the
fourth round (C03-s10: `-max-depth` of a recursive dir-contents model; C03-s11 = C18-s10: the regex of `replace -at
LINE-MATCHER`; C15-s11: the nested FILE-LIST of `dir D += { ... }`)."""
from pyvc.api import Module, Interface, Method, Iface, Inst, Opt, EnumOf, Any_, Bool

from exactly_lib.impls.types.string_transformer.impl.replace import impl as replace_impl
from exactly_lib.impls.types.file_matcher.impl import dir_contents
from exactly_lib.impls.types.files_source.impl.file_makers import dir_ as dir_maker
from exactly_lib.impls.types.files_source.defs import ModificationType
from exactly_lib.type_val_deps.dep_variants.ddv import ddv_validators, ddv_validation

M = Module('C03')


class ValidatorI(Interface):
    """a DdvValidator (opaque, compared by identity)"""
    by_id = True


class HasValidatorMethodI(Interface):
    """RegexDdv / IntegerDdv: `validator()` gives its validator (the same one every time)"""
    by_id = True
    methods = {'validator': Method(returns=Iface(ValidatorI), pure=True)}


class HasValidatorAttrI(Interface):
    """LineMatcherDdv / FilesSourceDdv: `validator` property"""
    by_id = True
    attrs = {'validator': Iface(ValidatorI), 'describer': Any_}


def _is_conjunction_of(v, a, b):
    return type(v) is ddv_validators.AndValidator and len(v.validators) == 2 \
        and ((v.validators[0] is a and v.validators[1] is b) or (v.validators[0] is b and v.validators[1] is a))


M.contract('exactly_lib.impls.types.string_transformer.impl.replace.impl:_Ddv.validator',
           props=('C03', 'C18'),
           params=dict(self=Inst(replace_impl._Ddv, _lines_selector=Opt(Iface(HasValidatorAttrI)), _preserve_new_lines=Bool,
                                 _regex=Iface(HasValidatorMethodI), _replacement=Any_)),
           returns=Any_,
           ensures={'the regex is validated -- with and without -at -- and so is the line matcher of -at':
                    lambda self, result:
                    (result is self._regex.validator()) if self._lines_selector is None
                    else _is_conjunction_of(result, self._lines_selector.validator, self._regex.validator())},
           raises_only=())

M.contract('exactly_lib.impls.types.file_matcher.impl.dir_contents:_RecursiveModelConstructorDdv.__init__',
           props=('C03', 'C18', 'C15'),
           params=dict(self=Inst(dir_contents._RecursiveModelConstructorDdv), min_depth=Opt(Iface(HasValidatorMethodI)),
                       max_depth=Opt(Iface(HasValidatorMethodI))),
           ensures={'-min-depth and -max-depth are both validated': lambda self, min_depth, max_depth:
                    (type(self._validator) is ddv_validation.ConstantDdvValidator
                     if min_depth is None and max_depth is None
                     else self._validator is max_depth.validator() if min_depth is None
                     else self._validator is min_depth.validator() if max_depth is None
                     else _is_conjunction_of(self._validator, min_depth.validator(), max_depth.validator()))
                    and self._min_depth is min_depth and self._max_depth is max_depth},
           raises_only=())

M.contract('exactly_lib.impls.types.files_source.impl.file_makers.dir_:DirFileMakerDdv.validator',
           props=('C03', 'C15'),
           params=dict(self=Inst(dir_maker.DirFileMakerDdv, _modification=EnumOf(ModificationType),
                                 _contents=Opt(Iface(HasValidatorAttrI)), _contents_describer=Any_)),
           returns=Any_,
           ensures={'the nested FILE-LIST is validated, for `=` and for `+=`': lambda self, result:
                    (type(result) is ddv_validation.ConstantDdvValidator) if self._contents is None
                    else result is self._contents.validator},
           raises_only=())
