"""C18, "ill-formed and extreme integers ... are reported as VALIDATION_ERROR": the integer evaluation used by the
LINE-NUMBER-RANGEs of `filter -line-nums` (impls/types/integer/validation.py: evaluate; the range validator of
line_nums/resolvers.py catches ValidationErrorException only, so anything else that escapes is an INTERNAL_ERROR).
Seeded change C18-s9 (a fast path `int(literal)` for `literal.isdigit()`: ValueError for non-ASCII digits and for
literals of more than 4300 digits)."""
from pyvc.api import Module, Str, Int
from contracts.C18_mistakes import INT_STR_LIMIT  # noqa: F401  (python_evaluate's contract: used at the call site)

from exactly_lib.impls.exception.validation_error_exception import ValidationErrorException

M = Module('C18')

M.contract('exactly_lib.impls.types.integer.validation:evaluate', params=dict(py_expr=Str), returns=Int,
           ensures={'an integer that can be written in decimal notation': lambda result:
                    isinstance(result, int) and -INT_STR_LIMIT < result and result < INT_STR_LIMIT},
           raises={ValidationErrorException: {}},
           raises_only=())
