"""C07 -- bounded stand-in for the assembled document parser (DESIGN 2.6 / C07).

The real parser -- `processing.parse.test_case_parser.new_parser(setup)`, i.e. the real phase configuration,
the real comment / including-directive / description / instruction-dictionary / act-phase parsers and the real
`_Impl.apply` below them, with two tiny instructions (`one`: one line, `multi`: its line and the next) -- is run
on EVERY document over an alphabet of line kinds up to a length bound, with included files, and compared with
the independent reference reader below (written from the reference manual, ~70 lines, no code shared with
the program).  Compared: the elements of every phase in order (kind, first line number, lines, file, chain of
including directives, description), and for errors their kind, phase, line number(s) and file chain.
Also: permuting the phase blocks of a document without changing the relative order of the blocks of any one
phase never changes what each phase contains.

Not imported by the deductive part; never counted as proved."""
import itertools
import os
import pathlib
import shutil
import tempfile

PHASES = ('conf', 'setup', 'act', 'before-assert', 'assert', 'cleanup')


# ------------------------------------------------------------------------------ reference reader

class RefError(Exception):
    def __init__(self, kind, phase, where):
        self.kind, self.phase, self.where = kind, phase, where       # where: [(file, line or None), ...]


def _unescape(line):
    body = line.lstrip()
    lead = line[:len(line) - len(body)]
    if body.startswith('\\['):
        return lead + '[' + body[2:]
    if body.startswith('\\\\'):
        return lead + '\\' + body[2:]
    return line


def _is_header(line):
    return line.lstrip(' \t').startswith('[')


def _header_name(line):
    """the phase named by a header line, None when the line is not of the form  [ name ]"""
    body = line.strip(' \t')
    if not (body.startswith('[') and body.endswith(']')):
        return None
    name = body[1:-1]
    ok = name and all(c.isalnum() or c == '_' or ' ' <= c <= '.' for c in name) \
        and (name[0].isalnum() or name[0] == '_') and (name[-1].isalnum() or name[-1] == '_')
    return name if ok else None


def ref_read(files, file_name, default_phase, chain, visited, shown_name=None):
    """{phase: [element]}; element = (kind, first line number, lines, file, chain, description)"""
    shown = shown_name if shown_name is not None else file_name
    if file_name in visited:
        raise RefError('cycle', default_phase, chain)
    if file_name not in files:
        raise RefError('access', default_phase, chain)
    lines = files[file_name].split('\n')
    n = len(lines)
    out = {}
    phase = default_phase

    def at_end(i):      # the end of the text: past the last line, or on a last line that is empty
        return i >= n or (i == n - 1 and lines[i] == '')

    def add(kind, first, ls, description=None):
        out.setdefault(phase, []).append((kind, first + 1, tuple(ls), shown, tuple(chain), description))

    i = 0
    while not at_end(i):
        line = lines[i]
        if _is_header(line):
            name = _header_name(line)
            if name is None or name not in PHASES:
                raise RefError('source', None, list(chain) + [(shown, i + 1)])
            phase = name
            out.setdefault(phase, [])
            i += 1
            continue
        if phase is None:
            raise RefError('source', None, list(chain) + [(shown, i + 1)])
        if phase == 'act':
            j = i + 1
            while not at_end(j) and not _is_header(lines[j]):
                j += 1
            add('INSTRUCTION', i, [_unescape(l) for l in lines[i:j]])
            i = j
            continue
        if line.strip(' \t') == '':
            j = i
            while j < n and lines[j].strip(' \t') == '':
                j += 1
            add('EMPTY', i, lines[i:j])
            i = j
            continue
        if line.lstrip(' \t').startswith('#'):
            j = i
            while j < n and lines[j].lstrip(' \t').startswith('#'):
                j += 1
            add('COMMENT', i, lines[i:j])
            i = j
            continue
        words = line.split()
        if words[0] == 'including':
            if len(words) != 2:
                raise RefError('source', phase, list(chain) + [(shown, i + 1)])
            sub = ref_read(files, words[1], phase, list(chain) + [(shown, i + 1)], list(visited) + [file_name])
            for ph, elements in sub.items():
                out.setdefault(ph, []).extend(elements)
            i += 1
            continue
        description = None
        rest = line.lstrip()
        if rest.startswith('`'):
            end = rest.index('`', 1)           # (the alphabet has one-line descriptions only)
            description = rest[1:end].strip()
            rest = rest[end + 1:].lstrip()
        name = rest.split()[0]
        if name == 'one':
            add('INSTRUCTION', i, [rest], description)
            i += 1
        elif name == 'multi':
            # its line and the next one; the element's lines are the consumed text split at newlines, minus one
            # trailing empty piece (so a final empty line of the file that it takes does not show)
            taken = lines[i + 1:i + 2]
            if taken == [''] and i + 1 == n - 1:
                taken = []
            add('INSTRUCTION', i, [rest] + taken, description)
            i += 2
        else:
            raise RefError('source', phase, list(chain) + [(shown, i + 1)])
    return out


# ------------------------------------------------------------------------------ the real parser

def _real_parser():
    from exactly_lib.processing.parse import test_case_parser
    from exactly_lib.processing.parse.act_phase_source_parser import ActPhaseParser
    from exactly_lib.processing.instruction_setup import TestCaseParsingSetup, InstructionsSetup
    from exactly_lib.section_document.element_parsers.section_element_parsers import \
        InstructionParserWithoutSourceFileLocationInfo
    from exactly_lib.section_document import model

    class Instr(model.Instruction):
        pass

    class OneLine(InstructionParserWithoutSourceFileLocationInfo):
        def parse_from_source(self, source):
            source.consume_current_line()
            return Instr()

    class TwoLines(InstructionParserWithoutSourceFileLocationInfo):
        def parse_from_source(self, source):
            source.consume_current_line()
            if source.has_current_line:
                source.consume_current_line()
            return Instr()

    def instructions():
        return {'one': OneLine(), 'multi': TwoLines()}

    setup = TestCaseParsingSetup(lambda s: s.split()[0],
                                 InstructionsSetup(instructions(), instructions(), instructions(), instructions(),
                                                   instructions()),
                                 ActPhaseParser())
    parser = test_case_parser.new_parser(setup)
    # (the TestCase object built by Parser.apply insists on the instruction classes of the phases; the document
    # parser inside it is what reads the file)
    return parser._Parser__section_document_parser


def real_read(doc_parser, directory, file_name, text):
    from exactly_lib.section_document.parse_source import ParseSource
    from exactly_lib.section_document.exceptions import FileSourceError, FileAccessError
    path = pathlib.Path(directory) / file_name

    def shown(p):
        return file_name if p == path else str(p)

    def where(location_path):
        return [(shown(l.file_path_rel_referrer), l.source.first_line_number if l.source is not None else None)
                for l in location_path]

    try:
        doc = doc_parser.parse_source(path, ParseSource(text))
    except FileSourceError as e:
        return ('error', 'source', e.maybe_section_name, where(e.location_path))
    except FileAccessError as e:
        kind = 'cycle' if e.message == 'Cyclic inclusion of file' else 'access'
        return ('error', kind, e.maybe_section_name, where(e.location_path))
    out = {}
    for phase in doc.section:
        out[phase] = [
            (e.element_type.name, e.source.first_line_number, tuple(e.source.lines),
             shown(e.source_location_info.source_location_path.location.file_path_rel_referrer),
             tuple(where(e.source_location_info.source_location_path.file_inclusion_chain)),
             e.instruction_info.description if e.instruction_info is not None else None)
            for e in doc.elements_for_section(phase).elements]
    return ('ok', out)


def ref_outcome(files, file_name):
    try:
        return ('ok', ref_read(files, file_name, 'act', [], []))
    except RefError as e:
        return ('error', e.kind, e.phase, list(e.where))


# ------------------------------------------------------------------------------ the documents

LINE_KINDS = (
    '[setup]', '[act]', '[assert]',            # phase headers
    '[nope]',                                  # unknown phase
    '[setup',                                  # malformed header
    '# c',                                     # comment
    '',                                        # blank
    'one a',                                   # one-line instruction
    'multi x',                                 # two-line instruction (its line and the next one)
    '`d` one b',                               # instruction with description
    'plain',                                   # act source line (an unknown instruction elsewhere)
    '\\[esc]',                                 # escaped header line
    'including inc1',                          # including directive
)

INCLUDED_VARIANTS = (
    # inc1, inc2: no inclusion / plain contents / changes phase / nested / cycles (self, mutual, back to main)
    {},
    {'inc1': 'one i'},
    {'inc1': '[assert]\none i\n[setup]\nmulti m\nn'},
    {'inc1': 'including inc2\none i', 'inc2': '# c\n[act]\nsrc'},
    {'inc1': 'including inc1'},
    {'inc1': 'including inc2', 'inc2': 'including inc1'},
    {'inc1': '[act]\nincluding main.case'},
    {'inc1': '[nope]'},
)


def documents(max_len):
    for n in range(0, max_len + 1):
        for lines in itertools.product(LINE_KINDS, repeat=n):
            yield '\n'.join(lines)


def phase_blocks(text):
    """(lines before the first header, [blocks starting with a header])"""
    lines = text.split('\n')
    head, blocks = [], []
    for l in lines:
        if _is_header(l):
            blocks.append([l])
        elif blocks:
            blocks[-1].append(l)
        else:
            head.append(l)
    return head, blocks


def run(ctx):
    max_len = 4 if ctx.tier == 'thorough' else 3
    doc_parser = _real_parser()
    directory = tempfile.mkdtemp(prefix='c07-bounded-')
    failures = []
    cases = 0
    perm_cases = 0
    try:
        for variant in INCLUDED_VARIANTS:
            for name in ('inc1', 'inc2'):
                p = pathlib.Path(directory) / name
                if name in variant:
                    p.write_text(variant[name])
                elif p.exists():
                    p.unlink()
            uses_main = any('main.case' in t for t in variant.values())
            for text in documents(max_len):
                if not variant and 'including' in text and cases > 0:
                    pass       # (an including directive for a missing file: the access-error case)
                if variant and 'including' not in text:
                    continue   # (the included files do not matter)
                files = dict(variant)
                files['main.case'] = text
                if uses_main:
                    (pathlib.Path(directory) / 'main.case').write_text(text)
                real = real_read(doc_parser, directory, 'main.case', text)
                ref = ref_outcome(files, 'main.case')
                cases += 1
                if real != ref and len(failures) < 20:
                    failures.append({'input': {'main.case': text, **variant}, 'expected': repr(ref)[:600],
                                     'actual': repr(real)[:600], 'replay': _replay_source(text, variant)})
        # order of phase declarations
        for text in documents(max_len):
            head, blocks = phase_blocks(text)
            if len(blocks) < 2 or len(blocks) > 3 or 'including' in text:
                continue
            if text.endswith('\n'):
                continue      # (a final empty line is the file's trailing newline: moving it makes it a blank line)
            base = real_read(doc_parser, directory, 'main.case', text)
            if base[0] != 'ok':
                continue
            for perm in itertools.permutations(range(len(blocks))):
                if list(perm) == sorted(perm):
                    continue
                # only permutations that keep the blocks of each phase in their relative order
                order_kept = all(perm.index(a) < perm.index(b) for a in range(len(blocks)) for b in range(len(blocks))
                                 if a < b and blocks[a][0].strip() == blocks[b][0].strip())
                if not order_kept:
                    continue
                # (a `multi` at the end of a block would take the next block's header as its second line)
                if any(b[-1].startswith('multi') or b[-1].startswith('`d` multi') for b in blocks) or \
                        (head and head[-1].startswith('multi')):
                    continue
                text2 = '\n'.join(head + [l for k in perm for l in blocks[k]])
                if text2.endswith('\n'):
                    continue      # (the other direction: a blank line moved to the end becomes the trailing newline)
                other = real_read(doc_parser, directory, 'main.case', text2)
                perm_cases += 1
                same = other[0] == 'ok' and {ph: [(e[0], e[2], e[5]) for e in es] for ph, es in base[1].items() if es} \
                    == {ph: [(e[0], e[2], e[5]) for e in es] for ph, es in other[1].items() if es}
                if not same and len(failures) < 20:
                    failures.append({'input': {'main.case': text, 'permuted': text2},
                                     'expected': 'same contents of every phase', 'actual': repr(other)[:600],
                                     'replay': None})
    finally:
        shutil.rmtree(directory, ignore_errors=True)
    ctx.bounded_result(
        'exactly_lib.processing.parse.test_case_parser:new_parser(..) / section_document.impl.document_parser:_Impl.apply',
        bound='documents of <= %d lines over %d line kinds x %d sets of included files (depth <= 2, self / mutual / '
              'back-to-main cycles, missing file); block permutations of documents with 2-3 phase blocks'
              % (max_len, len(LINE_KINDS), len(INCLUDED_VARIANTS)),
        cases=cases + perm_cases, exhaustive=True, failures=failures,
        note='%d documents against the reference reader, %d block permutations' % (cases, perm_cases))


def _replay_source(text, variant):
    return ('import sys\nsys.path.insert(0, %r)\nfrom contracts import C07_bounded as B\n'
            'import tempfile, pathlib\nd = tempfile.mkdtemp()\n'
            'variant = %r\ntext = %r\n'
            'for k, v in variant.items():\n    pathlib.Path(d, k).write_text(v)\n'
            'pathlib.Path(d, "main.case").write_text(text)\n'
            'real = B.real_read(B._real_parser(), d, "main.case", text)\n'
            'ref = B.ref_outcome(dict(variant, **{"main.case": text}), "main.case")\n'
            'print("real:", real)\nprint("ref: ", ref)\nsys.exit(1 if real != ref else 0)\n'
            % (os.path.dirname(os.path.dirname(os.path.abspath(__file__))), variant, text))


# ------------------------------------------------------------------------------ states of a ParseSource

def _state(ps):
    return (ps._column_index, ps.source_string, ps._current_line_number, ps._current_line_text)


def _offset(orig, st):
    return len(orig) - len(st[1]) + st[0]


def run_states(ctx):
    """For every text over {a, space, line break} up to a bound: the states reachable from ParseSource(text) by
    arbitrary sequences of the public mutators (consume, consume_current_line, consume_part_of_current_line,
    consume_initial_space_on_current_line) against the two claims the operational model of opaque parsers
    (contracts/C07_document.py, havoc_source_forward) rests on:
      1. the state is a function of (offset, there is a current line);
      2. every reachable state is reached by consume(n), optionally followed by consume_current_line() on the last
         line."""
    from exactly_lib.section_document.parse_source import ParseSource
    import copy
    max_len = 9 if ctx.tier == 'thorough' else 7
    alphabet = ('a', ' ', '\n')
    failures = []
    cases = 0
    for n in range(max_len + 1):
        for chars in itertools.product(alphabet, repeat=n):
            text = ''.join(chars)
            start = ParseSource(text)
            seen = {_state(start): start}
            todo = [start]
            while todo:
                ps = todo.pop()
                succ = []
                if ps.has_current_line:
                    for op in ('line', 'space'):
                        c = copy.copy(ps)
                        c.consume_current_line() if op == 'line' else c.consume_initial_space_on_current_line()
                        succ.append(c)
                    for k in range(len(ps.remaining_part_of_current_line) + 1):
                        c = copy.copy(ps)
                        c.consume_part_of_current_line(k)
                        succ.append(c)
                for k in range(len(ps.remaining_source) + 1):
                    c = copy.copy(ps)
                    c.consume(k)
                    succ.append(c)
                for c in succ:
                    if _state(c) not in seen:
                        seen[_state(c)] = c
                        todo.append(c)
            # the states of the operational model
            model_states = set()
            for k in range(len(text) + 1):
                c = ParseSource(text)
                if k > len(c.remaining_source):
                    continue
                c.consume(k)
                model_states.add(_state(c))
                if c.has_current_line and '\n' not in c.source_string:
                    c.consume_current_line()
                    model_states.add(_state(c))
            cases += 1
            by_key = {}
            for st in seen:
                key = (_offset(text, st), st[2] is not None)
                if key in by_key and by_key[key] != st and len(failures) < 20:
                    failures.append({'input': {'text': text}, 'expected': 'one state at %r' % (key,),
                                     'actual': repr((by_key[key], st)), 'replay': None})
                by_key[key] = st
            missing = [st for st in seen if st not in model_states]
            if missing and len(failures) < 20:
                failures.append({'input': {'text': text}, 'expected': 'every reachable state is a state of the model',
                                 'actual': repr(missing[:3]), 'replay': None})
    ctx.bounded_result(
        'exactly_lib.section_document.parse_source:ParseSource (states reachable through the public mutators)',
        bound='texts of <= %d characters over {a, space, line break}; all sequences of mutator calls' % max_len,
        cases=cases, exhaustive=True, failures=failures,
        note='state = f(offset, has current line); reachable states = states of consume(n) [+ consume_current_line()]')


# ------------------------------------------------------------------------------ parse_and_compute_source

def run_parse_and_compute_source(ctx):
    """The real parse_and_compute_source against the clauses of its contract (contracts/C07_document.py), for
    every text over {a, space, line break} up to a bound, every start state with a current line, and every
    instruction parser of the operational model (consume(n), optionally consume_current_line() on the last line)."""
    from exactly_lib.section_document.parse_source import ParseSource
    from exactly_lib.section_document.element_parsers import section_element_parsers as sep
    from contracts import C07_document as D
    max_len = 7 if ctx.tier == 'thorough' else 6
    alphabet = ('a', ' ', '\n')
    failures = []
    cases = 0
    the_instruction = object()
    the_description = object()

    class Parser(sep.InstructionParser):
        def __init__(self, n, whole_line):
            self.n, self.whole_line = n, whole_line

        def parse(self, fs_location_info, source):
            source.consume(self.n)
            if self.whole_line:
                source.consume_current_line()
            return the_instruction

    for n in range(max_len + 1):
        for chars in itertools.product(alphabet, repeat=n):
            text = ''.join(chars)
            for k in range(len(text) + 1):
                start = ParseSource(text)
                if k > len(start.remaining_source):
                    continue
                start.consume(k)
                if not start.has_current_line:
                    continue
                old = D.off_of(start, text)
                for m in range(len(start.remaining_source) + 1):
                    for whole_line in (False, True):
                        source = ParseSource(text)
                        source.consume(k)
                        probe = ParseSource(text)
                        probe.consume(k)
                        probe.consume(m)
                        if whole_line and not (probe.has_current_line and '\n' not in probe.source_string):
                            continue
                        cases += 1
                        try:
                            r = sep.parse_and_compute_source(Parser(m, whole_line), None, source, the_description)
                            new = D.off_of(source, text)
                            lines = list(r.source.lines)
                            ok = D.RI(source, text) and new >= old \
                                and r.source.first_line_number == D.line_number_at(text, old) \
                                and '\n'.join(lines) == D.without_final_newline(text[old:new]) \
                                and len(lines) >= 1 and all('\n' not in l for l in lines) \
                                and r.instruction_info.instruction is the_instruction \
                                and r.instruction_info.description is the_description
                            actual = repr((r.source.first_line_number, lines, new))
                        except Exception as e:
                            ok, actual = False, 'raised %r' % (e,)
                        if not ok and len(failures) < 20:
                            failures.append({'input': {'text': text, 'start offset': k, 'consumed': m,
                                                       'then the rest of the last line': whole_line},
                                             'expected': 'the clauses of the contract of parse_and_compute_source',
                                             'actual': actual, 'replay': None})
    ctx.bounded_result(
        'exactly_lib.section_document.element_parsers.section_element_parsers:parse_and_compute_source',
        bound='texts of <= %d characters over {a, space, line break}; every start offset with a current line; every '
              'amount consumed by the instruction parser' % max_len,
        cases=cases, exhaustive=True, failures=failures,
        note='the ensures clauses of the contract, evaluated natively')


# ------------------------------------------------------------------------------ _consume_space_and_comment_lines

def run_consume_space_and_comment_lines(ctx):
    """The real InstructionWithOptionalDescriptionParser._consume_space_and_comment_lines against the clauses of its
    contract, for every text over {a, space, #, line break} up to a bound and every start state with a current
    line: on return the source is well formed, not moved back and has a current line; the only exception is
    UnrecognizedSectionElementSourceError, with the source well formed and not moved back."""
    from exactly_lib.section_document.parse_source import ParseSource
    from exactly_lib.section_document.element_parsers import optional_description_and_instruction_parser as odi
    from exactly_lib.section_document.section_element_parsing import UnrecognizedSectionElementSourceError
    from contracts import C07_document as D
    max_len = 7 if ctx.tier == 'thorough' else 6
    alphabet = ('a', ' ', '#', '\n')
    failures = []
    cases = 0
    for n in range(max_len + 1):
        for chars in itertools.product(alphabet, repeat=n):
            text = ''.join(chars)
            for k in range(len(text) + 1):
                source = ParseSource(text)
                if k > len(source.remaining_source):
                    continue
                source.consume(k)
                if not source.has_current_line:
                    continue
                old = D.off_of(source, text)
                first_line = source.current_line
                cases += 1
                try:
                    odi.InstructionWithOptionalDescriptionParser._consume_space_and_comment_lines(source, first_line)
                    ok = D.RI(source, text) and D.off_of(source, text) >= old and D.has_line(source)
                    actual = 'returned with %r' % (_state(source),)
                except UnrecognizedSectionElementSourceError:
                    ok = D.RI(source, text) and D.off_of(source, text) >= old
                    actual = 'unrecognized element with %r' % (_state(source),)
                except Exception as e:
                    ok, actual = False, 'raised %r' % (e,)
                if not ok and len(failures) < 20:
                    failures.append({'input': {'text': text, 'start offset': k},
                                     'expected': 'the clauses of the contract of _consume_space_and_comment_lines',
                                     'actual': actual, 'replay': None})
    ctx.bounded_result(
        'exactly_lib.section_document.element_parsers.optional_description_and_instruction_parser:'
        'InstructionWithOptionalDescriptionParser._consume_space_and_comment_lines',
        bound='texts of <= %d characters over {a, space, #, line break}; every start offset with a current line'
              % max_len,
        cases=cases, exhaustive=True, failures=failures,
        note='the ensures clauses of the contract, evaluated natively')

