"""C12 (extension M12) -- the accepted relativities are VALUES: the module-level relativity constants are never mutated.

Property statement: "Any argument that designates a file or directory to create or modify accepts only the act, tmp and
current directories as relativity: another relativity option is a syntax error, and a path symbol whose value is
relative to a home directory or the result directory, or is absolute [...] is rejected before execution".

contracts/C12_paths.py (`relativity enums`, `destination arguments`) reads the real module constants
(`RELATIVITY_VARIANTS_FOR_FILE_CREATION`, ...) and the configurations the real parser objects hold -- at the time the
check is loaded.  `PathRelativityVariants.rel_option_types` hands out the very `set` object the constant holds, so
those obligations say what the program accepts only if nothing changes that set afterwards: a function that builds the
configuration of ANOTHER instruction from such a constant and `.add()`s to what it got changes what `file` / `dir` /
`copy` accept from then on, in every phase (seeded C12-s8).  The missing part of the statement is the frame:

 (a) `relativity constants: frame`  -- every function of the tree that builds a relativity configuration
     (discovered, not listed: the module-level callables of every module that mentions the configuration classes, whose
     required parameters are phase flags / names / relativities) is CALLED natively for every argument, and the
     module-level relativity constants of all those modules -- taken as frozen VALUES (frozenset of the accepted
     relativities, absolute flag, default) -- are compared before / after (and, first, with the value their
     DEFINITION gives: the module source executed again in a fresh namespace); then, after all of them ran and the
     complete program (all instruction sets) is loaded, the accepted-set obligations of the property are evaluated
     again on the constants and on freshly built parsers of `file`, `dir`, `copy`;
 (b) `relativity constants: syntactic frame` -- no function of the tree calls a mutating method / uses an augmented
     assignment / stores into an object obtained (by attribute access or subscription, also through a local) from a
     module-level constant (ALL-CAPS name assigned or imported at module level, or `module.CONSTANT`); whole tree.

Both are finite obligations on the real tree (ENGINE.md section 6), nothing is copied: the constants, the builders and
the sources are those of the tree under check."""
import ast
import importlib
import inspect
import itertools
import os
import re
import runpy
import typing

from pyvc.api import Module

M = Module('C12')

_CONF_WORDS = ('PathRelativityVariants', 'RelOptionsConfiguration', 'RelOptionArgumentConfiguration')
_MUTATORS = ('add', 'update', 'remove', 'discard', 'pop', 'clear', 'append', 'extend', 'insert', 'sort', 'reverse',
             'setdefault', 'popitem', 'difference_update', 'intersection_update', 'symmetric_difference_update',
             '__setitem__', '__delitem__', '__ior__', '__iand__', '__isub__', '__ixor__', '__iadd__')
_CONST_NAME = re.compile(r'^_{0,2}[A-Z][A-Z0-9_]*$')


def _files_mentioning(words):
    """(module name, path) of every module of the tree under check whose source mentions one of the words"""
    from pyvc import REPO_SRC
    out = []
    for dirpath, _dirs, files in os.walk(os.path.join(REPO_SRC, 'exactly_lib')):
        for fn in sorted(files):
            if fn.endswith('.py'):
                path = os.path.join(dirpath, fn)
                with open(path, encoding='utf-8') as f:
                    text = f.read()
                if any(w in text for w in words):
                    rel = os.path.relpath(path, REPO_SRC)[:-3]
                    name = rel.replace(os.sep, '.')
                    if name.endswith('.__init__'):
                        name = name[:-len('.__init__')]
                    out.append((name, path, text))
    return sorted(out)


# ------------------------------------------------------------------------------------------------ (a) values, frame

def _classes():
    from exactly_lib.tcfs.path_relativity import (PathRelativityVariants, RelOptionType, RelHdsOptionType,
                                                   RelSdsOptionType, RelNonHdsOptionType)
    from exactly_lib.type_val_deps.types.path.rel_opts_configuration import (RelOptionsConfiguration,
                                                                             RelOptionArgumentConfiguration)
    return dict(variants=PathRelativityVariants, options=RelOptionsConfiguration, arg=RelOptionArgumentConfiguration,
                enums=(RelOptionType, RelHdsOptionType, RelSdsOptionType, RelNonHdsOptionType), rel=RelOptionType)


def frozen_value(x, k):
    """The VALUE of a relativity constant (None: not one).  Sets become frozensets of member names."""
    if isinstance(x, k['variants']):
        return ('variants', frozenset(r.name for r in x.rel_option_types), x.absolute)
    if isinstance(x, k['options']):
        return ('options', frozen_value(x.accepted_relativity_variants, k), x.default_option.name)
    if isinstance(x, k['arg']):
        return ('arg', frozen_value(x.options, k), x.argument_syntax_name, x.path_suffix_is_required)
    if isinstance(x, (set, frozenset)) and x and all(isinstance(e, k['enums']) for e in x):
        return ('set', frozenset((type(e).__name__, e.name) for e in x))
    return None


def _sets_of(x, k, out):
    """the mutable set objects a constant holds (for restoring them after a mutating builder was run)"""
    if isinstance(x, k['variants']):
        _sets_of(x.rel_option_types, k, out)
    elif isinstance(x, k['options']):
        _sets_of(x.accepted_relativity_variants, k, out)
    elif isinstance(x, k['arg']):
        _sets_of(x.options, k, out)
    elif isinstance(x, set):
        out.append((x, set(x)))


def _restore_to(x, fv, k):
    """put the value `fv` (a frozen_value) back into the mutable sets the constant x holds"""
    if isinstance(x, k['variants']):
        _restore_to(x.rel_option_types, ('relset', fv[1]), k)
    elif isinstance(x, (k['options'], k['arg'])):
        _restore_to(x.accepted_relativity_variants if isinstance(x, k['options']) else x.options, fv[1], k)
    elif isinstance(x, set):
        by_name = {c.__name__: c for c in k['enums']}
        members = {k['rel'][n] for n in fv[1]} if fv[0] == 'relset' else {by_name[t][n] for t, n in fv[1]}
        if x != members:
            x.clear()
            x.update(members)


def _constants(mods, k):
    """{(module, name): object} -- every module-level relativity constant of the given modules"""
    out = {}
    for m in mods:
        for name, v in sorted(vars(m).items()):
            if frozen_value(v, k) is not None and not inspect.isclass(v):
                out[(m.__name__, name)] = v
    return out


def _snapshot(consts, k):
    return {key: frozen_value(v, k) for key, v in consts.items()}


def _diff(before, after):
    return sorted('%s.%s: %s -> %s' % (key[0], key[1], _show(before[key]), _show(after[key]))
                  for key in before if before[key] != after[key])


def _show(v):
    if isinstance(v, frozenset):
        return '{' + ', '.join(sorted(map(str, v))) + '}'
    if isinstance(v, tuple):
        return '(' + ', '.join(_show(e) for e in v) + ')'
    return repr(v)


def _argument_domain(annotation, k):
    if annotation is bool:
        return [False, True]
    if annotation is str:
        return ['NAME']
    if annotation is k['rel']:
        return list(k['rel'])
    return None


def _builders(mods, k):
    """The callables that build relativity configurations: module-level functions and classes DEFINED in a module that
    mentions the configuration classes, all of whose required parameters are phase flags (bool), names (str) or
    relativities (RelOptionType); functions must either return one of the configuration classes (annotation) or take
    phase flags only (parser / instruction factories per phase).  -> [(label, callable, [argument tuples])]"""
    conf_classes = (k['variants'], k['options'], k['arg'])
    out = []
    for m in mods:
        for name, f in sorted(vars(m).items()):
            if getattr(f, '__module__', None) != m.__name__ or not (inspect.isfunction(f) or inspect.isclass(f)):
                continue
            if inspect.isclass(f) and (inspect.isabstract(f) or f.__init__ is object.__init__):
                continue
            try:
                sig = inspect.signature(f)
                hints = typing.get_type_hints(f.__init__ if inspect.isclass(f) else f)
            except Exception:
                continue
            required = [p for p in sig.parameters.values()
                        if p.default is inspect.Parameter.empty
                        and p.kind in (p.POSITIONAL_ONLY, p.POSITIONAL_OR_KEYWORD, p.KEYWORD_ONLY)]
            if any(p.kind in (p.VAR_POSITIONAL, p.VAR_KEYWORD) for p in sig.parameters.values()):
                continue
            domains = [_argument_domain(hints.get(p.name), k) for p in required]
            if not required or any(d is None for d in domains):
                continue
            only_flags = all(hints.get(p.name) is bool for p in required)
            returns_conf = inspect.isfunction(f) and hints.get('return') in conf_classes
            if not (returns_conf or only_flags):
                continue
            calls = [dict(zip([p.name for p in required], combo)) for combo in itertools.product(*domains)]
            out.append(('%s.%s' % (m.__name__, name), f, calls))
    return out


def _run(f, calls):
    """call natively for every argument; an exception of the builder is not this obligation's business"""
    raised = []
    for kw in calls:
        try:
            f(**kw)
        except Exception as ex:  # abstract classes, documentation classes with further needs ...
            raised.append('%s: %s' % (kw, type(ex).__name__))
    return raised


@M.check('relativity constants: frame')
def _frame(ctx):
    k = _classes()
    files = _files_mentioning(_CONF_WORDS)
    mods, not_importable = [], []
    for name, _path, _text in files:
        try:
            mods.append(importlib.import_module(name))
        except Exception as ex:
            not_importable.append('%s: %r' % (name, ex))
    ctx.obligation('every module that mentions the relativity configuration classes can be imported',
                   not not_importable, 'enumeration', detail={'modules': len(files), 'failed': not_importable})
    consts = _constants(mods, k)
    restore = []

    def put_back():
        for s, original in restore:
            if s != original:
                s.clear()
                s.update(original)

    # the value each constant is DEFINED with: the module's source executed again in a fresh namespace (what the live
    # object holds now may already have been changed by code that ran while the program was imported)
    defined, not_executed = {}, []
    for m in mods:
        try:
            ns = runpy.run_path(m.__file__, run_name=m.__name__)
        except Exception as ex:
            not_executed.append('%s: %r' % (m.__name__, ex))
            continue
        for (mod_name, name) in consts:
            if mod_name == m.__name__ and frozen_value(ns.get(name), k) is not None:
                defined[(mod_name, name)] = frozen_value(ns[name], k)
    before = _snapshot(consts, k)
    changed_at_load = _diff(defined, {key: before[key] for key in defined})
    ctx.obligation('at load: every module-level relativity constant has the value its definition gives '
                   '(nothing that runs at import time has changed it)',
                   not changed_at_load and not not_executed and len(defined) >= 10, 'enumeration',
                   detail={'compared': len(defined), 'changed': changed_at_load, 'not executed': not_executed})
    if changed_at_load:      # judge the builders from the defined state all the same
        for key in defined:
            if defined[key] != before[key]:
                _restore_to(consts[key], defined[key], k)
        before = _snapshot(consts, k)
    for v in consts.values():
        _sets_of(v, k, restore)
    builders = _builders(mods, k)
    ctx.obligation('relativity constants and the builders of relativity configurations are found (not vacuous)',
                   len(consts) >= 10 and len(builders) >= 10
                   and any(key[1] == 'RELATIVITY_VARIANTS_FOR_FILE_CREATION' for key in consts)
                   and any(label.endswith('change_dir.relativity_options') for label, _f, _c in builders)
                   and any(label.endswith('path_relativities.relativity_variants') for label, _f, _c in builders),
                   'enumeration', detail={'constants': len(consts), 'builders': [b[0] for b in builders]})
    # 1. each builder on its own: frame
    try:
        for label, f, calls in builders:
            raised = _run(f, calls)
            changed = _diff(before, _snapshot(consts, k))
            ctx.obligation('frame: %s(%s) leaves every module-level relativity constant unchanged'
                           % (label, ' / '.join(sorted({n for c in calls for n in c}))),
                           not changed, 'enumeration',
                           detail={'calls': len(calls), 'changed': changed, 'raised': raised[:3]})
            put_back()
        # 2. all of them one after the other, then the complete program; then the statement itself, again
        for label, f, calls in builders:
            _run(f, calls)
        loaded = True
        try:
            importlib.import_module('exactly_lib.cli_default.default_main_program_setup')
            importlib.import_module('exactly_lib.cli_default.program_modes.test_case.default_instructions_setup')
        except ImportError:
            loaded = False
        changed = _diff(before, _snapshot(consts, k))
        ctx.obligation('frame: after all builders ran and the complete program is loaded every module-level relativity '
                       'constant has the value it was defined with', loaded and not changed, 'enumeration',
                       detail={'changed': changed, 'program loaded': loaded})
        _accepted_sets_again(ctx, k)
    finally:
        put_back()


def _accepted_sets_again(ctx, k):
    """the accepted-set obligations of contracts/C12_paths.py `destination arguments`, evaluated in the state the
    program is in AFTER configurations of all instructions for all phases were built"""
    from exactly_lib.impls.instructions.multi_phase import new_file, new_dir, copy as copy_instr
    from exactly_lib.type_val_deps.types.path import rel_opts_configuration as roc
    from exactly_lib.type_val_deps.types.path import path_relativities
    rel = k['rel']
    writable = frozenset({rel.REL_ACT, rel.REL_TMP, rel.REL_CWD})
    ctx.obligation('afterwards: RELATIVITY_VARIANTS_FOR_FILE_CREATION == {act, tmp, cd}, not absolute',
                   frozenset(roc.RELATIVITY_VARIANTS_FOR_FILE_CREATION.rel_option_types) == writable
                   and roc.RELATIVITY_VARIANTS_FOR_FILE_CREATION.absolute is False, 'enumeration',
                   detail={'accepted': sorted(r.name for r in roc.RELATIVITY_VARIANTS_FOR_FILE_CREATION.rel_option_types)})
    confs = {
        'file (before act)': lambda: new_file.EmbryoParser(False)._path_parser._conf,
        'file (after act)': lambda: new_file.EmbryoParser(True)._path_parser._conf,
        'dir': lambda: new_dir.EmbryoParser()._path_parser._conf,
        'copy destination (before act)': lambda: copy_instr.EmbryoParser(False)._dst_path_parser._conf,
        'copy destination (after act)': lambda: copy_instr.EmbryoParser(True)._dst_path_parser._conf,
    }
    for name, mk in confs.items():
        conf = mk()
        v = conf.options.accepted_relativity_variants
        ctx.obligation('afterwards: destination of %s accepts exactly {act, tmp, cd}, no absolute path' % name,
                       frozenset(v.rel_option_types) == writable and v.absolute is False
                       and frozenset(conf.options.accepted_options) == writable, 'enumeration',
                       detail={'accepted': sorted(r.name for r in v.rel_option_types), 'absolute': v.absolute})
    before = path_relativities.relativity_variants(False)
    after = path_relativities.relativity_variants(True)
    ctx.obligation('afterwards: reading arguments accept all relativities but -rel-result before act, all of them after',
                   frozenset(before.rel_option_types) == frozenset(rel) - {rel.REL_RESULT}
                   and frozenset(after.rel_option_types) == frozenset(rel), 'enumeration')


# ------------------------------------------------------------------------------------------------ (b) syntactic frame

def _module_constants(tree):
    """names of module-level constants of a module: ALL-CAPS names assigned or imported at module level; and the
    local names of imported modules (for `mod.CONSTANT`)"""
    consts, modules = set(), set()
    for node in tree.body:
        targets = []
        if isinstance(node, ast.Assign):
            targets = node.targets
        elif isinstance(node, ast.AnnAssign):
            targets = [node.target]
        for t in targets:
            for n in ast.walk(t):
                if isinstance(n, ast.Name) and _CONST_NAME.match(n.id):
                    consts.add(n.id)
        if isinstance(node, ast.ImportFrom):
            for a in node.names:
                local = a.asname or a.name
                if _CONST_NAME.match(local):
                    consts.add(local)
                elif local.islower() or '_' in local:
                    modules.add(local)       # `from pkg import module [as m]` (or a function: harmless)
        if isinstance(node, ast.Import):
            for a in node.names:
                modules.add((a.asname or a.name).split('.')[0])
    return consts, modules


def _rooted(e, consts, modules, tainted):
    """is the expression an object obtained from a module-level constant (by attribute access / subscription)?"""
    if isinstance(e, ast.Name):
        return e.id in tainted or e.id in consts
    if isinstance(e, ast.Attribute):
        if isinstance(e.value, ast.Name) and e.value.id in modules and e.value.id not in tainted:
            return bool(_CONST_NAME.match(e.attr))
        return _rooted(e.value, consts, modules, tainted)
    if isinstance(e, ast.Subscript):
        return _rooted(e.value, consts, modules, tainted)
    return False


def mutations_of_constants(tree):
    """[(line, text)]: statements inside functions that mutate an object obtained from a module-level constant"""
    consts, modules = _module_constants(tree)
    found = []

    def scan_function(fn):
        bound = {a.arg for a in ast.walk(fn.args) if isinstance(a, ast.arg)}
        local_consts = consts - bound
        tainted = set()
        nodes = sorted((n for n in ast.walk(fn) if hasattr(n, 'lineno')), key=lambda n: (n.lineno, n.col_offset))
        for n in nodes:
            if isinstance(n, ast.Assign) and len(n.targets) == 1 and isinstance(n.targets[0], ast.Name):
                if _rooted(n.value, local_consts, modules, tainted):
                    tainted.add(n.targets[0].id)
                else:
                    tainted.discard(n.targets[0].id)
            if isinstance(n, ast.Call) and isinstance(n.func, ast.Attribute) and n.func.attr in _MUTATORS \
                    and _rooted(n.func.value, local_consts, modules, tainted):
                found.append((n.lineno, '.%s(...) on an object of a module-level constant' % n.func.attr))
            if isinstance(n, ast.AugAssign) and _rooted(n.target, local_consts, modules, tainted) \
                    and not (isinstance(n.target, ast.Name) and n.target.id not in tainted):
                found.append((n.lineno, 'augmented assignment to an object of a module-level constant'))
            if isinstance(n, (ast.Assign, ast.Delete)):
                for t in n.targets:
                    if isinstance(t, (ast.Subscript, ast.Attribute)) and _rooted(t.value, local_consts, modules, tainted):
                        found.append((n.lineno, 'store into an object of a module-level constant'))

    for node in ast.walk(tree):
        if isinstance(node, (ast.FunctionDef, ast.AsyncFunctionDef)):
            scan_function(node)
    return sorted(set(found))


@M.check('relativity constants: syntactic frame')
def _syntactic_frame(ctx):
    from pyvc import REPO_SRC
    files = _files_mentioning(('',))      # every module of the tree
    hits = []
    for name, path, text in files:
        for line, what in mutations_of_constants(ast.parse(text)):
            hits.append('%s:%d %s' % (os.path.relpath(path, REPO_SRC), line, what))
    ctx.obligation('no function of the tree mutates an object obtained from a module-level constant '
                   '(add / update / remove / discard / |= / item or attribute store ...)',
                   not hits and len(files) >= 500, 'scan', detail={'files': len(files), 'mutations': hits[:10]})
