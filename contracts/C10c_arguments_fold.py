"""C10, DESIGN `accumulation`: the FOLD of the parsed program arguments.

`parse_arguments._Parser.parse_from_token_parser` is

    elements = self._elements_parser.parse(token_parser)
    return functools.reduce(_accumulate, elements, ArgumentsSdv.empty())

The step (`ArgumentsSdv.new_accumulated`: own arguments and validators first, then the additional ones) is proved in
contracts/C10_process.py; there the fold itself was only covered by the bounded stand-in `arguments-accumulation`
(<= 4 parsed pieces).  Here the fold is PROVED for a sequence of parsed pieces of arbitrary (symbolic) length, each
piece with argument-element / validator lists of arbitrary length: the result is the flat concatenation, in written
order, of the argument elements (and, separately, of the validators) of all pieces.

Statement (flat-map with ghost indices, in the style of `is_concat(.., j)` of C10_process): with

    off_e(i) = sum of len(arg_elements(xs[m])) for m < i         (sum_prefix: P(0) = 0, P(i+1) = P(i) + len(xs[i]))

 * len(arg_elements(result)) == off_e(len(xs)),
 * for the arbitrary fixed piece index k and the arbitrary fixed index j inside piece k:
   the j-th argument element of piece k is the (off_e(k) + j)-th argument element of the result, and the block of
   piece k lies inside the result: 0 <= off_e(k), off_e(k+1) <= off_e(len(xs)),
 * the same with the validators (off_v).
Since (k, j) are arbitrary this says position by position what the result is (the blocks [off(k), off(k+1)) tile
[0, off(len)) in order), i.e. result == xs[0] ++ xs[1] ++ ... ++ xs[n-1], elements compared by identity token
(`same`, see C10_process: elements are opaque objects that the code only copies).

The elements parser (`generic_parser.ElementsUntilEndOfLineParser2`, C09 territory: token stream) is the environment:
ANY sequence of ArgumentsSdv objects may come out of it; the clause speaks about the sequence it returned (ghost
event).  Nothing is assumed about that sequence."""
from pyvc.api import (Module, Interface, Method, Iface, Inst, Int, Str, Const, ListOf, Any_)
from contracts.common import sum_prefix
from contracts.C10_process import (ARGUMENTS_SDV, ELEMENTS, arg_elements, same, is_empty_seq, _returned)

from exactly_lib.impls.types.program.parse import parse_arguments
from exactly_lib.type_val_deps.types.program.sdv.arguments import ArgumentsSdv

M = Module('C10')

P_PARSE_ARGS = 'exactly_lib.impls.types.program.parse.parse_arguments'

ELEMENTS_PARSED = 'argument-elements-parsed'

PIECES = ListOf(ARGUMENTS_SDV)


class ElementsParserI(Interface):
    """generic_parser.ElementsUntilEndOfLineParser2(_ElementParser(), _MkElement()): one ArgumentsSdv per written
    argument element (environment: any sequence of any ArgumentsSdv objects; token syntax is C09)"""
    methods = {'parse': Method(returns=PIECES, event=ELEMENTS_PARSED)}


def n_arg_elements(piece):
    return len(piece._arguments._elements)


def n_validators(piece):
    return len(piece._validators)


def is_flat_concat_of_first(acc, xs, i, k, j):
    """acc == xs[0] ++ ... ++ xs[i-1]: argument elements and validators, each in written order.
    (k, j): arbitrary fixed piece index / index inside the piece."""
    return len(arg_elements(acc)) == sum_prefix(xs, i, n_arg_elements) \
        and len(acc._validators) == sum_prefix(xs, i, n_validators) \
        and sum_prefix(xs, i, n_arg_elements) >= 0 \
        and sum_prefix(xs, i, n_validators) >= 0 \
        and ((not (0 <= k < i))
             or (0 <= sum_prefix(xs, k, n_arg_elements)
                 and sum_prefix(xs, k + 1, n_arg_elements) <= sum_prefix(xs, i, n_arg_elements)
                 and 0 <= sum_prefix(xs, k, n_validators)
                 and sum_prefix(xs, k + 1, n_validators) <= sum_prefix(xs, i, n_validators))) \
        and ((not (0 <= k < i and 0 <= j < n_arg_elements(xs[k])))
             or same(arg_elements(acc)[sum_prefix(xs, k, n_arg_elements) + j], arg_elements(xs[k])[j])) \
        and ((not (0 <= k < i and 0 <= j < n_validators(xs[k])))
             or same(acc._validators[sum_prefix(xs, k, n_validators) + j], xs[k]._validators[j]))


def _offsets_known_up_to(xs, i, k):
    """auxiliary (induction over the fold): the offsets of the pieces up to i are non-negative (needed when the ghost
    piece k is the one the next iteration appends)"""
    return (not (0 <= k <= i)) or (0 <= sum_prefix(xs, k, n_arg_elements) and 0 <= sum_prefix(xs, k, n_validators))


M.contract(P_PARSE_ARGS + ':_Parser.parse_from_token_parser',
           params=dict(self=Inst(parse_arguments._Parser,
                                 _consume_last_line_if_is_at_eol_after_parse=Const(False),
                                 _consume_last_line_if_is_at_eof_after_parse=Const(False),
                                 _elements_parser=Iface(ElementsParserI)),
                       token_parser=Any_),
           ghosts=dict(k=Int, j=Int),
           returns=ARGUMENTS_SDV,
           ensures={
               'an ArgumentsSdv; the elements parser is asked once': lambda result, trace:
               type(result) is ArgumentsSdv and len([e for e in trace if e[0] == ELEMENTS_PARSED]) == 1,
               'the fold: the argument elements (and the validators) of ALL parsed pieces, flat, in written order':
                   lambda result, trace, k, j:
                   is_flat_concat_of_first(result, _returned(trace, ELEMENTS_PARSED),
                                           len(_returned(trace, ELEMENTS_PARSED)), k, j),
               'nothing parsed => no arguments, no validators': lambda result, trace:
               (not len(_returned(trace, ELEMENTS_PARSED)) == 0)
               or (is_empty_seq(arg_elements(result)) and is_empty_seq(result._validators)),
           },
           raises_only=())

M.loop(P_PARSE_ARGS + ':_Parser.parse_from_token_parser', 'reduce#0',
       invariant=lambda value, _i, _xs, k, j:
       type(value) is ArgumentsSdv
       and is_flat_concat_of_first(value, _xs, _i, k, j)
       and _offsets_known_up_to(_xs, _i, k),
       modifies=dict(value=ARGUMENTS_SDV, element='local'))


# --- what one parsed piece is (the reducer the elements parser applies to every parsed element)

from exactly_lib.type_val_deps.types.list_.list_sdv import ListSdv, SymbolReferenceElementSdv

M.contract(P_PARSE_ARGS + ':_MkElement.reduce_right',
           params=dict(self=Inst(parse_arguments._MkElement), x=ARGUMENTS_SDV),
           ensures={'an element that already is an ArgumentsSdv (-existing-file ..., a string) is taken as it is':
                    lambda x, result: result is x},
           raises_only=())

M.contract(P_PARSE_ARGS + ':_MkElement.reduce_left',
           params=dict(self=Inst(parse_arguments._MkElement), x=Str),
           ensures={'a symbol name becomes ONE argument element, a reference to that symbol, without validators':
                    lambda x, result:
                    type(result) is ArgumentsSdv and type(result._arguments) is ListSdv
                    and len(result._arguments._elements) == 1 and len(result._validators) == 0
                    and type(result._arguments._elements[0]) is SymbolReferenceElementSdv
                    and result._arguments._elements[0].symbol_reference_if_is_symbol_reference.name == x},
           raises_only=())
