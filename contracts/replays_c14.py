"""Native replays for the refuted obligations of C14 (run under the repository's interpreter, no z3).

Each function rebuilds REAL objects (real temporary directory, real files) from the values of the
counter-model, exercises the real code and evaluates the clause natively.  Returns the exit status of
the replay script: 1 = the violation reproduces, 0 = it does not.  When the solver's own values do not
reproduce (they went through an uninterpreted platform function), the smallest member of the witness
class named by the obligation is tried as well, and the input that reproduced is printed."""
import io
import itertools
import os
import pathlib
import tempfile

from contracts.text_spec import split_nl


class _Space:
    """a real DirFileSpace"""

    def __new__(cls):
        from exactly_lib.util.file_utils.dir_file_space import DirFileSpace

        class Space(DirFileSpace):
            def __init__(self):
                self.d = pathlib.Path(tempfile.mkdtemp(prefix='c14-replay-'))
                self.n = itertools.count()

            def new_path(self, name_suffix=None):
                return self.d / ('f%d%s' % (next(self.n), '-' + name_suffix if name_suffix else ''))

            def new_path_as_existing_dir(self, name_suffix=None):
                p = self.new_path(name_suffix)
                p.mkdir()
                return p

            def sub_dir_space(self, name_suffix=None):
                return self

        return Space()


def _writer(text, chunks=None):
    from exactly_lib.impls.types.string_source.contents.contents_via_write_to import Writer

    class W(Writer):
        def write(self, tmp_file_space, output):
            if chunks is None:
                output.write(text)
            else:
                output.writelines(chunks)

    return W()


def file_text(path):
    with open(str(path)) as f:
        return f.read()


def _candidates(first, fallbacks):
    seen = []
    for t in [first] + list(fallbacks):
        if t is not None and t not in seen:
            seen.append(t)
    return seen


def _report(name, inp, expected, actual):
    bad = expected != actual
    print('%s input=%r' % (name, inp))
    print('    expected %r' % (expected,))
    print('    actual   %r   %s' % (actual, 'DIFFERENT' if bad else 'same'))
    return bad


def lines_of_contents_of_str(model):
    """ContentsOfStr.as_lines vs split_nl"""
    from exactly_lib.impls.types.string_source.contents.contents_of_str import ContentsOfStr
    for text in _candidates(model.get('self._contents'), ['a\x0cb\n', 'a\rb']):
        c = ContentsOfStr(text, None, _Space())
        with c.as_lines as lines:
            actual = list(lines)
        if _report('ContentsOfStr.as_lines', text, split_nl(text), actual):
            return 1
    return 0


def lines_of_const_str_and_path(model):
    from exactly_lib.impls.types.string_source.contents import frozen
    for text in _candidates(model.get('self._contents_as_str'), ['a\x0cb\n']):
        if '\r' in text:
            continue        # the class invariant (the file decodes to the string) cannot hold
        sp = _Space()
        p = sp.new_path()
        with open(str(p), 'w', newline='') as f:
            f.write(text)
        c = frozen._StringSourceContentsOfConstStrAndExistingPath(text, p, sp)
        with c.as_lines as lines:
            actual = list(lines)
        if _report('_StringSourceContentsOfConstStrAndExistingPath.as_lines', text, split_nl(text), actual):
            return 1
    return 0


def as_file_of_contents_of_str(model):
    """the file of a text given as a string decodes to that text"""
    from exactly_lib.impls.types.string_source.contents.contents_of_str import ContentsOfStr
    for text in _candidates(model.get('self._contents'), ['\r', 'a\r\nb']):
        c = ContentsOfStr(text, None, _Space())
        if _report('ContentsOfStr.as_file, read back', text, text, file_text(c.as_file)):
            return 1
    return 0


def write_to_of_via_write_to(model):
    """ContentsViaWriteTo: write_to gives the same text before and after the file has been made"""
    from exactly_lib.impls.types.string_source.contents.contents_via_write_to import ContentsViaWriteTo
    for text in _candidates(model.get('self._writer.txt'), ['\r', 'a\r\nb']):
        c = ContentsViaWriteTo(_Space(), _writer(text))
        before = io.StringIO()
        c.write_to(before)
        as_str = c.as_str
        if _report('ContentsViaWriteTo.write_to (before the file exists) vs as_str', text, as_str, before.getvalue()):
            return 1
    return 0


def frozen_from_write(model):
    """frozen__from_write: the frozen text is the text written, for the buffer size of the model and a big one"""
    from exactly_lib.impls.types.string_source.contents import frozen
    text0 = model.get('writer.txt', model.get('writer._contents.txt'))
    size0 = model.get('mem_buff_size', 1)
    for text, size in [(text0, size0), ('a\rb\n', 2), ('\r\n', 1)]:
        if text is None:
            continue
        small = frozen.frozen__from_write(size, _writer(text), _Space())
        big = frozen.frozen__from_write(len(text) + 100, _writer(text), _Space())
        print('buffer %d -> %s, buffer %d -> %s' % (size, type(small).__name__, len(text) + 100, type(big).__name__))
        if _report('frozen__from_write(mem_buff_size=%d).as_str' % size, text, text, small.as_str):
            print('    (with a buffer that holds the text: %r)' % big.as_str)
            return 1
    return 0


def rollover_position(model):
    """SpooledTextFile: text written after the roll-over to disk is appended"""
    from exactly_lib.util.file_utils.spooled_file import SpooledTextFile
    value0 = model.get('self._file.value0')
    for value, more in [(value0, 'x'), ('\xe5\xe4\xf6', 'x\n')]:
        if not value:
            continue
        if len(value) == 1:
            value = value * 2
        sp = _Space()
        with SpooledTextFile(max(1, len(value) - 1), sp.new_path) as f:
            f.write(value)           # exceeds the buffer: rolled over to disk
            on_disk = not f.is_mem_buff
            f.write(more)
            f.flush()
            if not on_disk:
                print('not rolled over')
                continue
            with open(str(f.path_of_file_on_disk), newline='', errors='replace') as g:
                actual = g.read()
        if _report('SpooledTextFile: write(%r) [rolls over], write(%r)' % (value, more), value, value + more, actual):
            return 1
    return 0


def do_compare(model):
    """equals on two file-backed texts: verdict of the byte comparison vs equality of the texts"""
    from exactly_lib.impls.types.string_matcher.impl import equality
    a0 = model.get('processed_actual_file_path.stored')
    e0 = model.get('self._expected.stored')
    for a, e in [(a0, e0), ('a\r\n', 'a\n')]:
        if a is None or e is None:
            continue
        sp = _Space()
        pa, pe = sp.new_path(), sp.new_path()
        for p, t in ((pa, a), (pe, e)):
            with open(str(p), 'w', newline='') as f:
                f.write(t)
        h = equality._ExtDepsOfBothHandler(None, None, pe)
        verdict = h._do_compare(pa)
        texts_equal = file_text(pa) == file_text(pe)
        print('stored actual %r (text %r), stored expected %r (text %r)' % (a, file_text(pa), e, file_text(pe)))
        if _report('_do_compare', (a, e), texts_equal, verdict):
            return 1
    return 0


def source(fn_name):
    """python source of a replay script body"""
    return ('from contracts import replays_c14\n'
            'sys.exit(replays_c14.%s(MODEL))\n' % fn_name)
