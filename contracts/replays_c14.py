"""Native replays for the refuted obligations of C14 (run under the repository's interpreter, no z3).

Each function rebuilds REAL objects (real temporary directory, real files) from the values of the
counter-model, exercises the real code and evaluates the clause natively.  Returns the exit status of
the replay script: 1 = the violation reproduces, 0 = it does not.  When the solver's own values do not
reproduce (they went through an uninterpreted platform function), the smallest member of the witness
class named by the obligation is tried as well, and the input that reproduced is printed."""
import io
import itertools
import os
import pathlib
import tempfile

from contracts.text_spec import split_nl


class _Space:
    """a real DirFileSpace"""

    def __new__(cls):
        from exactly_lib.util.file_utils.dir_file_space import DirFileSpace

        class Space(DirFileSpace):
            def __init__(self):
                self.d = pathlib.Path(tempfile.mkdtemp(prefix='c14-replay-'))
                self.n = itertools.count()

            def new_path(self, name_suffix=None):
                return self.d / ('f%d%s' % (next(self.n), '-' + name_suffix if name_suffix else ''))

            def new_path_as_existing_dir(self, name_suffix=None):
                p = self.new_path(name_suffix)
                p.mkdir()
                return p

            def sub_dir_space(self, name_suffix=None):
                return self

        return Space()


def _writer(text, chunks=None):
    from exactly_lib.impls.types.string_source.contents.contents_via_write_to import Writer

    class W(Writer):
        def write(self, tmp_file_space, output):
            if chunks is None:
                output.write(text)
            else:
                output.writelines(chunks)

    return W()


def file_text(path):
    with open(str(path)) as f:
        return f.read()


def _candidates(first, fallbacks):
    seen = []
    for t in [first] + list(fallbacks):
        if t is not None and t not in seen:
            seen.append(t)
    return seen


def _report(name, inp, expected, actual):
    bad = expected != actual
    print('%s input=%r' % (name, inp))
    print('    expected %r' % (expected,))
    print('    actual   %r   %s' % (actual, 'DIFFERENT' if bad else 'same'))
    return bad


def lines_of_contents_of_str(model):
    """ContentsOfStr.as_lines vs split_nl"""
    from exactly_lib.impls.types.string_source.contents.contents_of_str import ContentsOfStr
    for text in _candidates(model.get('self._contents'), ['a\x0cb\n', 'a\rb']):
        c = ContentsOfStr(text, None, _Space())
        with c.as_lines as lines:
            actual = list(lines)
        if _report('ContentsOfStr.as_lines', text, split_nl(text), actual):
            return 1
    return 0


def lines_of_const_str_and_path(model):
    from exactly_lib.impls.types.string_source.contents import frozen
    for text in _candidates(model.get('self._contents_as_str'), ['a\x0cb\n']):
        if '\r' in text:
            continue        # the class invariant (the file decodes to the string) cannot hold
        sp = _Space()
        p = sp.new_path()
        with open(str(p), 'w', newline='') as f:
            f.write(text)
        c = frozen._StringSourceContentsOfConstStrAndExistingPath(text, p, sp)
        with c.as_lines as lines:
            actual = list(lines)
        if _report('_StringSourceContentsOfConstStrAndExistingPath.as_lines', text, split_nl(text), actual):
            return 1
        # re-readability: every pair of uses, in both orders, on a fresh object: the second use sees the text too
        for first in sorted(_USES):
            for second in sorted(_USES):
                c = frozen._StringSourceContentsOfConstStrAndExistingPath(text, p, sp)
                _USES[first](c)
                if _report('_StringSourceContentsOfConstStrAndExistingPath: %s after %s' % (second, first),
                           text, text, _USES[second](c)):
                    return 1
    return 0


def _use_as_lines(c):
    with c.as_lines as lines:
        return ''.join(lines)


def _use_write_to(c):
    out = io.StringIO()
    c.write_to(out)
    return out.getvalue()


# the four ways to consume a text, each giving the text it saw
_USES = {'as_str': lambda c: c.as_str, 'as_lines': _use_as_lines, 'as_file': lambda c: file_text(c.as_file),
         'write_to': _use_write_to}


def as_file_of_contents_of_str(model):
    """the file of a text given as a string decodes to that text"""
    from exactly_lib.impls.types.string_source.contents.contents_of_str import ContentsOfStr
    for text in _candidates(model.get('self._contents'), ['\r', 'a\r\nb']):
        c = ContentsOfStr(text, None, _Space())
        if _report('ContentsOfStr.as_file, read back', text, text, file_text(c.as_file)):
            return 1
    return 0


def write_to_of_via_write_to(model):
    """ContentsViaWriteTo: write_to gives the same text before and after the file has been made"""
    from exactly_lib.impls.types.string_source.contents.contents_via_write_to import ContentsViaWriteTo
    for text in _candidates(model.get('self._writer.txt'), ['\r', 'a\r\nb']):
        c = ContentsViaWriteTo(_Space(), _writer(text))
        before = io.StringIO()
        c.write_to(before)
        as_str = c.as_str
        if _report('ContentsViaWriteTo.write_to (before the file exists) vs as_str', text, as_str, before.getvalue()):
            return 1
    return 0


def frozen_from_write(model):
    """frozen__from_write: the frozen text is the text written, for the buffer size of the model and a big one"""
    from exactly_lib.impls.types.string_source.contents import frozen
    text0 = model.get('writer.txt', model.get('writer._contents.txt'))
    size0 = model.get('mem_buff_size', 1)
    for text, size in [(text0, size0), ('a\rb\n', 2), ('\r\n', 1)]:
        if text is None:
            continue
        small = frozen.frozen__from_write(size, _writer(text), _Space())
        big = frozen.frozen__from_write(len(text) + 100, _writer(text), _Space())
        print('buffer %d -> %s, buffer %d -> %s' % (size, type(small).__name__, len(text) + 100, type(big).__name__))
        if _report('frozen__from_write(mem_buff_size=%d).as_str' % size, text, text, small.as_str):
            print('    (with a buffer that holds the text: %r)' % big.as_str)
            return 1
    return 0


def rollover_position(model):
    """SpooledTextFile: text written after the roll-over to disk is appended"""
    from exactly_lib.util.file_utils.spooled_file import SpooledTextFile
    value0 = model.get('self._file.value0')
    for value, more in [(value0, 'x'), ('\xe5\xe4\xf6', 'x\n')]:
        if not value:
            continue
        if len(value) == 1:
            value = value * 2
        sp = _Space()
        with SpooledTextFile(max(1, len(value) - 1), sp.new_path) as f:
            f.write(value)           # exceeds the buffer: rolled over to disk
            on_disk = not f.is_mem_buff
            f.write(more)
            f.flush()
            if not on_disk:
                print('not rolled over')
                continue
            with open(str(f.path_of_file_on_disk), newline='', errors='replace') as g:
                actual = g.read()
        if _report('SpooledTextFile: write(%r) [rolls over], write(%r)' % (value, more), value, value + more, actual):
            return 1
    return 0


def do_compare(model):
    """equals on two file-backed texts: verdict of the byte comparison vs equality of the texts"""
    from exactly_lib.impls.types.string_matcher.impl import equality
    a0 = model.get('processed_actual_file_path.stored')
    e0 = model.get('self._expected.stored')
    for a, e in [(a0, e0), ('a\r\n', 'a\n')]:
        if a is None or e is None:
            continue
        sp = _Space()
        pa, pe = sp.new_path(), sp.new_path()
        for p, t in ((pa, a), (pe, e)):
            with open(str(p), 'w', newline='') as f:
                f.write(t)
        h = equality._ExtDepsOfBothHandler(None, None, pe)
        verdict = h._do_compare(pa)
        texts_equal = file_text(pa) == file_text(pe)
        print('stored actual %r (text %r), stored expected %r (text %r)' % (a, file_text(pa), e, file_text(pe)))
        if _report('_do_compare', (a, e), texts_equal, verdict):
            return 1
    return 0


def source(fn_name):
    """python source of a replay script body"""
    return ('from contracts import replays_c14\n'
            'sys.exit(replays_c14.%s(MODEL))\n' % fn_name)


# ------------------------------------------------------------------------------ concatenation of sources: bounded stand-in
# (the deductive proof of `_ConcatStringSourceContents._lines_iter` is switched off: C14_text_value._LINES_ITER_PROOF)

CONCAT_PART_TEXTS = ('', 'a', 'a\n', '\n', 'a\nb', 'a\nb\n', '\n\n', '\nb')
CONCAT_PART_KINDS = ('str', 'file', 'lines', 'concat')


class ConcatBench:
    """Builds REAL sources of the four kinds of parts and REAL `_ConcatStringSourceContents` objects over them:
    'str'    constant_str.string_source (ContentsOfStr),
    'file'   a source over StringSourceContentsOfExistingPath (a real file holding the text),
    'lines'  TransformedStringSourceFromLines with a generator as transformation (lines arrive lazily),
    'concat' a nested concatenation (concat.string_source of the two halves of the text)."""

    def __init__(self):
        self.space = _Space()
        self._files = {}

    def part(self, kind, text):
        from exactly_lib.impls.types.string_source import constant_str
        from exactly_lib.impls.types.string_source.source_from_contents import StringSourceWConstantContents
        from exactly_lib.impls.types.string_source.contents.contents_of_existing_path import \
            StringSourceContentsOfExistingPath
        from exactly_lib.type_val_prims.string_source.impls import concat, transformed_string_sources
        if kind == 'str':
            return constant_str.string_source(text, self.space)
        if kind == 'file':
            p = self._files.get(text)
            if p is None:
                p = self.space.new_path()
                with open(str(p), 'w', newline='') as f:
                    f.write(text)
                self._files[text] = p
            return StringSourceWConstantContents(lambda: None, StringSourceContentsOfExistingPath(p, self.space))
        if kind == 'lines':
            return transformed_string_sources.TransformedStringSourceFromLines(
                lambda lines: (line for line in lines), constant_str.string_source(text, self.space), False,
                lambda: None)
        if kind == 'concat':
            k = len(text) // 2
            return concat.string_source([self.part('str', text[:k]), self.part('str', text[k:])], 1 << 20)
        raise ValueError(kind)

    def contents(self, texts, kinds):
        from exactly_lib.type_val_prims.string_source.impls import concat
        return concat._ConcatStringSourceContents([self.part(k, t) for k, t in zip(kinds, texts)], 'concat')

    def failure(self, texts, kinds, with_file=False):
        """None, or what differs: every way of reading the concatenation (twice line-wise: re-readability) must
        give the concatenated texts / their division after new-lines"""
        whole = ''.join(texts)
        c = self.contents(texts, kinds)
        with c.as_lines as lines:
            first = list(lines)
        if first != split_nl(whole):
            return ('as_lines', split_nl(whole), first)
        if c.as_str != whole:
            return ('as_str', whole, c.as_str)
        if list(c._lines_iter()) != split_nl(whole):
            return ('_lines_iter (second reading)', split_nl(whole), list(c._lines_iter()))
        if _use_write_to(c) != whole:
            return ('write_to', whole, _use_write_to(c))
        if with_file and file_text(c.as_file) != whole:
            return ('as_file', whole, file_text(c.as_file))
        return None


def concat_case(texts, kinds):
    """replay of one failing case of the bounded stand-in"""
    f = ConcatBench().failure(list(texts), list(kinds), with_file=True)
    if f is None:
        print('concatenation of %r (%s): every reading gives %r' % (texts, ', '.join(kinds), ''.join(texts)))
        return 0
    print('concatenation of %r (%s): %s\n    expected %r\n    actual   %r' % (texts, ', '.join(kinds), f[0], f[1], f[2]))
    return 1
