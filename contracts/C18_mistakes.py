"""C18 -- mistakes in a test case are reported as such, never as internal errors.  See DESIGN.md section 3 / C18.

Exceptional postconditions: for each mechanism the anchors name, `raises_only(...)` is proved from the body, with
the external calls (`eval`, `re.compile`, `Pattern.sub`, instruction parsers, accessor, executor) given honest
"may raise anything" models."""
import re

from pyvc.api import (Module, Interface, Method, Iface, Inst, Int, Nat, Bool, Str, Opt, OneOf, Const, Union,
                      ListOf, FixedList, Any_, EnumOf, Custom, new_opaque, assume_pred)
from pyvc.interp import PyRaise, ArbitraryException
from pyvc import models as _models
from contracts.common import implies, iff, forall_range, exists_range, is_opaque

from exactly_lib.impls.types.integer import evaluate_integer, integer_ddv, integer_sdv
from exactly_lib.impls.types.integer.evaluate_integer import NotAnIntegerException

M = Module('C18')

# ------------------------------------------------------------------------------ integer expressions
P_EVAL = 'exactly_lib.impls.types.integer.evaluate_integer'
P_IDDV = 'exactly_lib.impls.types.integer.integer_ddv'
P_ISDV = 'exactly_lib.impls.types.integer.integer_sdv'

M.trust('builtins.eval(text): returns any value or raises any Exception (pyvc.models.m_eval); non-termination '
        '(9**9**9) and side effects of the evaluated expression are not modelled')


def _eval_replay(model, rf):
    """Exception class of the refuting path => canonical expression text => the real function"""
    import re as _re
    exc = ((rf.get('detail') or {}).get('meta') or {}).get('exception') or ''
    m = _re.match(r'(\w+)', exc)
    name = m.group(1) if m else 'ArbitraryException'
    text = _models.EVAL_WITNESS.get(name, '1//0')
    return _EVAL_REPLAY % (text,)


_EVAL_REPLAY = '''
from exactly_lib.impls.types.integer.evaluate_integer import python_evaluate, NotAnIntegerException
text = %r
try:
    print('python_evaluate(%%r) returned %%r' %% (text, python_evaluate(text))); sys.exit(0)
except NotAnIntegerException as e:
    print('NotAnIntegerException: reported as a validation error'); sys.exit(0)
except Exception as e:
    print('python_evaluate(%%r) lets %%r escape: the instruction that uses the integer ends in INTERNAL_ERROR'
          %% (text, e)); sys.exit(1)
'''

# CPython (>= 3.11) refuses to convert an int of more than 4300 decimal digits to str (ValueError).  The value of
# an integer expression is written in failure messages and traces -- when the outcome is reported, outside every
# handler: a value that cannot be written is an uncaught exception there.  In this module `str(n)` of an int has
# that limit; elsewhere integers are line numbers, counts and exit codes and `str` is total (DESIGN 2.5).
INT_STR_LIMIT = 10 ** 4300


def _m_str_with_cpython_limit(interp, args, kwargs):
    from pyvc.values import SInt, wrap
    from pyvc.interp import PyRaise
    if args and isinstance(args[0], SInt):
        n = args[0]
        if not interp.st.fork(wrap(_z3.And(-INT_STR_LIMIT < n.t, n.t < INT_STR_LIMIT))):
            raise PyRaise(ValueError('Exceeds the limit (4300 digits) for integer string conversion'))
    return _models.m_str(interp, args, kwargs)


M.model(str, _m_str_with_cpython_limit)
M.trust('str(n) of an int raises ValueError iff abs(n) >= 10**4300 (CPython >= 3.11, default limit); modelled in '
        'this module only')


def _eval_replay_any(model, rf):
    if 'can be written' in rf.get('obligation', ''):
        return _EVAL_REPLAY_BIG
    return _eval_replay(model, rf)


_EVAL_REPLAY_BIG = '''
from exactly_lib.impls.types.integer.evaluate_integer import python_evaluate, NotAnIntegerException
text = '10**5000'
try:
    v = python_evaluate(text)
except NotAnIntegerException as e:
    print('NotAnIntegerException: reported as a validation error'); sys.exit(0)
try:
    str(v); print('the value can be written'); sys.exit(0)
except ValueError as e:
    print('python_evaluate(%r) returns a value that cannot be written: %r -- `exit-code == 10**5000` prints FAIL and '
          'then ends with a traceback (exit 1) when the failure message is rendered' % (text, e)); sys.exit(1)
'''

M.contract(P_EVAL + ':python_evaluate', params=dict(s=Str), returns=Int,
           ensures={'an integer': lambda result: isinstance(result, int),
                    'the value can be written in decimal notation (it is rendered in messages and traces)':
                        lambda result: -INT_STR_LIMIT < result and result < INT_STR_LIMIT},
           raises={NotAnIntegerException: {}},       # its docstring: nothing else
           raises_only=(), replay=_eval_replay_any)

NOT_AN_INTEGER = Inst(NotAnIntegerException, value_string=Str, python_exception_message=Opt(Str))
# (the shape of the exception as the callers of python_evaluate see it)
M.contracts[-1].raises[NotAnIntegerException]['shape'] = NOT_AN_INTEGER


class StringDdvI(Interface):
    """StringDdv: resolving the string value does not raise (its fragments are constants and symbol values whose
    types were checked by the reference restrictions: C08)"""
    methods = {
        'resolving_dependencies': Method(returns=OneOf(frozenset(), frozenset([1])), pure=True),
        'value_when_no_dir_dependencies': Method(returns=Str),
        'value_of_any_dependency': Method(returns=Str),
        'describer': Method(returns=Any_),
    }


class CustomIntegerValidatorI(Interface):
    """CustomIntegerValidator: int -> Optional[TextRenderer]; the one in use, validator_for_non_negative, is total
    (contract below)"""
    methods = {'__call__': Method(returns=Opt(Any_))}


# rendering of texts is outside the property: they are constructed lazily from strings
M.contract('exactly_lib.common.report_rendering.text_docs:major_blocks_of_string_lines', trusted=True,
           params=dict(s=Str), returns=Any_)
M.trust('text_docs.major_blocks_of_string_lines(str) returns a renderer (splits the string into lines; total)')

M.assume('custom integer validators are applied to values that python_evaluate returned (integer_sdv / integer_ddv '
         'obtain every value from it): values that can be written in decimal notation')
M.contract('exactly_lib.impls.types.integer.parse_integer:validator_for_non_negative', params=dict(actual=Int),
           requires=lambda actual: -INT_STR_LIMIT < actual and actual < INT_STR_LIMIT,
           ensures={'an error text iff negative': lambda actual, result: (result is None) == (actual >= 0)},
           raises_only=())

VALUE_COMPUTER = Inst(integer_ddv._PrimitiveValueComputer, _int_expression=Iface(StringDdvI),
                      _primitive_value=Opt(Int))

M.contract(P_IDDV + ':_PrimitiveValueComputer._get_primitive_value', params=dict(self=VALUE_COMPUTER, int_expr=Str),
           inline=True,
           ensures={'the value is an integer': lambda self: isinstance(self._primitive_value, int)},
           raises={NotAnIntegerException: {'shape': NOT_AN_INTEGER}}, raises_only=())

for _m, _params in (('value_when_no_dir_dependencies', dict(self=VALUE_COMPUTER)),
                    ('value_of_any_dependency', dict(self=VALUE_COMPUTER, tcds=Any_))):
    M.contract(P_IDDV + ':_PrimitiveValueComputer.' + _m, params=_params, returns=Int,
               ensures={'an integer': lambda result: isinstance(result, int)},
               raises={NotAnIntegerException: {'shape': NOT_AN_INTEGER}}, raises_only=())

INTEGER_DDV_VALIDATOR = Inst(integer_ddv._IntegerDdvValidator, _value_computer=VALUE_COMPUTER,
                             _custom_validator=Iface(CustomIntegerValidatorI), _has_dir_dependencies=Bool)

for _m, _arg, _applicable in (('validate_pre_sds_if_applicable', 'hds', lambda self: not self._has_dir_dependencies),
                              ('validate_post_sds_if_applicable', 'tcds', lambda self: self._has_dir_dependencies)):
    M.contract(P_IDDV + ':_IntegerDdvValidator.' + _m, params={'self': INTEGER_DDV_VALIDATOR, _arg: Any_},
               ghosts=dict(applicable=Const(_applicable)),
               # an expression that is not an integer is a validation error text, never an exception
               ensures={'nothing to say when not applicable': lambda self, applicable, result:
               applicable(self) or result is None},
               raises_only=())


class StringSdvI(Interface):
    methods = {'resolve': Method(returns=Iface(StringDdvI))}
    attrs = {'references': Any_}


class PathResolvingEnvI(Interface):
    attrs = {'symbols': Any_}


from exactly_lib.impls.exception import svh_exception

INT_RESOLVER = Inst(integer_sdv._IntResolver, value_sdv=Iface(StringSdvI))

M.contract(P_ISDV + ':_IntResolver.resolve', params=dict(self=INT_RESOLVER, environment=Iface(PathResolvingEnvI)),
           returns=Int, ensures={'an integer': lambda result: isinstance(result, int)},
           raises={NotAnIntegerException: {'shape': NOT_AN_INTEGER}}, raises_only=())

SDV_VALIDATOR = Inst(integer_sdv._ValidatorThatReportsViaExceptions, _int_sdv=INT_RESOLVER,
                     _custom_integer_validator=Opt(Iface(CustomIntegerValidatorI)))

M.contract(P_ISDV + ':_ValidatorThatReportsViaExceptions.validate_pre_sds',
           params=dict(self=SDV_VALIDATOR, environment=Iface(PathResolvingEnvI)),
           raises={svh_exception.SvhValidationException: {}},      # => VALIDATION_ERROR
           raises_only=())

# ------------------------------------------------------------------------------ regular expressions
from pyvc.re_model import PatternI
from exactly_lib.impls.types.regex import parse_regex

P_REGEX = 'exactly_lib.impls.types.regex.parse_regex'

M.trust('re.compile(text, flags) returns a Pattern or raises re.error / OverflowError / RecursionError / another '
        'Exception; Pattern.sub(template, s) raises re.error / IndexError unless the template is valid for the '
        'pattern (pyvc/re_model.py, from the documentation of `re`)')

REGEX_VALIDATOR = Inst(parse_regex._ValidatorWhichCreatesRegex, _is_ignore_case=Bool, string=Iface(StringDdvI),
                       pattern=Opt(Iface(PatternI)))

M.contract(P_REGEX + ':_ValidatorWhichCreatesRegex._compile_and_set_pattern',
           params=dict(self=REGEX_VALIDATOR, regex_pattern=Str), inline=True,
           ensures={'the pattern is set, or the error is returned as a text': lambda self, result:
           (result is None and self.pattern is not None) or result is not None},
           raises_only=())

for _m, _arg in (('validate_pre_sds_if_applicable', 'hds'), ('validate_post_sds_if_applicable', 'tcds')):
    M.contract(P_REGEX + ':_ValidatorWhichCreatesRegex.' + _m, params={'self': REGEX_VALIDATOR, _arg: Any_},
               # a regular expression that does not compile is a validation error text, never an exception
               ensures={'no error text means there is a compiled pattern, or validation is postponed':
                        lambda self, result: result is not None or self.pattern is not None
                        or len(self.string.resolving_dependencies()) > 0},
               raises_only=())

# ------------------------------------------------------------------------------ replace: the replacement template
from exactly_lib.impls.types.string_transformer.impl.replace import impl as replace_impl
from exactly_lib.test_case.hard_error import HardErrorException

P_REPLACE = 'exactly_lib.impls.types.string_transformer.impl.replace.impl'


def _replace_replay(model, rf):
    return _REPLACE_REPLAY % (rf['function'].rpartition(':')[2].partition('.')[0],)


_REPLACE_REPLAY = '''
import re
from exactly_lib.impls.types.string_transformer.impl.replace import impl
from exactly_lib.test_case.hard_error import HardErrorException
replacer = getattr(impl, %r)(re.compile('a'), '\\\\6')       # replace a '\\6' : no group 6 in the pattern
try:
    print('process returned', repr(replacer.process('xax\\n'))); sys.exit(0)
except HardErrorException:
    print('HardErrorException: reported as HARD_ERROR'); sys.exit(0)
except Exception as e:
    print('process lets', repr(e), 'escape at transformation time (inside main: INTERNAL_ERROR); the validator of the '
          'transformer validates the regex only, not the replacement template'); sys.exit(1)
'''

HARD_ERROR_OF_REPLACE = Inst(HardErrorException, _error=Any_)

# the helper introduced by the fix 0dd297e: an invalid replacement template is a HardErrorException
M.contract(P_REPLACE + ':_StrReplacer._sub',
           params=dict(self=Inst(replace_impl._StrReplacerIncludingNewLines, _regex=Iface(PatternI), _replacement=Str),
                       s=Str),
           returns=Str, ensures={'a string': lambda result: isinstance(result, str)},
           raises={HardErrorException: {'shape': HARD_ERROR_OF_REPLACE}}, raises_only=(), replay=_replace_replay)

for _cls in ('_StrReplacerIncludingNewLines', '_StrReplacerExcludingNewLines'):
    M.contract('%s:%s.process' % (P_REPLACE, _cls),
               params=dict(self=Inst(getattr(replace_impl, _cls), _regex=Iface(PatternI), _replacement=Str),
                           line=Str),
               requires=lambda line: len(line) > 0,       # the lines of a text are not empty
               returns=Str, ensures={'a string': lambda result: isinstance(result, str)},
               # an invalid replacement template stems from the text of the test case: at the latest HARD_ERROR
               raises={HardErrorException: {}}, raises_only=(), replay=_replace_replay)

# ------------------------------------------------------------------------------ instruction lines
from exactly_lib.common import instruction_name_and_argument_splitter
from exactly_lib.section_document.element_parsers import parser_for_dictionary_of_instructions as pfd
from exactly_lib.section_document.element_parsers import instruction_parser_exceptions as ipe
from exactly_lib.section_document.element_parsers.section_element_parsers import InstructionParser
from exactly_lib.section_document.parse_source import ParseSource
from exactly_lib.util import line_source

P_PFD = 'exactly_lib.section_document.element_parsers.parser_for_dictionary_of_instructions'

M.contract('exactly_lib.common.instruction_name_and_argument_splitter:splitter', params=dict(line=Str), returns=Str,
           ensures={'a non-empty part of the line': lambda line, result: 0 < len(result) and len(result) <= len(line)},
           raises={ValueError: {}}, raises_only=())
M.loop('exactly_lib.common.instruction_name_and_argument_splitter:splitter', 0,
       invariant=lambda idx, l: 1 <= idx and idx <= l, modifies=dict(idx=Int),
       decreases=lambda idx, l: l - idx)

try:
    import z3 as _z3
except ImportError:      # replay scripts run under the repository's interpreter, without z3
    _z3 = None
from pyvc.values import SStr as _SStr, to_z3 as _to_z3, wrap as _wrap

_SOURCE_STATE = ('current_line', 'remaining_source', 'remaining_part_of_current_line')


def _consumed(interp, source, exactly=None):
    """the state of a ParseSource after source has been consumed: the remaining source is a suffix of what
    remained before (`exactly`: that many characters shorter)"""
    before = interp.getattr(source, 'remaining_source')
    for a in _SOURCE_STATE:
        source._pv_attrs.pop(a, None)
    after = interp.getattr(source, 'remaining_source')
    interp.st.assume(_z3.SuffixOf(_to_z3(after), _to_z3(before)))
    if exactly is not None:
        interp.st.assume(_z3.Length(_to_z3(after)) == _z3.Length(_to_z3(before)) - _to_z3(exactly))


def _consume_part_of_current_line(interp, self, args, kwargs):
    (n,) = args
    rest = interp.getattr(self, 'remaining_part_of_current_line')
    if interp.branch(interp.compare(__import__('ast').Gt, n, _wrap(_z3.Length(_to_z3(rest))))):
        raise PyRaise(ValueError('Line does not contain specified number of characters to consume'))
    _consumed(interp, self, exactly=n)


def _consume_space(interp, self, args, kwargs):
    _consumed(interp, self)


class ParseSourceI(Interface):
    """ParseSource (section_document/parse_source.py: C07): the current line, what remains of it and of the whole
    source; consuming only shortens what remains.  The remaining part of the current line is a prefix of the
    remaining source."""
    target_class = ParseSource
    attrs = {'current_line': Inst(line_source.Line, _tuple=[Int, Str]), 'remaining_source': Str,
             'remaining_part_of_current_line': Str}
    methods = {'consume_part_of_current_line': Method(model=_consume_part_of_current_line),
               'consume_initial_space_on_current_line': Method(model=_consume_space)}


def _mk_invalid_argument(interp):
    e = ipe.SingleInstructionInvalidArgumentException.__new__(ipe.SingleInstructionInvalidArgumentException)
    e.error_message = Str.make(interp, 'error_message')
    return e


def _parse_instruction(interp, self, args, kwargs):
    """the parser of one instruction: consumes source; returns the instruction, or raises
    SingleInstructionInvalidArgumentException (invalid arguments) -- or, being arbitrary code, any Exception"""
    fs_location_info, source = args
    _consumed(interp, source)
    interp.st.emit('instruction-parser', self, source)
    k = interp.st.choose(3)
    if k == 1:
        raise PyRaise(_mk_invalid_argument(interp))
    if k == 2:
        raise PyRaise(_models.arbitrary_exception(interp))
    return Any_.make(interp, 'instruction')


class InstructionParserI(Interface):
    target_class = InstructionParser
    methods = {'parse': Method(model=_parse_instruction)}


def _extract(interp, self, args, kwargs):
    """InstructionNameExtractor: arbitrary code -- a name that is part of the line (the splitter in use: contract
    above), some other value, or any Exception"""
    (line,) = args
    k = interp.st.choose(3)
    if k == 1:
        raise PyRaise(_models.arbitrary_exception(interp))
    if k == 2:
        return Any_.make(interp, 'not-a-string')
    name = Str.make(interp, 'name')
    interp.st.assume(_z3.Length(_to_z3(name)) <= _z3.Length(_to_z3(line)))
    return name


class NameExtractorI(Interface):
    methods = {'__call__': Method(model=_extract)}


from pyvc.api import MapOf

DICT_PARSER = Inst(pfd.InstructionParserForDictionaryOfInstructions,
                   _instruction_name_extractor_function=Iface(NameExtractorI),
                   _InstructionParserForDictionaryOfInstructions__instruction_name__2__single_instruction_parser=
                   MapOf(Str, Iface(InstructionParserI)))

_FOUR = {ipe.InvalidInstructionSyntaxException: {}, ipe.UnknownInstructionException: {},
         ipe.InvalidInstructionArgumentException: {}, ipe.ArgumentParsingImplementationException: {}}

M.contract(P_PFD + ':InstructionParserForDictionaryOfInstructions._extract_name',
           params=dict(self=DICT_PARSER, source=Iface(ParseSourceI)), returns=Str,
           ensures={'a string that is not longer than the rest of the line': lambda source, result:
           isinstance(result, str) and len(result) <= len(source.remaining_part_of_current_line)},
           raises={ipe.InvalidInstructionSyntaxException: {}},      # whatever the extractor does
           raises_only=())

M.contract(P_PFD + ':InstructionParserForDictionaryOfInstructions._lookup_parser',
           params=dict(self=DICT_PARSER, original_source_line=Inst(line_source.Line, _tuple=[Int, Str]), name=Str),
           returns=Iface(InstructionParserI),
           raises={ipe.UnknownInstructionException: {
               'when': lambda self, name:
               name not in self._InstructionParserForDictionaryOfInstructions__instruction_name__2__single_instruction_parser}},
           raises_only=())

ERR_MSG_CONSTRUCTOR = Inst(pfd._ErrMsgSourceConstructor, _first_line=Inst(line_source.Line, _tuple=[Int, Str]),
                           _remaining__before=Str)

M.contract(P_PFD + ':_ErrMsgSourceConstructor.ending_at',
           params=dict(self=ERR_MSG_CONSTRUCTOR, after_parse=Iface(ParseSourceI)),
           returns=Inst(line_source.LineSequence, _first_line_number=Int, _lines=Any_),
           ensures={'source lines starting at the first line of the instruction': lambda self, result:
           result.first_line_number == self._first_line.line_number},
           raises_only=())

M.contract(P_PFD + ':InstructionParserForDictionaryOfInstructions._parse',
           params=dict(fs_location_info=Any_, source=Iface(ParseSourceI), parser=Iface(InstructionParserI), name=Str,
                       err_msg_src_constructor=ERR_MSG_CONSTRUCTOR),
           returns=Any_, inline=True,
           # whatever the instruction parser raises becomes a syntax error of the instruction line
           raises={ipe.InvalidInstructionArgumentException: {}, ipe.ArgumentParsingImplementationException: {}},
           raises_only=())

M.contract(P_PFD + ':InstructionParserForDictionaryOfInstructions.parse',
           params=dict(self=DICT_PARSER, fs_location_info=Any_, source=Iface(ParseSourceI)), returns=Any_,
           ensures={'the instruction parser is asked once': lambda trace:
           len([e for e in trace if e[0] == 'instruction-parser']) == 1},
           raises=dict(_FOUR), raises_only=())

# ------------------------------------------------------------------------------ the last resorts
from exactly_lib.execution.impl import single_instruction_executor as sie
from exactly_lib.execution.result import ExecutionFailureStatus
from exactly_lib.execution.full_execution.result import FullExeResult, FullExeResultStatus
from exactly_lib.processing import processing_utils, test_case_processing as tcp
from exactly_lib.test_case.phases.common import TestCaseInstruction
from exactly_lib.test_case.result.failure_details import FailureDetails


HARD_ERROR_EXC = Inst(HardErrorException, _error=Any_)


def _controlled_apply(interp, self, args, kwargs):
    """ControlledInstructionExecutor.apply: runs a step of an instruction (arbitrary code): None (success), a
    controlled failure, HardErrorException, or any other Exception"""
    k = interp.st.choose(4)
    if k == 0:
        return None
    if k == 1:
        return sie.PartialInstructionControlledFailureInfo(
            EnumOf(sie.PartialControlledFailureEnum).make(interp, 'controlled_failure.status'),
            Any_.make(interp, 'controlled_failure.error_message'))
    if k == 2:
        raise PyRaise(HARD_ERROR_EXC.make(interp, 'hard_error'))
    raise PyRaise(_models.arbitrary_exception(interp))


class ControlledExecutorI(Interface):
    target_class = sie.ControlledInstructionExecutor
    methods = {'apply': Method(model=_controlled_apply)}


class InstructionInfoI(Interface):
    attrs = {'instruction': Iface(lambda: TestCaseInstructionI)}


class TestCaseInstructionI(Interface):
    target_class = TestCaseInstruction


class SourceLocationInfoI(Interface):
    attrs = {'source_location_path': Any_}


class SectionContentElementI(Interface):
    attrs = {'source_location_info': Iface(SourceLocationInfoI)}


P_SIE = 'exactly_lib.execution.impl.single_instruction_executor'

M.contract(P_SIE + ':execute_element',
           params=dict(executor=Iface(ControlledExecutorI), element=Iface(SectionContentElementI),
                       instruction_info=Iface(InstructionInfoI)),
           ensures={
               'None, or a failure with one of the documented statuses, located at the instruction':
                   lambda element, result:
                   result is None or (isinstance(result.status, ExecutionFailureStatus)
                                      and result.source_location_path
                                      is element.source_location_info.source_location_path
                                      and isinstance(result.failure_details, FailureDetails)),
               'INTERNAL_ERROR carries the exception; the other failures carry a message only': lambda result:
               result is None or ((result.status is ExecutionFailureStatus.INTERNAL_ERROR)
                                  == result.failure_details.has_exception),
           },
           raises_only=())      # whatever an instruction raises, execution of the test case goes on to reporting


# --- the processor of a test case: always a Result

def _mk_accessor_error(interp, o):
    e = tcp.AccessorError.__new__(tcp.AccessorError)
    e._error = EnumOf(tcp.AccessErrorType).make(interp, 'accessor_error.error')
    e._error_info = Any_.make(interp, 'accessor_error.error_info')
    return e


def _mk_process_error(interp, o):
    e = tcp.ProcessError.__new__(tcp.ProcessError)
    e._error_info = Any_.make(interp, 'process_error.error_info')
    return e


def _mk_anything(interp, o):
    return _models.arbitrary_exception(interp)


class AccessorI(Interface):
    """Accessor.apply: the test case document, AccessorError (its docstring) -- or any other Exception"""
    target_class = tcp.Accessor
    methods = {'apply': Method(returns=Any_, may_raise=(_mk_accessor_error, _mk_anything), event='access')}


FULL_EXE_RESULT = Inst(FullExeResult, _FullExeResult__status=EnumOf(FullExeResultStatus), _ResultBase__sds=Any_,
                       _ResultBase__action_to_check_outcome=Any_, _ResultBase__failure_info=Any_)


class ExecutorI(Interface):
    """processing_utils.Executor.apply: the result of the execution -- or any Exception"""
    target_class = processing_utils.Executor
    methods = {'apply': Method(returns=FULL_EXE_RESULT, may_raise=(_mk_process_error, _mk_anything),
                               event='execute')}


class CaseRefI(Interface):
    target_class = tcp.TestCaseFileReference
    attrs = {'file_path': Any_, 'path_relativity_root_dir': Any_}


def result_is_well_formed(result):
    return iff(result.status is tcp.Status.ACCESS_ERROR, result.access_error_type is not None) \
        and iff(result.status is tcp.Status.EXECUTED, result.execution_result is not None)


def _events(trace, name):
    return [e for e in trace if e[0] == name]


M.contract('exactly_lib.processing.processing_utils:ProcessorFromAccessorAndExecutor.apply',
           params=dict(self=Inst(processing_utils.ProcessorFromAccessorAndExecutor, _accessor=Iface(AccessorI),
                                 _executor=Iface(ExecutorI)), test_case=Iface(CaseRefI)),
           ensures={
               'a well formed Result': lambda result: isinstance(result, tcp.Result) and result_is_well_formed(result),
               'EXECUTED carries the result of the executor': lambda result, trace:
               result.status is not tcp.Status.EXECUTED
               or [e[2] for e in _events(trace, 'execute:returned')] == [result.execution_result],
               'an AccessorError is ACCESS_ERROR with its type; the case is then not executed': lambda result, trace:
               result.status is not tcp.Status.ACCESS_ERROR
               or (_events(trace, 'execute') == []
                   and [e[2].error for e in _events(trace, 'access:raised')] == [result.access_error_type]),
           },
           raises_only=())      # "Exactly always terminates with a Result"


class ProcessStepI(Interface):
    """source reader / preprocessor / parser: a value, ProcessError (docstrings), AccessorError, or anything"""
    methods = {'__call__': Method(returns=Any_, may_raise=(_mk_process_error, _mk_accessor_error, _mk_anything),
                                  event='step')}


def _what_the_step_raised(trace):
    return [e[2] for e in trace if e[0] == 'step:raised'][0]


M.contract('exactly_lib.processing.processing_utils:AccessorFromParts._apply',
           params=dict(f=Iface(ProcessStepI), error_type=EnumOf(tcp.AccessErrorType),
                       args=FixedList(Any_, as_tuple=True), kwargs=Const({})),
           inline=True, returns=Any_,
           raises={tcp.AccessorError: {'ensures': lambda exc, error_type, trace:
           (exc.error is error_type and exc.error_info is _what_the_step_raised(trace).error_info)
           if isinstance(_what_the_step_raised(trace), tcp.ProcessError) else exc is _what_the_step_raised(trace)}},
           # a ProcessError of the step becomes an AccessorError of the given type; nothing else is touched
           may_raise=(ArbitraryException,) + tuple(_models.COMMON_EXCEPTIONS), raises_only=())

# ------------------------------------------------------------------------------ rendering of every failure shape
from exactly_lib.common.report_rendering.parts import failure_details as failure_details_rendering
from exactly_lib.common.report_rendering.parts import full_exec_result, failure_info as failure_info_rendering
from exactly_lib.util.simple_textstruct.structure import MajorBlock


class TextRendererI(Interface):
    """TextRenderer = SequenceRenderer[MajorBlock]"""
    methods = {'render_sequence': Method(returns=Custom(lambda interp, name: [Any_.make(interp, name + '[0]')]))}


FAILURE_DETAILS = Inst(FailureDetails, _FailureDetails__failure_message=Opt(Iface(TextRendererI)),
                       _FailureDetails__exception=Opt(Custom(lambda interp, name: _models.arbitrary_exception(interp))))

M.contract('exactly_lib.common.report_rendering.parts.failure_details:FailureDetailsRenderer.render_sequence',
           params=dict(self=Inst(failure_details_rendering.FailureDetailsRenderer, _failure_details=FAILURE_DETAILS)),
           ensures={
               'total on every shape: a message, an exception, both, or neither': lambda result:
               isinstance(result, list),
               'an exception gives a block of its own, before the message': lambda self, result:
               len(result) == (1 if self._failure_details.has_exception else 0)
               + (1 if self._failure_details.failure_message is not None else 0)
               and ((not self._failure_details.has_exception) or isinstance(result[0], MajorBlock)),
           }, raises_only=())

M.contract('exactly_lib.common.report_rendering.parts.full_exec_result:FullExeResultRenderer._renderer',
           params=dict(self=Inst(full_exec_result.FullExeResultRenderer,
                                 _result=Inst(FullExeResult, _FullExeResult__status=EnumOf(FullExeResultStatus),
                                              _ResultBase__sds=Any_, _ResultBase__action_to_check_outcome=Any_,
                                              _ResultBase__failure_info=Opt(Any_)))),
           ensures={'the failure, if there is one, else nothing': lambda self, result:
           isinstance(result, failure_info_rendering.FailureInfoRenderer) == self._result.is_failure
           and (self._result.is_failure or result.render_sequence() == [])},
           raises_only=())

# ------------------------------------------------------------------------------ phase steps and the parser of a case
from exactly_lib.execution.impl import phase_step_execution
from exactly_lib.execution.result import PhaseStepFailureException
from exactly_lib.processing import processors as case_processors
from exactly_lib.section_document import exceptions as document_exceptions


def _mk_phase_step_failure(interp, o):
    e = PhaseStepFailureException.__new__(PhaseStepFailureException)
    e.failure = Any_.make(interp, 'failure')
    return e


def _mk_hard_error_exc(interp, o):
    return HARD_ERROR_EXC.make(interp, 'hard_error')


class ActionI(Interface):
    """the action of a phase step (arbitrary code): a value, PhaseStepFailureException, HardErrorException, or
    any other Exception"""
    methods = {'__call__': Method(returns=Any_, event='action',
                                  may_raise=(_mk_phase_step_failure, _mk_hard_error_exc, _mk_anything))}


class FailureConstructorI(Interface):
    target_class = phase_step_execution.PhaseStepFailureResultConstructor
    methods = {'hard_error': Method(returns=Any_, event='hard_error'),
               'internal_error': Method(returns=Any_, event='internal_error')}


def _raised_by_action(trace):
    return [e[2] for e in trace if e[0] == 'action:raised'][0]


M.contract('exactly_lib.execution.impl.phase_step_execution:execute_action_and_catch_internal_error_exception',
           params=dict(action_that_raises_phase_step_or_hard_error_exception=Iface(ActionI),
                       failure_con=Iface(FailureConstructorI)),
           raises={PhaseStepFailureException: {'ensures': lambda exc, trace:
           (exc is _raised_by_action(trace)) if isinstance(_raised_by_action(trace), PhaseStepFailureException)
           else (exc.failure is [e[2] for e in trace if e[0] == 'hard_error:returned'][0])
           if isinstance(_raised_by_action(trace), HardErrorException)
           else (exc.failure is [e[2] for e in trace if e[0] == 'internal_error:returned'][0])}},
           # a HardErrorException is a HARD_ERROR failure of the step, anything else an INTERNAL_ERROR failure
           raises_only=())


def _mk_document_parse_error(interp, o):
    if interp.st.choose(2) == 0:
        e = document_exceptions.FileAccessError.__new__(document_exceptions.FileAccessError)
        e._erroneous_path = Any_.make(interp, 'erroneous_path')
        e._section_name = Opt(Str).make(interp, 'section_name')
    else:
        e = document_exceptions.FileSourceError.__new__(document_exceptions.FileSourceError)
        e._maybe_section_name = Opt(Str).make(interp, 'section_name')
        e._source_location_info = Any_.make(interp, 'source_location_info')
        e._source = Any_.make(interp, 'source')
    e._message = Str.make(interp, 'message')
    e._location_path = FixedList(Any_).make(interp, 'location_path')      # non-empty (its constructors)
    return e


class CaseFileParserI(Interface):
    """test_case_parser.new_parser(...).apply: the document or a ParseError of the document parser (C07)"""
    methods = {'apply': Method(returns=Any_, may_raise=(_mk_document_parse_error,), event='parse')}


from exactly_lib.processing.parse import test_case_parser

M.model(test_case_parser.new_parser, lambda interp, args, kwargs: new_opaque(interp, CaseFileParserI, 'file_parser'))

M.contract('exactly_lib.processing.processors:_Parser.apply',
           params=dict(self=Inst(case_processors._Parser, _test_case_parsing_setup=Any_), test_case=Iface(CaseRefI),
                       test_case_plain_source=Str),
           raises={
               # a syntax error in the case => ProcessError (=> SYNTAX_ERROR); an included file that cannot be
               # read => AccessorError FILE_ACCESS_ERROR
               tcp.ProcessError: {'ensures': lambda trace:
               isinstance([e[2] for e in trace if e[0] == 'parse:raised'][0], document_exceptions.FileSourceError)},
               tcp.AccessorError: {'ensures': lambda exc, trace:
               exc.error is tcp.AccessErrorType.FILE_ACCESS_ERROR
               and isinstance([e[2] for e in trace if e[0] == 'parse:raised'][0],
                              document_exceptions.FileAccessError)},
           },
           raises_only=())


# ------------------------------------------------------------------------------ wrong symbol types
# "wrong symbol types ... are reported as VALIDATION_ERROR, never as INTERNAL_ERROR": the checking of a reference
# against its restrictions (direct, indirect, or-restrictions on types with and without string rendering) and the
# fold over the symbol usages are under contract in C08, each with `raises_only()`.  Those clauses carry C18 as
# well: this check re-proves them on the current tree.  (After the seeded change C18-s1: a KeyError for symbol
# types without string rendering.)

def _share_symbol_type_checks():
    from contracts.common import share_contracts
    wanted = (':_validate_reference', ':_validate_symbol_reference', ':_validate_symbol_definition',
              ':validate_symbol_usage', ':validate_symbol_usages',
              ':ReferenceRestrictionsOnDirectAndIndirect._check_indirect',
              ':ReferenceRestrictionsOnDirectAndIndirect.check_indirect',
              ':ReferenceRestrictionsOnDirectAndIndirect.is_satisfied_by',
              ':OrReferenceRestrictions.is_satisfied_by',
              ':ArbitraryValueWStrRenderingRestriction.is_satisfied_by', ':ValueTypeRestriction.is_satisfied_by')
    names = share_contracts('C18', 'contracts.C08_symbols', lambda q: q.endswith(wanted))
    assert len(set(names)) >= len(wanted) - 1, names


M.after_load = _share_symbol_type_checks


# ------------------------------------------------------------------------------ messages that are rendered late
# Error messages are objects that are rendered when the outcome is reported -- outside every handler that turns a
# mistake into a documented outcome: a message whose rendering raises is an uncaught exception.  The lazily
# formatted ones (util.str_.str_constructor.FormatPositional / FormatMap) apply `str.format` at that time:
#  * the format string must not be put together from run-time text (a `{` in the author's text would be read as
#    a replacement field): a literal, or a name bound to one -- never a concatenation / f-string / call;
#  * a literal format string of FormatPositional has exactly as many `{}` fields as arguments given.
# (After the seeded change C18-s2: the Python error text concatenated into the format string.)

@M.check('lazily-formatted-messages')
def _lazily_formatted_messages(ctx):
    import ast, os, string
    from pyvc import REPO_SRC
    root = os.path.join(REPO_SRC, 'exactly_lib')
    sites = 0
    for dirpath, _dirs, files in os.walk(root):
        for fn in sorted(files):
            if not fn.endswith('.py'):
                continue
            path = os.path.join(dirpath, fn)
            rel = os.path.relpath(path, root).replace(os.sep, '/')
            if rel == 'util/str_/str_constructor.py':
                continue
            src = open(path, encoding='utf-8').read()
            if 'FormatPositional' not in src and 'FormatMap' not in src:
                continue
            for n in ast.walk(ast.parse(src, path)):
                if not isinstance(n, ast.Call):
                    continue
                f = n.func
                name = f.attr if isinstance(f, ast.Attribute) else (f.id if isinstance(f, ast.Name) else None)
                if name not in ('FormatPositional', 'FormatMap') or not n.args:
                    continue
                sites += 1
                fmt = n.args[0]
                where = '%s:%d' % (rel, n.lineno)
                ok_kind = isinstance(fmt, (ast.Constant, ast.Name, ast.Attribute)) and \
                    (not isinstance(fmt, ast.Constant) or isinstance(fmt.value, str))
                ctx.obligation('%s at %s: the format string is a literal or a name, not text put together at run time'
                               % (name, where), ok_kind, 'scan', detail={'format_argument': ast.unparse(fmt)[:200]})
                if isinstance(fmt, ast.Constant) and isinstance(fmt.value, str):
                    try:
                        fields = [fld for (_lit, fld, _spec, _conv) in string.Formatter().parse(fmt.value)
                                  if fld is not None]
                        well_formed = True
                    except ValueError:
                        fields, well_formed = [], False
                    if name == 'FormatPositional' and not any(isinstance(a, ast.Starred) for a in n.args):
                        auto = [fld for fld in fields if fld == '']
                        ok = well_formed and len(auto) == len(fields) and len(auto) == len(n.args) - 1
                        ctx.obligation('FormatPositional at %s: as many {} fields as arguments' % where, ok, 'scan',
                                       detail={'fields': len(fields), 'arguments': len(n.args) - 1})
                    else:
                        ctx.obligation('%s at %s: the literal format string is well formed' % (name, where),
                                       well_formed, 'scan')
    ctx.obligation('the lazily formatted messages of the tree were found', sites >= 20, 'scan', detail={'sites': sites})


# ------------------------------------------------------------------------------ glob patterns
# `path GLOB-PATTERN` / `name GLOB-PATTERN` (file matcher): the pattern is the author's text.  pathlib rejects
# some patterns when it is asked to match (PurePath.match('') raises ValueError("empty pattern"); so do patterns
# it regards as invalid); fnmatch accepts every string.  A rejected pattern stems from the text of the test case:
# at the latest HARD_ERROR.
from exactly_lib.impls.types.matcher.impls import matches_glob_pattern as _glob

P_GLOB = 'exactly_lib.impls.types.matcher.impls.matches_glob_pattern'


class GlobModelPathI(Interface):
    """a pathlib.Path as the model of the matcher: `match(pattern)` returns a bool or raises ValueError
    (documented for the empty pattern; unacceptable patterns)"""
    methods = {'match': Method(returns=Bool, may_raise=(ValueError,))}


M.trust('pathlib.PurePath.match(pattern) returns a bool or raises ValueError (empty / unacceptable pattern); '
        'fnmatch.fnmatch accepts every pattern')

_GLOB_REPLAY = '''
import pathlib
from exactly_lib.impls.types.matcher.impls import matches_glob_pattern as g
from exactly_lib.test_case.hard_error import HardErrorException
try:
    print('returned', g._match_path(pathlib.Path('a.txt'), '')); sys.exit(0)
except HardErrorException:
    print('HardErrorException: reported as HARD_ERROR'); sys.exit(0)
except Exception as e:
    print('the matcher lets', repr(e), 'escape when it is applied (inside main: INTERNAL_ERROR): `exists f : path \\'\\'`')
    sys.exit(1)
'''

M.contract(P_GLOB + ':_match_path', params=dict(model=Iface(GlobModelPathI), pattern=Str), returns=Bool,
           raises={HardErrorException: {}}, raises_only=(), replay=lambda model, rf: _GLOB_REPLAY)


# ------------------------------------------------------------------------------ messages that are built at once
# The message for a path symbol of the wrong relativity is built eagerly, inside the validation of the symbol
# usages: an exception while it is put together turns the VALIDATION_ERROR it is about to report into an
# INTERNAL_ERROR.  (C12 and C08 take this function as a trusted "only builds a message"; here it is verified, for
# every relativity a symbol can have -- each option, or absolute -- against representative accepted sets.
# After the seeded change C18-s6: KeyError for an absolute path symbol.)
from exactly_lib.tcfs.path_relativity import (PathRelativityVariants as _Variants, SpecificPathRelativity as _Specific,
                                              RelOptionType as _RelOptionType)
from exactly_lib.type_val_deps.sym_ref.w_str_rend_restrictions import error_messages as _rel_error_messages


class _ContainerI(Interface):
    attrs = {'source_location': Any_}


M.contract('exactly_lib.symbol.err_msg.error_messages:defined_at_line__err_msg_lines', trusted=True,
           params=dict(definition_source=Any_), returns=FixedList())
M.trust('symbol.err_msg.error_messages.defined_at_line__err_msg_lines gives a list of lines (rendering of a source '
        'location)')
M.contract('exactly_lib.definitions.message_rendering:render_single_text_cell_table_to_lines', trusted=True,
           params=dict(str_or_text_cell_rows=Any_, indent=Str), returns=FixedList(Str, Str))
M.trust('definitions.message_rendering.render_single_text_cell_table_to_lines renders rows of constant texts to '
        'lines (the text formatting library is outside the property)')

M.contract('exactly_lib.type_val_deps.sym_ref.w_str_rend_restrictions.error_messages:unsatisfied_path_relativity',
           params=dict(symbol_name=Str, container=Iface(_ContainerI),
                       accepted=OneOf(_Variants({_RelOptionType.REL_ACT, _RelOptionType.REL_TMP, _RelOptionType.REL_CWD},
                                                False),
                                      _Variants(set(_RelOptionType), True),
                                      _Variants({_RelOptionType.REL_HDS_CASE}, True)),
                       actual_relativity=Inst(_Specific, _relative=Opt(EnumOf(_RelOptionType)))),
           returns=Str,
           ensures={'a message': lambda result: isinstance(result, str)},
           raises_only=())
