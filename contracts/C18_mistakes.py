"""C18 -- mistakes in a test case are reported as such, never as internal errors.  See DESIGN.md section 3 / C18.

Exceptional postconditions: for each mechanism the anchors name, `raises_only(...)` is proved from the body, with
the external calls (`eval`, `re.compile`, `Pattern.sub`, instruction parsers, accessor, executor) given honest
"may raise anything" models."""
import re

from pyvc.api import (Module, Interface, Method, Iface, Inst, Int, Nat, Bool, Str, Opt, OneOf, Const, Union,
                      ListOf, FixedList, Any_, EnumOf, Custom, new_opaque, assume_pred)
from pyvc.interp import PyRaise, ArbitraryException
from pyvc import models as _models
from contracts.common import implies, iff, forall_range, exists_range, is_opaque

from exactly_lib.impls.types.integer import evaluate_integer, integer_ddv, integer_sdv
from exactly_lib.impls.types.integer.evaluate_integer import NotAnIntegerException

M = Module('C18')

# ------------------------------------------------------------------------------ integer expressions
P_EVAL = 'exactly_lib.impls.types.integer.evaluate_integer'
P_IDDV = 'exactly_lib.impls.types.integer.integer_ddv'
P_ISDV = 'exactly_lib.impls.types.integer.integer_sdv'

M.trust('builtins.eval(text): returns any value or raises any Exception (pyvc.models.m_eval); non-termination '
        '(9**9**9) and side effects of the evaluated expression are not modelled')


def _eval_replay(model, rf):
    """Exception class of the refuting path => canonical expression text => the real function"""
    import re as _re
    exc = ((rf.get('detail') or {}).get('meta') or {}).get('exception') or ''
    m = _re.match(r'(\w+)', exc)
    name = m.group(1) if m else 'ArbitraryException'
    text = _models.EVAL_WITNESS.get(name, '1//0')
    return _EVAL_REPLAY % (text,)


_EVAL_REPLAY = '''
from exactly_lib.impls.types.integer.evaluate_integer import python_evaluate, NotAnIntegerException
text = %r
try:
    print('python_evaluate(%%r) returned %%r' %% (text, python_evaluate(text))); sys.exit(0)
except NotAnIntegerException as e:
    print('NotAnIntegerException: reported as a validation error'); sys.exit(0)
except Exception as e:
    print('python_evaluate(%%r) lets %%r escape: the instruction that uses the integer ends in INTERNAL_ERROR'
          %% (text, e)); sys.exit(1)
'''

M.contract(P_EVAL + ':python_evaluate', params=dict(s=Str), returns=Int,
           ensures={'an integer': lambda result: isinstance(result, int)},
           raises={NotAnIntegerException: {}},       # its docstring: nothing else
           raises_only=(), replay=_eval_replay)

NOT_AN_INTEGER = Inst(NotAnIntegerException, value_string=Str, python_exception_message=Opt(Str))
# (the shape of the exception as the callers of python_evaluate see it)
M.contracts[-1].raises[NotAnIntegerException]['shape'] = NOT_AN_INTEGER


class StringDdvI(Interface):
    """StringDdv: resolving the string value does not raise (its fragments are constants and symbol values whose
    types were checked by the reference restrictions: C08)"""
    methods = {
        'resolving_dependencies': Method(returns=OneOf(frozenset(), frozenset([1])), pure=True),
        'value_when_no_dir_dependencies': Method(returns=Str),
        'value_of_any_dependency': Method(returns=Str),
        'describer': Method(returns=Any_),
    }


class CustomIntegerValidatorI(Interface):
    """CustomIntegerValidator: int -> Optional[TextRenderer]; the one in use, validator_for_non_negative, is total
    (contract below)"""
    methods = {'__call__': Method(returns=Opt(Any_))}


# rendering of texts is outside the property: they are constructed lazily from strings
M.contract('exactly_lib.common.report_rendering.text_docs:major_blocks_of_string_lines', trusted=True,
           params=dict(s=Str), returns=Any_)
M.trust('text_docs.major_blocks_of_string_lines(str) returns a renderer (splits the string into lines; total)')

M.contract('exactly_lib.impls.types.integer.parse_integer:validator_for_non_negative', params=dict(actual=Int),
           ensures={'an error text iff negative': lambda actual, result: (result is None) == (actual >= 0)},
           raises_only=())

VALUE_COMPUTER = Inst(integer_ddv._PrimitiveValueComputer, _int_expression=Iface(StringDdvI),
                      _primitive_value=Opt(Int))

M.contract(P_IDDV + ':_PrimitiveValueComputer._get_primitive_value', params=dict(self=VALUE_COMPUTER, int_expr=Str),
           inline=True,
           ensures={'the value is an integer': lambda self: isinstance(self._primitive_value, int)},
           raises={NotAnIntegerException: {'shape': NOT_AN_INTEGER}}, raises_only=())

for _m, _params in (('value_when_no_dir_dependencies', dict(self=VALUE_COMPUTER)),
                    ('value_of_any_dependency', dict(self=VALUE_COMPUTER, tcds=Any_))):
    M.contract(P_IDDV + ':_PrimitiveValueComputer.' + _m, params=_params, returns=Int,
               ensures={'an integer': lambda result: isinstance(result, int)},
               raises={NotAnIntegerException: {'shape': NOT_AN_INTEGER}}, raises_only=())

INTEGER_DDV_VALIDATOR = Inst(integer_ddv._IntegerDdvValidator, _value_computer=VALUE_COMPUTER,
                             _custom_validator=Iface(CustomIntegerValidatorI), _has_dir_dependencies=Bool)

for _m, _arg, _applicable in (('validate_pre_sds_if_applicable', 'hds', lambda self: not self._has_dir_dependencies),
                              ('validate_post_sds_if_applicable', 'tcds', lambda self: self._has_dir_dependencies)):
    M.contract(P_IDDV + ':_IntegerDdvValidator.' + _m, params={'self': INTEGER_DDV_VALIDATOR, _arg: Any_},
               ghosts=dict(applicable=Const(_applicable)),
               # an expression that is not an integer is a validation error text, never an exception
               ensures={'nothing to say when not applicable': lambda self, applicable, result:
               applicable(self) or result is None},
               raises_only=())


class StringSdvI(Interface):
    methods = {'resolve': Method(returns=Iface(StringDdvI))}
    attrs = {'references': Any_}


class PathResolvingEnvI(Interface):
    attrs = {'symbols': Any_}


from exactly_lib.impls.exception import svh_exception

INT_RESOLVER = Inst(integer_sdv._IntResolver, value_sdv=Iface(StringSdvI))

M.contract(P_ISDV + ':_IntResolver.resolve', params=dict(self=INT_RESOLVER, environment=Iface(PathResolvingEnvI)),
           returns=Int, ensures={'an integer': lambda result: isinstance(result, int)},
           raises={NotAnIntegerException: {'shape': NOT_AN_INTEGER}}, raises_only=())

SDV_VALIDATOR = Inst(integer_sdv._ValidatorThatReportsViaExceptions, _int_sdv=INT_RESOLVER,
                     _custom_integer_validator=Opt(Iface(CustomIntegerValidatorI)))

M.contract(P_ISDV + ':_ValidatorThatReportsViaExceptions.validate_pre_sds',
           params=dict(self=SDV_VALIDATOR, environment=Iface(PathResolvingEnvI)),
           raises={svh_exception.SvhValidationException: {}},      # => VALIDATION_ERROR
           raises_only=())

# ------------------------------------------------------------------------------ regular expressions
from pyvc.re_model import PatternI
from exactly_lib.impls.types.regex import parse_regex

P_REGEX = 'exactly_lib.impls.types.regex.parse_regex'

M.trust('re.compile(text, flags) returns a Pattern or raises re.error / OverflowError / RecursionError / another '
        'Exception; Pattern.sub(template, s) raises re.error / IndexError unless the template is valid for the '
        'pattern (pyvc/re_model.py, from the documentation of `re`)')

REGEX_VALIDATOR = Inst(parse_regex._ValidatorWhichCreatesRegex, _is_ignore_case=Bool, string=Iface(StringDdvI),
                       pattern=Opt(Iface(PatternI)))

M.contract(P_REGEX + ':_ValidatorWhichCreatesRegex._compile_and_set_pattern',
           params=dict(self=REGEX_VALIDATOR, regex_pattern=Str), inline=True,
           ensures={'the pattern is set, or the error is returned as a text': lambda self, result:
           (result is None and self.pattern is not None) or result is not None},
           raises_only=())

for _m, _arg in (('validate_pre_sds_if_applicable', 'hds'), ('validate_post_sds_if_applicable', 'tcds')):
    M.contract(P_REGEX + ':_ValidatorWhichCreatesRegex.' + _m, params={'self': REGEX_VALIDATOR, _arg: Any_},
               # a regular expression that does not compile is a validation error text, never an exception
               ensures={'no error text means there is a compiled pattern, or validation is postponed':
                        lambda self, result: result is not None or self.pattern is not None
                        or len(self.string.resolving_dependencies()) > 0},
               raises_only=())

# ------------------------------------------------------------------------------ replace: the replacement template
from exactly_lib.impls.types.string_transformer.impl.replace import impl as replace_impl
from exactly_lib.test_case.hard_error import HardErrorException

P_REPLACE = 'exactly_lib.impls.types.string_transformer.impl.replace.impl'


def _replace_replay(model, rf):
    return _REPLACE_REPLAY % (rf['function'].rpartition(':')[2].partition('.')[0],)


_REPLACE_REPLAY = '''
import re
from exactly_lib.impls.types.string_transformer.impl.replace import impl
from exactly_lib.test_case.hard_error import HardErrorException
replacer = getattr(impl, %r)(re.compile('a'), '\\\\6')       # replace a '\\6' : no group 6 in the pattern
try:
    print('process returned', repr(replacer.process('xax\\n'))); sys.exit(0)
except HardErrorException:
    print('HardErrorException: reported as HARD_ERROR'); sys.exit(0)
except Exception as e:
    print('process lets', repr(e), 'escape at transformation time (inside main: INTERNAL_ERROR); the validator of the '
          'transformer validates the regex only, not the replacement template'); sys.exit(1)
'''

for _cls in ('_StrReplacerIncludingNewLines', '_StrReplacerExcludingNewLines'):
    M.contract('%s:%s.process' % (P_REPLACE, _cls),
               params=dict(self=Inst(getattr(replace_impl, _cls), _regex=Iface(PatternI), _replacement=Str),
                           line=Str),
               requires=lambda line: len(line) > 0,       # the lines of a text are not empty
               returns=Str, ensures={'a string': lambda result: isinstance(result, str)},
               # an invalid replacement template stems from the text of the test case: at the latest HARD_ERROR
               raises={HardErrorException: {}}, raises_only=(), replay=_replace_replay)
