"""T21 -- engine self-test for the flat-map vocabulary (pyvc/flat.py: `flat_offset`; contracts/common.py: `is_flat_concat`).
ok_* must verify, bad_* must be refuted.  Not a property of the repository.

`lemma_flat_offsets_monotone` is the PROOF of the one lemma `pyvc.flat.q_flat_offset` states about the measure
(`0 <= a <= b <= len(xs) -> offset(a) <= offset(b)`): induction on b as a loop invariant, from the defining equations
only -- the engine does not state the lemma while a function of that name is verified (no circularity).  The sequence
and the pieces are arbitrary (unknown length, unknown pieces), and nothing but the defining equations of the measure
is used, so the argument is the same for every sequence and every pure piece function."""
from pyvc.api import Module, Interface, Iface, Int, Nat, ListOf
from contracts.common import forall_range, flat_offset, is_flat_concat

M = Module('T21')
P = 'contracts.T21_flat'


class _BoxI(Interface):
    """an element that contributes a piece of unknown length"""
    attrs = {'items': ListOf(Int)}


def items_of_box(box):
    return box.items


def lemma_flat_offsets_monotone(xs, a, b):
    k = a
    while k < b:
        k += 1
    return k


M.contract(P + ':lemma_flat_offsets_monotone', params=dict(xs=ListOf(Iface(_BoxI)), a=Nat, b=Nat), returns=Int,
           requires=lambda xs, a, b: a <= b and b <= len(xs),
           ensures={'offsets are non-decreasing': lambda xs, a, b:
           flat_offset(xs, a, items_of_box) <= flat_offset(xs, b, items_of_box)},
           raises_only=())
M.loop(P + ':lemma_flat_offsets_monotone', 0,
       invariant=lambda xs, a, b, k:
       a <= k and k <= b and flat_offset(xs, a, items_of_box) <= flat_offset(xs, k, items_of_box),
       modifies=dict(k=Int), decreases=lambda k, b: b - k)


def ok_flatten(xs):
    out = []
    for x in xs:
        out.extend(x.items)
    return out


def bad_flatten_reversed(xs):
    out = []
    for x in reversed(xs):
        out.extend(x.items)
    return out


def bad_flatten_first_only(xs):
    out = []
    for x in xs:
        out.extend(x.items[:1])
    return out


def bad_flatten_skips_one(xs):
    out = []
    for x in xs[1:]:
        out.extend(x.items)
    return out


for _f in ('ok_flatten', 'bad_flatten_reversed', 'bad_flatten_first_only', 'bad_flatten_skips_one'):
    M.contract(P + ':' + _f, params=dict(xs=ListOf(Iface(_BoxI))), returns=ListOf(Int),
               ensures={'flat': lambda xs, result: is_flat_concat(result, xs, len(xs), items_of_box)},
               raises_only=())
M.loop(P + ':ok_flatten', 0, invariant=lambda _i, xs, out: is_flat_concat(out, xs, _i, items_of_box),
       modifies=dict(out=ListOf(Int), x='local'))
M.loop(P + ':bad_flatten_first_only', 0, invariant=lambda _i, xs, out: is_flat_concat(out, xs, _i, items_of_box),
       modifies=dict(out=ListOf(Int), x='local'))
M.loop(P + ':bad_flatten_reversed', 0, invariant=lambda _i, xs, out: is_flat_concat(out, xs, _i, items_of_box),
       modifies=dict(out=ListOf(Int), x='local'))
M.loop(P + ':bad_flatten_skips_one', 0, invariant=lambda _i, xs, out: is_flat_concat(out, xs, _i, items_of_box),
       modifies=dict(out=ListOf(Int), x='local'))


def ok_flat_item(xs, out, j, k):
    """a client of the relation: item k of piece j is found at offset(j) + k, and that position is in range"""
    return out[flat_offset(xs, j, items_of_box) + k]


M.contract(P + ':ok_flat_item', params=dict(xs=ListOf(Iface(_BoxI)), out=ListOf(Int), j=Nat, k=Nat), returns=Int,
           requires=lambda xs, out, j, k: is_flat_concat(out, xs, len(xs), items_of_box) and j < len(xs)
           and k < len(xs[j].items),
           ensures={'the item': lambda xs, j, k, result: result == xs[j].items[k]},
           raises_only=())

EXPECTED_REFUTED = {
    P + ':bad_flatten_reversed : loop#0 invariant[preserved]',
    P + ':bad_flatten_first_only : loop#0 invariant[preserved]',
    P + ':bad_flatten_skips_one : loop#0 invariant[preserved]',
    P + ':bad_flatten_skips_one : ensures[flat]',
}
