"""C15 (extension F15) -- `matches` (non-full): the verdict of the applier that builds a dict of the expected names and
shrinks it while it iterates over the files of the model.  See notes/C15.md, section "Extension F15"."""
from pyvc.api import (Module, Interface, Method, Iface, Inst, Int, Nat, Bool, Str, Opt, MapOf, MListOf, ListOf, Any_, Custom,
                      new_opaque)
from pyvc.values import to_z3, wrap
from contracts.common import implies, iff, is_opaque, forall_range, exists_range, forall_keys
from contracts import pathspec
from contracts.pathspec import den, PATH, PurePathI
from contracts.C15_dirtrees import (FileMatcherI, FilesMatcherModelI, FileModelI, MatchResultI, ANY_MODEL)

from exactly_lib.impls.types.files_matcher.impl.matches import matches_non_full

try:
    import z3
except ImportError:  # replays
    z3 = None

M = Module('C15')

P_MN = 'exactly_lib.impls.types.files_matcher.impl.matches.matches_non_full'

# A pathlib path is a dict key by its denotation: `__eq__` / `__hash__` of pure paths compare the parsed parts, and
# `pid` is that denotation (PurePosixPath(x) == Path(x): a PosixPath is a PurePosixPath of the same flavour).
PurePathI.map_key = 'pid'


class FileMatcherByIdI(FileMatcherI):
    """a FileMatcher as a VALUE of the mapping of a FilesCondition: an immutable object identified by a ghost id;
    D(fid) -- it accepts the file fid -- is a function of (id, fid)"""
    by_id = True


# FilesCondition.files: Mapping[PurePosixPath, Optional[FileMatcher]] -- a dict of unbounded symbolic contents
FILES_MAP = MapOf(Int, Opt(Iface(FileMatcherByIdI)),
                  key_object=lambda interp, pid: pathspec.new_path(interp, wrap(pid), 'name', PurePathI))


class FilesConditionMI(Interface):
    attrs = {'files': FILES_MAP, 'describer': Any_}


def _condition_accepts(interp, args, kwargs):
    """no case split: (no matcher for the name k) or D(the matcher for k, fid), as one term"""
    m, k, fid = args
    srt = m.vsort
    v = z3.Select(m.val, to_z3(k))
    from pyvc.api import opaque_of_id
    matcher = opaque_of_id(interp, FileMatcherByIdI, srt.v(v))
    d = interp.reg.call_opaque(interp, matcher, 'D', [fid], {})
    return wrap(z3.Or(srt.none(v), to_z3(d)))


def condition_accepts(files, k, fid):
    """the condition gives no matcher for the name k, or the matcher it gives accepts the file fid"""
    m = files[k]
    return m is None or m.D(fid)


M.model(condition_accepts, _condition_accepts)


def name_of_file(f):
    """the path of a file of the model relative to the root directory of the model (its denotation)"""
    return den(f.relative_to_root_dir)


def first_of_its_name(files, j):
    """no earlier file of the model has the same relative path"""
    return forall_range(0, j, lambda i: name_of_file(files[i]) != name_of_file(files[j]))


def found_and_accepted(cond, files, n, k):
    """one of the first n files of the model is named k, is the first of that name and is accepted by the matcher
    the condition gives for k (if any)"""
    return exists_range(0, n, lambda j: name_of_file(files[j]) == k and first_of_its_name(files, j)
                                        and condition_accepts(cond, k, files[j].fid))


def non_full_match(cond, files):
    """Reference manual, `matches FILES-CONDITION` (without -full): every name of the condition is the name of a file
    of the model, and that file satisfies the matcher(s) given for the name; the model may have more files.
    (Stated without the assumption that the relative paths of a model are pairwise distinct: THE file of a name is
    the first one.  With distinct paths -- os.scandir gives every entry once -- `first_of_its_name` is true of
    every file.)"""
    return forall_keys(cond, lambda k: found_and_accepted(cond, files, len(files), k))


def _mk_nf_applier(interp, name):
    a = object.__new__(matches_non_full._Applier)
    a.name = Str.make(interp, 'name')
    a.files_condition = new_opaque(interp, FilesConditionMI, 'files_condition')
    a.model = new_opaque(interp, FilesMatcherModelI, 'model')
    interp.getattr(a.model, 'files_seq')
    interp.getattr(a.files_condition, 'files')      # (created here, not inside a quantified clause)
    return a


NF_APPLIER = Custom(_mk_nf_applier)

M.contract(P_MN + ':_Applier.apply', params=dict(self=NF_APPLIER), returns=Iface(MatchResultI),
           ensures={'the documented verdict of matches (non-full): every name of the condition names a file of the '
                    'model that satisfies the matcher given for it; further files are allowed':
                        lambda self, result:
                        iff(result.value, non_full_match(self.files_condition.files, self.model.files_seq))},
           raises_only=())


def still_expected_are_of_the_condition(cond, expected):
    """the dict of the names still to be found is a part of the condition: same matchers"""
    return forall_keys(expected, lambda k: k in cond and same_entry(cond, expected, k))


def _same_entry(interp, args, kwargs):
    a, b, k = args
    kt = to_z3(k)
    return wrap(z3.Select(a.val, kt) == z3.Select(b.val, kt))


def same_entry(a, b, k):
    """the two dicts have the same value for k"""
    return a[k] is b[k]


M.model(same_entry, _same_entry)


def expected_iff_not_seen(cond, expected, files, n):
    """a name of the condition is still expected iff none of the first n files has it; a name that is not expected
    any more was found and accepted"""
    return forall_keys(cond, lambda k: iff(k in expected,
                                           not exists_range(0, n, lambda j: name_of_file(files[j]) == k))
                                       and (k in expected or found_and_accepted(cond, files, n, k)))


M.loop(P_MN + ':_Applier.apply', 0,
       invariant=lambda _i, _xs, self, expected_files:
       len(expected_files) > 0
       and still_expected_are_of_the_condition(self.files_condition.files, expected_files)
       and expected_iff_not_seen(self.files_condition.files, expected_files, _xs, _i),
       modifies=dict(expected_files='in-place', files_found=MListOf(PATH), actual_file='local',
                     relative_file_name='local', mb_matcher='local', matching_result='local'))


# ============================================================================== the abstract directory tree
# os.scandir(d) is a function of (time, path) -- `DirNodeI` in C15_dirtrees.py: the entries of the directory d, each with
# a name, a ghost identity `fid` and its type tests.  The models of the files matchers are specified against it.

from contracts.C15_dirtrees import (dir_entries, fid_of, DESCRIBED_PATH, FILE_MATCHER, P_MODELS)
from contracts.common import items_of
from contracts.pathspec import P0, join0
from exactly_lib.impls.types.files_matcher import models


def scandir_entries(d):
    """the entries of the directory with denotation d, as os.scandir gives them NOW (proof level)"""
    raise NotImplementedError


M.model(scandir_entries, lambda interp, args, kwargs: dir_entries(interp, args[0]))


def direct_contents(out, root):
    """one file per entry of the directory, in scan order: the file of the entry, named NAME relative to the root
    and root/NAME absolutely"""
    es = scandir_entries(den(root.primitive))
    return len(out) == len(es) \
        and forall_range(0, len(out), lambda k: fid_of(out[k]) == es[k].fid
                                                and den(out[k].relative_to_root_dir) == P0(es[k].name)
                                                and den(out[k].path.primitive)
                                                == join0(den(root.primitive), P0(es[k].name)))


M.contract(P_MODELS + ':_FilesGeneratorForNonRecursive.generate',
           params=dict(self=Inst(models._FilesGeneratorForNonRecursive), root_dir_path=DESCRIBED_PATH,
                       directory_prune=Opt(FILE_MATCHER)),
           may_raise=(OSError,),
           ensures={'the direct contents of the directory: one file per entry, in scan order, at root/NAME (pruning is '
                    'irrelevant: nothing is descended into)': lambda root_dir_path, result:
           direct_contents(items_of(result), root_dir_path)},
           raises_only=())


# ============================================================================== FILES-CONDITION / FILE-LIST plumbing
# (left out so far): the validator of a FILES-CONDITION name; sdv -> ddv -> adv -> primitive of a FILE-LIST keep the
# entries, their names and their order.

from exactly_lib.impls.types.files_condition.impl import literal as fc_literal
from exactly_lib.impls.types.files_source.impl import file_list
from contracts.pathspec import P, is_abs
from contracts.C15_dirtrees import FileMakerI, P_FL

P_FC = 'exactly_lib.impls.types.files_condition.impl.literal'

M.contract('exactly_lib.util.str_.str_constructor:FormatMap.__init__', trusted=True,
           params=dict(self=Any_, format_str=Any_, format_map=Any_))
M.trust('str_constructor.FormatMap(...) builds an error message (messages are outside the property)')

M.contract(P_FC + ':_IsRelativePosixPath.validate_pre_sds_if_applicable',
           params=dict(self=Inst(fc_literal._IsRelativePosixPath, path_str=Str), hds=Any_), returns=Opt(Any_),
           ensures={'a FILE-NAME of a FILES-CONDITION is accepted iff it is not empty and not absolute':
                        lambda self, result: iff(result is None, self.path_str != '' and not is_abs(P(self.path_str)))},
           raises_only=())


class MakerAdvI(Interface):
    """FileMakerAdv: primitive(environment) is a function of the adv"""
    methods = {'primitive': Method(returns=Iface(FileMakerI), pure=True)}


class MakerDdvI(Interface):
    """FileMakerDdv"""
    attrs = {'validator': Any_}
    methods = {'value_of_any_dependency': Method(returns=Iface(MakerAdvI), pure=True)}


class NameDdvI(Interface):
    methods = {'value_when_no_dir_dependencies': Method(returns=Str, pure=True)}


class NameSdvI(Interface):
    attrs = {'references': Any_}
    methods = {'resolve': Method(returns=Iface(NameDdvI), pure=True)}


class MakerSdvI(Interface):
    attrs = {'references': Any_}
    methods = {'resolve': Method(returns=Iface(MakerDdvI), pure=True)}


SPEC_ADV = Inst(file_list.FileSpecificationAdv, _name=Str, _maker=Iface(MakerAdvI))
SPEC_DDV = Inst(file_list.FileSpecificationDdv, name=Str, maker=Iface(MakerDdvI), _validator=Any_)
SPEC_SDV = Inst(file_list.FileSpecificationSdv, _name=Iface(NameSdvI), _maker=Iface(MakerSdvI))

M.contract(P_FL + ':_Adv.primitive', params=dict(self=Inst(file_list._Adv, _files=ListOf(SPEC_ADV)), environment=Any_),
           ensures={'as many entries': lambda self, result: len(result._files) == len(self._files),
                    'entry k: the name of entry k, the maker of entry k -- same order':
                        lambda self, environment, result:
                        isinstance(result, file_list.Primitive)
                        and forall_range(0, len(self._files), lambda k:
                        result._files[k].name == self._files[k]._name
                        and result._files[k].maker is self._files[k]._maker.primitive(environment))},
           raises_only=())

M.contract(P_FL + ':_Ddv.value_of_any_dependency',
           params=dict(self=Inst(file_list._Ddv, _files=ListOf(SPEC_DDV), _validator=Any_), tcds=Any_),
           ensures={'as many entries': lambda self, result: len(result._files) == len(self._files),
                    'entry k: the name of entry k, the maker of entry k -- same order': lambda self, tcds, result:
                    isinstance(result, file_list._Adv)
                    and forall_range(0, len(self._files), lambda k:
                    result._files[k]._name == self._files[k].name
                    and result._files[k]._maker is self._files[k].maker.value_of_any_dependency(tcds))},
           raises_only=())

M.contract(P_FL + ':Sdv.resolve',
           params=dict(self=Inst(file_list.Sdv, _files=ListOf(SPEC_SDV), _references=Any_), symbols=Any_),
           ensures={'as many entries': lambda self, result: len(result._files) == len(self._files),
                    'entry k: the resolved name of entry k, the resolved maker of entry k -- same order':
                        lambda self, symbols, result:
                        isinstance(result, file_list._Ddv)
                        and forall_range(0, len(self._files), lambda k:
                        result._files[k].name
                        == self._files[k]._name.resolve(symbols).value_when_no_dir_dependencies()
                        and result._files[k].maker is self._files[k]._maker.resolve(symbols))},
           raises_only=())


# ============================================================================== FILE-LIST syntax: = creates, += appends

from exactly_lib.impls.types.files_source import syntax as fs_syntax
from exactly_lib.impls.types.files_source.defs import ModificationType
from exactly_lib.impls.types.files_source.impl import parse_file_list
from exactly_lib.impls.types.files_source.impl.file_makers import dir_ as dir_maker, regular as regular_maker
from pyvc.api import OneOf, EnumOf

P_PFL = 'exactly_lib.impls.types.files_source.impl.parse_file_list'


def _consume_if_in(head, constants):
    if head is not None and head in constants:
        return head
    return None


def _consume_optional_constant(interp, self, args, kwargs):
    """consume_optional_constant_string_that_must_be_unquoted_and_equal(constants): the head token if it is an
    unquoted string that is one of the constants (`head`: that string, None if there is no such token), else None"""
    return interp.call(_consume_if_in, [interp.getattr(self, 'head'), args[0]], {})


class ModTokenParserI(Interface):
    """TokenParser as the parser of a file maker uses it (the token stream itself: C12 / C18)"""
    attrs = {'head': Opt(Str)}
    methods = {'consume_optional_constant_string_that_must_be_unquoted_and_equal':
                   Method(model=_consume_optional_constant)}


class ContentsParserI(Interface):
    methods = {'parse': Method(returns=Any_, pure=True, may_raise=(Exception,))}


PARSER_OF_FILE_MAKER = Inst(parse_file_list.ParserOfFileMaker, _contents_parser=Iface(ContentsParserI),
                            _mk_file_maker=OneOf(parse_file_list._mk_file_maker__dir,
                                                 parse_file_list._mk_file_maker__regular_file))


def parsed_modification(head):
    """Reference manual, FILE-SPEC: without `=` / `+=` a new, empty file; `=` creates; `+=` modifies an existing file"""
    if head is None or head not in ('=', '+='):
        return ModificationType.CREATE, False
    return (ModificationType.CREATE if head == '=' else ModificationType.APPEND), True


M.contract(P_PFL + ':ParserOfFileMaker._parse_contents',
           params=dict(self=PARSER_OF_FILE_MAKER, token_parser=Iface(ModTokenParserI)), may_raise=(Exception,),
           inline=True,
           ensures={'no modification token: create, no contents; `=`: create, `+=`: append -- with the parsed contents':
                        lambda self, token_parser, result:
                        result[0] is parsed_modification(token_parser.head)[0]
                        and ((result[1] is self._contents_parser.parse(token_parser))
                             if parsed_modification(token_parser.head)[1] else result[1] is None)},
           raises_only=())

M.contract(P_PFL + ':ParserOfFileMaker.parse',
           params=dict(self=PARSER_OF_FILE_MAKER, token_parser=Iface(ModTokenParserI)), may_raise=(Exception,),
           ensures={'a directory / regular-file maker with the parsed modification': lambda self, token_parser, result:
           isinstance(result, dir_maker.DirFileMakerSdv
           if self._mk_file_maker is parse_file_list._mk_file_maker__dir else regular_maker.RegularFileMakerSdv)
           and result._modification is parsed_modification(token_parser.head)[0]},
           raises_only=())


@M.check('file list syntax')
def _file_list_syntax(ctx):
    ctx.obligation('FILE-LIST: `=` creates, `+=` appends (syntax.EXPLICIT_CONTENTS_CONFIG)',
                   dict(fs_syntax.EXPLICIT_CONTENTS_CONFIG) == {'=': ModificationType.CREATE,
                                                                '+=': ModificationType.APPEND}, 'enumeration')
    ctx.obligation('the parser of a file maker looks for exactly these two tokens',
                   set(parse_file_list.ParserOfFileMaker._EXPLICIT_CONTENTS_TOKENS) == {'=', '+='}, 'enumeration')
    p = parse_file_list.ParserOfFileSpec(None)
    ctx.obligation('`file` entries get the regular-file maker, `dir` entries the directory maker',
                   set(p._file_maker_parsers) == {'file', 'dir'}
                   and p._file_maker_parsers['file']._mk_file_maker is parse_file_list._mk_file_maker__regular_file
                   and p._file_maker_parsers['dir']._mk_file_maker is parse_file_list._mk_file_maker__dir,
                   'enumeration')


# ============================================================================== FILES-CONDITION: the validators of every part

from contracts.common import count_prefix
from contracts.C15_dirtrees import DDV_HELPER
from exactly_lib.type_val_deps.dep_variants.ddv import ddv_validators


def entry_has_matcher(entry):
    return entry[1] is not None


def n_validators(files):
    """one validator per file name and one per matcher"""
    return len(files) + count_prefix(files, len(files), entry_has_matcher)


# (ddv_validators.all_of is interpreted from its source here -- C03 has it `inline` --: the combined validator is the
# conjunction `AndValidator` of exactly the list it is given when that has two or more elements)
M.contract(P_FC + ':_DdvHelper.validator_validator_of_files', params=dict(self=DDV_HELPER), returns=Any_,
           ensures={'the validator of a FILES-CONDITION combines one validator per file name and one per matcher '
                    '(none is dropped)': lambda self, result:
           n_validators(self._files) < 2
           or (isinstance(result, ddv_validators.AndValidator)
               and len(result.validators) == n_validators(self._files))},
           raises_only=())
M.loop(P_FC + ':_DdvHelper.validator_validator_of_files', 0,
       invariant=lambda _i, self, validators:
       len(validators) == _i + count_prefix(self._files, _i, entry_has_matcher),
       modifies=dict(validators=MListOf(Any_), file_name='local', mb_matcher='local'))


# ============================================================================== FILE-LIST: the validators of every part
# The validator of an entry is the conjunction of the validator of its NAME (`_IsValidPosixPath`: not absolute, no `..`,
# proved in C15_dirtrees.py) and of its maker; the validator of a FILE-LIST is made of the validators of all its entries,
# in order.  (AndValidator runs every component: C03.)

M.contract(P_FL + ':FileSpecificationDdv.__init__',
           params=dict(self=Inst(file_list.FileSpecificationDdv), name=Str, maker=Iface(MakerDdvI)),
           ensures={'the validator of an entry: the name validator of ITS name, then the validator of its maker':
                        lambda self, name, maker:
                        self.name == name and self.maker is maker
                        and isinstance(self._validator, ddv_validators.AndValidator)
                        and len(self._validator.validators) == 2
                        and isinstance(self._validator.validators[0], file_list._IsValidPosixPath)
                        and self._validator.validators[0].path_str == name
                        and self._validator.validators[1] is maker.validator},
           inline=True, raises_only=())

M.contract(P_FL + ':_Ddv.__init__',
           params=dict(self=Inst(file_list._Ddv), files=ListOf(SPEC_DDV)),
           ensures={'the validator of a FILE-LIST: the validators of all entries, in order (one entry: its validator)':
                        lambda self, files:
                        self._files is files
                        and (len(files) == 0
                             or (self._validator is files[0]._validator if len(files) == 1 else
                                 (isinstance(self._validator, ddv_validators.AndValidator)
                                  and len(self._validator.validators) == len(files)
                                  and forall_range(0, len(files), lambda k:
                                 self._validator.validators[k] is files[k]._validator))))},
           inline=True, raises_only=())


# ============================================================================== the directory maker: sdv -> ddv -> adv -> maker
# The modification (= / +=) and the nested FILE-LIST reach DirFileMaker (whose behaviour is proved in C15_dirtrees.py)
# unchanged.

from exactly_lib.impls.types.files_source.defs import ModificationType as _Mod
from contracts.C15_dirtrees import FilesSourceI

P_DIRM = 'exactly_lib.impls.types.files_source.impl.file_makers.dir_'


class FilesSourceAdvI(Interface):
    methods = {'primitive': Method(returns=Iface(FilesSourceI), pure=True)}


class FilesSourceDdvI(Interface):
    attrs = {'describer': Any_, 'validator': Any_}
    methods = {'value_of_any_dependency': Method(returns=Iface(FilesSourceAdvI), pure=True)}


class FilesSourceSdvI(Interface):
    attrs = {'references': Any_}
    methods = {'resolve': Method(returns=Iface(FilesSourceDdvI), pure=True)}


def _opt_call(x, method, arg):
    return None if x is None else getattr(x, method)(arg)


M.contract(P_DIRM + ':DirFileMakerSdv.resolve',
           params=dict(self=Inst(dir_maker.DirFileMakerSdv, _modification=EnumOf(_Mod),
                                 _contents=Opt(Iface(FilesSourceSdvI))), symbols=Any_),
           ensures={'same modification, the resolved contents': lambda self, symbols, result:
           isinstance(result, dir_maker.DirFileMakerDdv) and result._modification is self._modification
           and result._contents is _opt_call(self._contents, 'resolve', symbols)}, raises_only=())

M.contract(P_DIRM + ':DirFileMakerDdv.value_of_any_dependency',
           params=dict(self=Inst(dir_maker.DirFileMakerDdv, _modification=EnumOf(_Mod),
                                 _contents=Opt(Iface(FilesSourceDdvI)), _contents_describer=Any_), tcds=Any_),
           ensures={'same modification, the contents of the directory structure': lambda self, tcds, result:
           isinstance(result, dir_maker.DirFileMakerAdv) and result._modification is self._modification
           and result._contents is _opt_call(self._contents, 'value_of_any_dependency', tcds)}, raises_only=())

M.contract(P_DIRM + ':DirFileMakerAdv.primitive',
           params=dict(self=Inst(dir_maker.DirFileMakerAdv, _modification=EnumOf(_Mod),
                                 _contents=Opt(Iface(FilesSourceAdvI))), environment=Any_),
           ensures={'the directory maker with the same modification and the primitive contents':
                        lambda self, environment, result:
                        isinstance(result, dir_maker.DirFileMaker) and result._modification is self._modification
                        and result._contents is _opt_call(self._contents, 'primitive', environment)},
           raises_only=())


# ---- the regular-file maker: sdv -> ddv -> adv (the adv's `primitive`, which substitutes the empty string source
# for absent contents, is not under contract)

P_REGM = 'exactly_lib.impls.types.files_source.impl.file_makers.regular'


class StringSourceAdvI(Interface):
    methods = {'primitive': Method(returns=Any_, pure=True)}


class StringSourceDdvI(Interface):
    attrs = {'validator': Any_}
    methods = {'value_of_any_dependency': Method(returns=Iface(StringSourceAdvI), pure=True),
               'structure': Method(returns=Any_)}


class StringSourceSdvI(Interface):
    attrs = {'references': Any_}
    methods = {'resolve': Method(returns=Iface(StringSourceDdvI), pure=True)}


M.contract(P_REGM + ':RegularFileMakerSdv.resolve',
           params=dict(self=Inst(regular_maker.RegularFileMakerSdv, _modification=EnumOf(_Mod),
                                 _contents=Opt(Iface(StringSourceSdvI))), symbols=Any_),
           ensures={'same modification, the resolved contents': lambda self, symbols, result:
           isinstance(result, regular_maker.RegularFileMakerDdv) and result._modification is self._modification
           and result._contents is _opt_call(self._contents, 'resolve', symbols)}, raises_only=())

M.contract(P_REGM + ':RegularFileMakerDdv.value_of_any_dependency',
           params=dict(self=Inst(regular_maker.RegularFileMakerDdv, _modification=EnumOf(_Mod),
                                 _contents=Opt(Iface(StringSourceDdvI)), _contents_describer=Any_), tcds=Any_),
           ensures={'same modification, the contents of the directory structure': lambda self, tcds, result:
           isinstance(result, regular_maker.RegularFileMakerAdv) and result._modification is self._modification
           and result._optional_contents is _opt_call(self._contents, 'value_of_any_dependency', tcds)},
           raises_only=())
