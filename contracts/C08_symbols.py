"""C08 -- symbols: defined before use, defined once, type-checked, substituted faithfully.

The symbol table is viewed as a map  name -> container  (`SymbolTable._key_2_value`, a real dict
natively, a pair of SMT arrays in proofs).  Validation is a state machine over that map:

    usage_ok(u, T)   u is accepted in table state T
    step(T, u)       the table after an accepted u  (T[name -> container] for a definition, T for a reference)

and the validators are proved to compute exactly the fold of `step` over the usages in execution
order, stopping at the first usage that is not `usage_ok` with VALIDATION_ERROR.  See DESIGN.md / C08."""
from pyvc.api import (Module, Interface, Method, Iface, Inst, Int, Nat, Bool, Str, Opt, OneOf, Const, Union,
                      ListOf, FixedList, MapOf, Derived, Any_, EnumOf, Custom, new_opaque, assume_pred)
from contracts.common import implies, iff, forall_range, exists_range, is_opaque, prefix_fold, forall_keys

from exactly_lib.execution.impl import symbol_validation as sv
from exactly_lib.execution.impl.single_instruction_executor import (PartialInstructionControlledFailureInfo,
                                                                    PartialControlledFailureEnum)
from exactly_lib.symbol import sdv_structure
from exactly_lib.symbol.sdv_structure import (SymbolContainer, SymbolUsage, SymbolReference, SymbolDefinition,
                                              SymbolDependentValue, ReferenceRestrictions, Failure)
from exactly_lib.symbol.value_type import ValueType, WithStrRenderingType
from exactly_lib.util.symbol_table import SymbolTable, Entry

M = Module('C08')

P_ST = 'exactly_lib.util.symbol_table'
P_SV = 'exactly_lib.execution.impl.symbol_validation'
P_SDV = 'exactly_lib.symbol.sdv_structure'

VALIDATION_ERROR = PartialControlledFailureEnum.VALIDATION_ERROR


# ------------------------------------------------------------------------------ abstract view

def view(table):
    """the map view of a symbol table"""
    return table._key_2_value


def is_ref(u):
    return isinstance(u, SymbolReference)


def is_def(u):
    return isinstance(u, SymbolDefinition)


def sat(restrictions, T, name):
    """the restriction accepts the symbol `name` of table state T (requires name in T)"""
    if is_opaque(restrictions):
        return restrictions.SAT(T, name)
    return restrictions.is_satisfied_by(SymbolTable(dict(T)), name, T[name]) is None


def ref_ok(r, T):
    """a reference is accepted: the name is defined and its restriction is satisfied"""
    return r.name in T and sat(r.restrictions, T, r.name)


def def_ok(d, T):
    """a definition is accepted: the name is new and every reference of the value is accepted"""
    return d.name not in T and forall_range(0, len(d.references), lambda m: ref_ok(d.references[m], T))


def usage_ok(u, T):
    return (is_ref(u) and ref_ok(u, T)) or (is_def(u) and def_ok(u, T))


def step(T, u):
    """the table after the accepted usage u"""
    if is_def(u):
        d = dict(T)
        d[u.name] = u.symbol_container
        return d
    return T


def closed(T):
    """every symbol of the table refers only to symbols of the table (so that following references never
    leaves it).  Invariant of validation: a definition enters the table after its references were found in it."""
    return forall_keys(T, lambda k: forall_range(0, len(T[k].sdv.references),
                                                 lambda m: T[k].sdv.references[m].name in T))


# ------------------------------------------------------------------------------ interfaces (environment)

class FailureI(Interface):
    target_class = Failure


class SdvI(Interface):
    """A symbol dependent value: known through the references it reports (immutable: identified by an id)."""
    target_class = SymbolDependentValue
    by_id = True
    attrs = {'references': ListOf(Iface(lambda: ReferenceI))}


class ContainerI(Interface):
    """SymbolContainer: immutable (sdv, value type, source location); objects are identified by an id so
    that they can be values of the map view."""
    target_class = SymbolContainer
    by_id = True
    attrs = {'value_type': EnumOf(ValueType), 'sdv': Iface(SdvI), 'source_location': Any_}


def _is_satisfied_by(interp, self, args, kwargs):
    """ReferenceRestrictions.is_satisfied_by(symbol_table, symbol_name, container): environment.
    Assumed: a deterministic function of the restriction, the table contents and the name (ghost SAT),
    which does not change the table.  For the restriction classes of the repository this is proved below.
    Obligation at every call site: the container passed is the one the table holds for that name, and the table
    is closed under references (what the implementations need to follow indirect references)."""
    table, name, container = (list(args) + [kwargs[k] for k in ('symbol_table', 'symbol_name', 'container')
                                            if k in kwargs])[:3]
    st = interp.st
    pre = interp.truth(interp.call(_asked_about_own_entry, [table, name, container], {}))
    st.oblige('%s : requires of is_satisfied_by (container is the table entry of the name; the table is closed)'
              % interp.current_function_name(), pre, {'kind': 'callee-pre'})
    st.assume(pre)
    r = Opt(Iface(FailureI)).make(interp, 'failure')
    st.assume(interp.truth(interp.call(_sat_result, [self, table, name, r], {})))
    return r


def _asked_about_own_entry(table, name, container):
    return table.contains(name) and table.lookup(name) is container and closed(view(table))


def _sat_result(restrictions, table, name, r):
    return iff(r is None, restrictions.SAT(view(table), name))


class RestrictionsI(Interface):
    target_class = ReferenceRestrictions
    methods = {
        'SAT': Method(returns=Bool, pure=True),        # ghost: satisfied in (table view, name)
        'is_satisfied_by': Method(model=_is_satisfied_by),
    }


class ReferenceI(Interface):
    target_class = SymbolReference
    attrs = {'name': Str, 'restrictions': Iface(RestrictionsI)}


def _one_variant(self):
    return is_ref(self) != is_def(self)


class UsageI(Interface):
    """A SymbolUsage: a reference or a definition (closed world, checked in `usage-variants`).
    `references` / `symbol_table_entry` are the properties of SymbolDefinition (proved below to be these)."""
    target_class = SymbolUsage
    attrs = {'name': Str, 'restrictions': Iface(RestrictionsI), 'symbol_container': Iface(ContainerI),
             'references': Derived(lambda self: self.symbol_container.sdv.references),
             'symbol_table_entry': Derived(lambda self: Entry(self.name, self.symbol_container))}
    invariant = staticmethod(_one_variant)


class DefinitionI(UsageI):
    target_class = SymbolDefinition
    invariant = None


CONTAINER = Iface(ContainerI)
TABLE = Inst(SymbolTable, _key_2_value=MapOf(Str, CONTAINER))
REFERENCE = Iface(ReferenceI)
DEFINITION = Iface(DefinitionI)
USAGE = Iface(UsageI)
FAILURE_INFO = Inst(PartialInstructionControlledFailureInfo, _tuple=[EnumOf(PartialControlledFailureEnum), Any_])
ENTRY = Inst(Entry, _tuple=[Str, CONTAINER])


@M.check('usage-variants')
def _usage_variants(ctx):
    subs = set(SymbolUsage.__subclasses__())
    ctx.obligation('SymbolUsage has exactly the variants SymbolReference and SymbolDefinition',
                   subs == {SymbolReference, SymbolDefinition}, 'enumeration', detail={'subclasses': repr(subs)})
    ctx.obligation('no class is both a reference and a definition',
                   not any(issubclass(k, SymbolDefinition) for k in _all_subclasses(SymbolReference)) and
                   not issubclass(SymbolReference, SymbolDefinition) and not issubclass(SymbolDefinition,
                                                                                        SymbolReference),
                   'enumeration')


def _all_subclasses(cls):
    out = set()
    todo = [cls]
    while todo:
        k = todo.pop()
        for s in k.__subclasses__():
            if s not in out:
                out.add(s)
                todo.append(s)
    return out


# ------------------------------------------------------------------------------ SymbolTable: the map view

M.contract(P_ST + ':SymbolTable.contains', params=dict(self=TABLE, key=Str), inline=True,
           ensures={'view': lambda self, key, result: iff(result, key in view(self))}, raises_only=())

M.contract(P_ST + ':SymbolTable.lookup', params=dict(self=TABLE, name=Str), inline=True,
           raises={KeyError: {'when': lambda self, name: name not in view(self)}},
           ensures={'view': lambda self, name, result: result is view(self)[name]}, raises_only=())

M.contract(P_ST + ':SymbolTable.add', params=dict(self=TABLE, entry=ENTRY), inline=True, modifies=('self',),
           old=lambda self: dict(view(self)),
           ensures={'view': lambda self, entry, old: view(self) == _with(old, entry.key, entry.value)},
           raises_only=())

M.contract(P_ST + ':SymbolTable.put', params=dict(self=TABLE, key=Str, x=CONTAINER), inline=True, modifies=('self',),
           old=lambda self: dict(view(self)),
           ensures={'view': lambda self, key, x, old: view(self) == _with(old, key, x)}, raises_only=())

M.contract(P_ST + ':SymbolTable.copy', params=dict(self=TABLE), inline=True,
           ensures={'equal': lambda self, result: view(result) == view(self),
                    'unaliased': lambda self, result: result is not self and view(result) is not view(self)},
           raises_only=())

M.contract(P_ST + ':SymbolTable.add_table', params=dict(self=TABLE, symbol_table=TABLE), ghosts=dict(k=Str),
           inline=True, modifies=('self',), old=lambda self: dict(view(self)),
           ensures={'right-biased union, pointwise': lambda self, symbol_table, old, k:
           iff(k in view(self), k in old or k in view(symbol_table)) and
           ((k not in view(self)) or view(self)[k] is (view(symbol_table)[k] if k in view(symbol_table) else old[k]))},
           raises_only=())


def _with(d, key, value):
    r = dict(d)
    r[key] = value
    return r


# the properties of SymbolDefinition that the interface UsageI describes as derived attributes
_REAL_DEFINITION = Inst(SymbolDefinition, _name=Str, _container=CONTAINER)

M.contract(P_SDV + ':SymbolDefinition.references', params=dict(self=_REAL_DEFINITION), inline=True,
           ensures={'of-the-value': lambda self, result: result is self.symbol_container.sdv.references},
           raises_only=())
M.contract(P_SDV + ':SymbolDefinition.symbol_table_entry', params=dict(self=_REAL_DEFINITION), inline=True,
           ensures={'name-and-container': lambda self, result:
           result.key == self.name and result.value is self.symbol_container and isinstance(result, Entry)},
           raises_only=())

# ------------------------------------------------------------------------------ error messages (outside the property)

for _f, _params in (('duplicate_symbol_definition', dict(already_defined_symbol=Any_, name=Str)),
                    ('undefined_symbol', dict(reference=REFERENCE))):
    M.contract('exactly_lib.symbol.err_msg.error_messages:' + _f, trusted=True, params=_params, returns=Any_)
M.trust('symbol.err_msg.error_messages.duplicate_symbol_definition / undefined_symbol only build a renderer '
        '(the text of error messages is outside the property)')

# ------------------------------------------------------------------------------ validation of one usage

RESULT = Opt(FAILURE_INFO)

M.contract(P_SV + ':_validate_reference', params=dict(symbol_reference=REFERENCE, symbols=TABLE),
           requires=lambda symbol_reference, symbols: symbol_reference.name in view(symbols) and closed(view(symbols)),
           returns=Opt(Any_),
           ensures={'none-iff-restriction-satisfied': lambda symbol_reference, symbols, result:
           iff(result is None, sat(symbol_reference.restrictions, view(symbols), symbol_reference.name))},
           raises_only=())

M.contract(P_SV + ':_validate_symbol_reference', params=dict(symbol_table=TABLE, reference=REFERENCE),
           requires=lambda symbol_table: closed(view(symbol_table)), returns=RESULT,
           ensures={
               'accepted-iff-defined-and-satisfied': lambda symbol_table, reference, result:
               iff(result is None, ref_ok(reference, view(symbol_table))),
               'failure-is-validation-error': lambda result: result is None or result.status is VALIDATION_ERROR,
           }, raises_only=())

M.contract(P_SV + ':_validate_symbol_definition', params=dict(symbol_table=TABLE, definition=DEFINITION),
           requires=lambda symbol_table: closed(view(symbol_table)),
           returns=RESULT, modifies=('symbol_table',), old=lambda symbol_table: dict(view(symbol_table)),
           ensures={
               'the table stays closed under references': lambda symbol_table: closed(view(symbol_table)),
               'accepted-iff-new-name-and-references-ok': lambda definition, result, old:
               iff(result is None, def_ok(definition, old)),
               'failure-is-validation-error': lambda result: result is None or result.status is VALIDATION_ERROR,
               'defined-once: an already defined name (builtins included) is rejected': lambda definition, result, old:
               implies(definition.name in old, result is not None),
               'table: accepted => name added with its container; rejected => unchanged':
                   lambda symbol_table, definition, result, old:
                   view(symbol_table) == (_with(old, definition.name, definition.symbol_container)
                                          if result is None else old),
           }, raises_only=())

M.loop(P_SV + ':_validate_symbol_definition', 0,
       invariant=lambda _i, symbol_table, definition, old:
       view(symbol_table) == old and forall_range(0, _i, lambda m: ref_ok(definition.references[m], old)),
       modifies=dict(referenced_value='local', failure_info='local', symbol_table='in-place'))

M.contract(P_SV + ':validate_symbol_usage', params=dict(usage=USAGE, symbol_table=TABLE),
           cover=('Unknown variant',),       # closed world: a usage is a reference or a definition (check `usage-variants`)
           requires=lambda symbol_table: closed(view(symbol_table)),
           returns=RESULT, modifies=('symbol_table',), old=lambda symbol_table: dict(view(symbol_table)),
           ensures={
               'the table stays closed under references': lambda symbol_table: closed(view(symbol_table)),
               'accepted-iff-ok': lambda usage, result, old: iff(result is None, usage_ok(usage, old)),
               'failure-is-validation-error': lambda result: result is None or result.status is VALIDATION_ERROR,
               'table: accepted => step; rejected => unchanged': lambda symbol_table, usage, result, old:
               view(symbol_table) == (step(old, usage) if result is None else old),
           }, raises_only=())


# ------------------------------------------------------------------------------ a sequence of usages

def state(T0, usages, j):
    """the table before usage j of a sequence validated from table state T0"""
    return prefix_fold(step, T0, usages, j)


def accepted(T0, usages, T):
    """every usage is ok in the table at its position; T is the table after all of them"""
    return forall_range(0, len(usages), lambda j: usage_ok(usages[j], state(T0, usages, j))) \
        and T == state(T0, usages, len(usages))


def rejected(T0, usages, T):
    """some usage is not ok in the table at its position; all before it are; T is the table reached there
    (nothing after the first failure has been examined)"""
    return exists_range(0, len(usages), lambda j:
    (not usage_ok(usages[j], state(T0, usages, j)))
    and forall_range(0, j, lambda m: usage_ok(usages[m], state(T0, usages, m)))
    and T == state(T0, usages, j))


M.contract(P_SV + ':validate_symbol_usages', params=dict(symbol_usages=ListOf(USAGE), symbols=TABLE),
           requires=lambda symbols: closed(view(symbols)),
           returns=RESULT, modifies=('symbols',), old=lambda symbols: dict(view(symbols)),
           ensures={
               'the table stays closed under references': lambda symbols: closed(view(symbols)),
               'accepted: every usage is ok in the table at its position; the table is the fold':
                   lambda symbol_usages, symbols, result, old:
                   implies(result is None, accepted(old, symbol_usages, view(symbols))),
               'rejected: VALIDATION_ERROR at the first usage that is not ok; nothing after it is examined':
                   lambda symbol_usages, symbols, result, old:
                   result is None or (result.status is VALIDATION_ERROR
                                      and rejected(old, symbol_usages, view(symbols))),
           }, raises_only=())

M.loop(P_SV + ':validate_symbol_usages', 0,
       invariant=lambda _i, symbol_usages, symbols, old:
       view(symbols) == state(old, symbol_usages, _i) and closed(view(symbols))
       and forall_range(0, _i, lambda j: usage_ok(symbol_usages[j], state(old, symbol_usages, j))),
       modifies=dict(symbol_usage='local', result='local', symbols='in-place'))

# ------------------------------------------------------------------------------ the whole test case
# partial_execution/impl/symbol_validation.py: ONE table (a copy of the predefined symbols) is handed to one
# executor, which validates the phases in execution order -- setup, act, before-assert, assert, cleanup.
# The per-phase loop (run_instructions_phase_step: every instruction in order, stop at the first failure,
# failure raised as PhaseStepFailureException) is the subject of C01; here it is an assumed contract that
# records which executor was applied to which phase.

from exactly_lib.execution import phase_step
from exactly_lib.execution.impl.phase_step_execution import PhaseStepFailureResultConstructor
from exactly_lib.execution.partial_execution.configuration import TestCase
from exactly_lib.execution.partial_execution.impl import symbol_validation as psv
from exactly_lib.execution.result import PhaseStepFailureException, ExecutionFailureStatus
from exactly_lib.test_case.phases.common import SymbolUser

P_PSV = 'exactly_lib.execution.partial_execution.impl.symbol_validation'


class SymbolUserI(Interface):
    """An instruction / the action to check: reports a constant sequence of usages (doc of SymbolUser)."""
    target_class = SymbolUser
    methods = {'symbol_usages': Method(returns=ListOf(USAGE), pure=True)}


SYMBOL_USER = Iface(SymbolUserI)
EXECUTOR = Inst(psv.ValidateSymbolsExecutor, _ValidateSymbolsExecutor__symbols=TABLE)


def table_of(executor):
    return executor._ValidateSymbolsExecutor__symbols


M.contract(P_PSV + ':ValidateSymbolsExecutor.apply', params=dict(self=EXECUTOR, symbol_user=SYMBOL_USER),
           requires=lambda self: closed(view(table_of(self))),
           returns=RESULT, modifies=('self',), old=lambda self: dict(view(table_of(self))),
           ensures={
               'the table stays closed under references': lambda self: closed(view(table_of(self))),
               'accepted: every usage of the instruction is ok in the shared table at its position':
                   lambda self, symbol_user, result, old:
                   implies(result is None, accepted(old, symbol_user.symbol_usages(), view(table_of(self)))),
               'rejected: VALIDATION_ERROR at the first usage that is not ok': lambda self, symbol_user, result, old:
               result is None or (result.status is VALIDATION_ERROR
                                  and rejected(old, symbol_user.symbol_usages(), view(table_of(self)))),
           }, raises_only=())


class SectionContentsI(Interface):
    pass


class FailureConstructorFactoryI(Interface):
    """act_helper.failure_constructor: PhaseStep -> PhaseStepFailureResultConstructor (a real one)."""
    methods = {'__call__': Method(returns=Inst(PhaseStepFailureResultConstructor, _step=Any_, _actor_name=Str,
                                               _phase_source=Str))}


PHASES = Inst(TestCase, _tuple=[Iface(SectionContentsI)] * 5)

M.contract(P_PSV + ':SymbolsValidator.__init__',
           params=dict(self=Inst(psv.SymbolsValidator), initial_symbols=TABLE, test_case=PHASES,
                       action_to_check=SYMBOL_USER, mk_atc_failure_con=Iface(FailureConstructorFactoryI)),
           inline=True,
           # the predefined symbols are closed under references (check `builtin-symbols-closed`)
           requires=lambda initial_symbols: closed(view(initial_symbols)),
           ensures={
               'closed under references': lambda self: closed(view(self._symbols)),
               'starts as a copy of the predefined symbols': lambda self, initial_symbols:
               view(self._symbols) == view(initial_symbols) and self._symbols is not initial_symbols
               and view(self._symbols) is not view(initial_symbols),
               'one shared table': lambda self:
               table_of(self._validation_executor) is self._symbols and self.output is self._symbols,
           }, raises_only=())

# assumed here, proved in C01: applies the executor to every instruction of the phase in order, raises at the
# first failure.  The event records (step, executor, phase).
M.contract('exactly_lib.execution.impl.phase_step_execution:run_instructions_phase_step', trusted=True,
           params=dict(step=Any_, instruction_executor=EXECUTOR, phase_contents=Iface(SectionContentsI)),
           # closedness: what every `apply` requires and re-establishes (proved above)
           requires=lambda instruction_executor: closed(view(table_of(instruction_executor))),
           ensures={'closed': lambda instruction_executor: closed(view(table_of(instruction_executor)))},
           modifies=('instruction_executor',), may_raise=(PhaseStepFailureException,), event='phase')
M.trust('execution.impl.phase_step_execution.run_instructions_phase_step applies the given executor to each '
        'instruction of the given phase in order and raises PhaseStepFailureException at the first failure (C01)')


def _mk_validator(interp, name):
    v = object.__new__(psv.SymbolsValidator)
    v._symbols = TABLE.make(interp, name + '._symbols')
    v._test_case = PHASES.make(interp, name + '._test_case')
    v._action_to_check = SYMBOL_USER.make(interp, name + '._action_to_check')
    v._mk_atc_failure_con = Iface(FailureConstructorFactoryI).make(interp, name + '._mk_atc_failure_con')
    e = object.__new__(psv.ValidateSymbolsExecutor)
    e._ValidateSymbolsExecutor__symbols = v._symbols
    v._validation_executor = e
    assume_pred(interp, _validator_invariant, v)      # established by __init__ (proved), kept by every step
    return v


def _validator_invariant(v):
    return closed(view(v._symbols))


VALIDATOR = Custom(_mk_validator)

def _steps(trace):
    """the validation steps started: ('phase', {...}) / ('atc', {...}) events of the contracts used"""
    return [e for e in trace if e[0] in ('phase', 'atc')]


def _failures(trace):
    """(position, event) of the steps that raised"""
    return [e for e in trace if e[0] in ('phase:raised', 'atc:raised')]


M.contract(P_PSV + ':SymbolsValidator._validate',
           params=dict(self=VALIDATOR, step=Any_, phase_contents=Iface(SectionContentsI)), inline=True,
           modifies=('self',), may_raise=(PhaseStepFailureException,),
           ensures={'closed': lambda self: _validator_invariant(self),
                    'the shared executor on this phase': lambda self, step, phase_contents, trace:
           len(_steps(trace)) == 1 and _steps(trace)[0][0] == 'phase'
           and _steps(trace)[0][1]['instruction_executor'] is self._validation_executor
           and _steps(trace)[0][1]['phase_contents'] is phase_contents and _steps(trace)[0][1]['step'] is step},
           raises_only=())

class PhaseStepFailureI(Interface):
    attrs = {'status': EnumOf(ExecutionFailureStatus), 'failure_info': Any_}


M.contract(P_PSV + ':SymbolsValidator._validate_atc', params=dict(self=VALIDATOR), modifies=('self',), event='atc',
           old=lambda self: dict(view(self._symbols)),
           raises={PhaseStepFailureException: {
               'shape': Inst(PhaseStepFailureException, failure=Iface(PhaseStepFailureI)),
               'ensures': lambda self, exc, old:
               exc.failure.status is ExecutionFailureStatus.VALIDATION_ERROR
               and rejected(old, self._action_to_check.symbol_usages(), view(self._symbols))}},
           ensures={'accepted: the usages of the action to check are ok in the shared table': lambda self, old:
           accepted(old, self._action_to_check.symbol_usages(), view(self._symbols)),
                    'closed': lambda self: _validator_invariant(self)},
           raises_only=())

_ORDER = (phase_step.SETUP__VALIDATE_SYMBOLS, 'act', phase_step.BEFORE_ASSERT__VALIDATE_SYMBOLS,
          phase_step.ASSERT__VALIDATE_SYMBOLS, phase_step.CLEANUP__VALIDATE_SYMBOLS)


def _phase_of(test_case, k):
    return (test_case.setup_phase, None, test_case.before_assert_phase, test_case.assert_phase,
            test_case.cleanup_phase)[k]


def _is_prefix_of_execution_order(self, steps):
    """`steps` are the first len(steps) steps of: setup, act, before-assert, assert, cleanup --
    each with the one shared executor / table"""
    ok = len(steps) <= 5
    for k in range(min(len(steps), 5)):
        e = steps[k]
        if k == 1:
            ok = ok and e[0] == 'atc' and e[1]['self'] is self
        else:
            ok = ok and e[0] == 'phase' and e[1]['step'] is _ORDER[k] \
                 and e[1]['instruction_executor'] is self._validation_executor \
                 and e[1]['phase_contents'] is _phase_of(self._test_case, k)
    return ok


M.contract(P_PSV + ':SymbolsValidator.validate', params=dict(self=VALIDATOR), modifies=('self',),
           raises={PhaseStepFailureException: {
               'ensures': lambda self, exc, trace:
               # the failing step is the last one started, its failure is propagated unchanged, nothing follows
               len(_failures(trace)) == 1 and trace[-1] is _failures(trace)[0] and trace[-1][2] is exc
               and trace[-1][0] == _steps(trace)[-1][0] + ':raised'
               and _is_prefix_of_execution_order(self, _steps(trace))}},
           ensures={'all five phases, in execution order, with the one shared table; none of them failed':
                    lambda self, trace: len(_steps(trace)) == 5 and _failures(trace) == []
                    and _is_prefix_of_execution_order(self, _steps(trace)),
                    'closed': lambda self: _validator_invariant(self)},
           raises_only=())


# ------------------------------------------------------------------------------ type checks (restrictions)
# "every reference is checked against the type demanded by its context, transitively through the symbols
# it is built from".  The concrete restriction classes are proved to decide exactly:
#   direct     the value type of the referenced symbol is one of the accepted types
#   indirect   every symbol reachable through the references of the value satisfies the indirect restriction
#   or         the first part whose selector is the type of the symbol decides; no such part => failure

from contracts.common import recursive
from exactly_lib.symbol import value_type as vt_module
from exactly_lib.type_val_deps.sym_ref import restrictions as plain_restrictions
from exactly_lib.type_val_deps.sym_ref.w_str_rend_restrictions import reference_restrictions as rr
from exactly_lib.type_val_deps.sym_ref.w_str_rend_restrictions import value_restrictions as vr
from exactly_lib.type_val_deps.sym_ref.w_str_rend_restrictions.data_value_restriction import ValueRestriction

P_RR = 'exactly_lib.type_val_deps.sym_ref.w_str_rend_restrictions.reference_restrictions'
P_VR = 'exactly_lib.type_val_deps.sym_ref.w_str_rend_restrictions.value_restrictions'
P_PR = 'exactly_lib.type_val_deps.sym_ref.restrictions'


@M.check('value-type-maps')
def _value_type_maps(ctx):
    """The two enum maps of symbol/value_type.py: total on WithStrRenderingType, mutually inverse, name preserving."""
    w2v, v2w = vt_module.W_STR_RENDERING_TYPE_2_VALUE_TYPE, vt_module.VALUE_TYPE_2_W_STR_RENDERING_TYPE
    for t in WithStrRenderingType:
        ctx.obligation('W_STR_RENDERING_TYPE_2_VALUE_TYPE[%s] is the value type of the same name' % t.name,
                       t in w2v and w2v[t].name == t.name and v2w.get(w2v[t]) is t, 'enumeration')
    for v in ValueType:
        ok = (v in v2w and w2v[v2w[v]] is v) if v.name in WithStrRenderingType.__members__ else v not in v2w
        ctx.obligation('VALUE_TYPE_2_W_STR_RENDERING_TYPE at %s: inverse, defined exactly for the data types' % v.name,
                       ok, 'enumeration')
    ctx.obligation('VALUE_TYPES_W_STR_RENDERING == {STRING, PATH, LIST}',
                   set(vt_module.VALUE_TYPES_W_STR_RENDERING) == {ValueType.STRING, ValueType.PATH, ValueType.LIST},
                   'enumeration')


# error messages: outside the property (never None)
for _q, _params in (
        ('exactly_lib.symbol.err_msg.error_messages:invalid_type_msg',
         dict(expected_value_types=Any_, symbol_name=Str, container_of_actual=CONTAINER)),
):
    M.contract(_q, trusted=True, params=_params, returns=Any_)
M.trust('symbol.err_msg.error_messages.invalid_type_msg only builds a message object (never None); values in a '
        'symbol table are SymbolDependentValue:s (otherwise it raises TypeError)')


# --- direct restriction on with-str-rendering types

def _subsets(xs):
    out = [()]
    for x in xs:
        out = out + [s + (x,) for s in out]
    return out


_ACCEPTED = Union(*[Const(s) for s in _subsets(tuple(WithStrRenderingType))])     # full domain (order-insensitive)

M.contract(P_VR + ':ArbitraryValueWStrRenderingRestriction.__init__',
           params=dict(self=Inst(vr.ArbitraryValueWStrRenderingRestriction), accepted=_ACCEPTED), inline=True,
           ensures={'accepted value types are those of the same names': lambda self, accepted:
           [v.name for v in self._accepted] == [t.name for t in accepted] and self.accepted is accepted},
           raises_only=())


def _mk_arbitrary(interp, name):
    r = object.__new__(vr.ArbitraryValueWStrRenderingRestriction)
    acc = _ACCEPTED.make(interp, name + '.accepted')
    r._accepted__w_str_rendering = acc
    r._accepted = tuple(ValueType[t.name] for t in acc)      # established by __init__ (proved above)
    return r


ARBITRARY = Custom(_mk_arbitrary)

M.contract(P_VR + ':ArbitraryValueWStrRenderingRestriction.is_satisfied_by',
           params=dict(self=ARBITRARY, symbol_table=TABLE, symbol_name=Str, container=CONTAINER),
           returns=Opt(Any_),
           ensures={'satisfied iff the type of the symbol is one of the accepted types': lambda self, container, result:
           iff(result is None, any(t.name == container.value_type.name for t in self.accepted))},
           raises_only=())

# --- plain value-type restriction (matchers, programs, ...)

M.contract(P_PR + ':ValueTypeRestriction.is_satisfied_by',
           params=dict(self=Inst(plain_restrictions.ValueTypeRestriction, _expected=ListOf(EnumOf(ValueType))),
                       symbol_table=TABLE, symbol_name=Str, container=CONTAINER),
           returns=Opt(Any_),
           ensures={'satisfied iff the type of the symbol is one of the expected types': lambda self, container, result:
           iff(result is None, exists_range(0, len(self._expected),
                                            lambda j: self._expected[j] is container.value_type))},
           raises_only=())


# --- direct + indirect

def _value_is_satisfied_by(interp, self, args, kwargs):
    """ValueRestriction.is_satisfied_by: a deterministic function (ghost VSAT) of the restriction, the table and
    the name; does not change the table.  Proved for ArbitraryValueWStrRenderingRestriction above (which only
    looks at the container); PathAndRelativityRestriction resolves the path against the table (C12)."""
    table, name, container = (list(args) + [kwargs[k] for k in ('symbol_table', 'symbol_name', 'container')
                                            if k in kwargs])[:3]
    st = interp.st
    pre = interp.truth(interp.call(_asked_about_own_entry, [table, name, container], {}))
    st.oblige('%s : requires of ValueRestriction.is_satisfied_by (container is the table entry of the name)'
              % interp.current_function_name(), pre, {'kind': 'callee-pre'})
    st.assume(pre)
    r = Opt(Any_).make(interp, 'error')
    st.assume(interp.truth(interp.call(_vsat_result, [self, table, name, r], {})))
    return r


def _vsat_result(restriction, table, name, r):
    return iff(r is None, restriction.VSAT(view(table), name))


class ValueRestrictionI(Interface):
    target_class = ValueRestriction
    by_id = True
    methods = {'VSAT': Method(returns=Bool, pure=True),
               'is_satisfied_by': Method(model=_value_is_satisfied_by)}


VALUE_RESTRICTION = Iface(ValueRestrictionI)


def vsat(restriction, T, name):
    if is_opaque(restriction):
        return restriction.VSAT(T, name)
    return restriction.is_satisfied_by(SymbolTable(dict(T)), name, T[name]) is None


@recursive
def all_reachable_ok(indirect, T, refs):
    """every symbol reachable through the references satisfies the indirect restriction"""
    return forall_range(0, len(refs), lambda m: refs[m].name in T and vsat(indirect, T, refs[m].name)
                                                and all_reachable_ok(indirect, T, T[refs[m].name].sdv.references))


DIRECT_AND_INDIRECT = Inst(rr.ReferenceRestrictionsOnDirectAndIndirect, _direct=VALUE_RESTRICTION,
                           _indirect=Opt(VALUE_RESTRICTION), _meaning_of_failure_of_indirect_reference=Any_)
DIRECT_AND_SOME_INDIRECT = Inst(rr.ReferenceRestrictionsOnDirectAndIndirect, _direct=VALUE_RESTRICTION,
                                _indirect=VALUE_RESTRICTION, _meaning_of_failure_of_indirect_reference=Any_)

def _all_in(T, refs):
    return forall_range(0, len(refs), lambda m: refs[m].name in T)


M.contract(P_RR + ':ReferenceRestrictionsOnDirectAndIndirect._check_indirect',
           params=dict(self=DIRECT_AND_SOME_INDIRECT, symbol_table=TABLE, path_to_referring_symbol=ListOf(Str),
                       references=ListOf(REFERENCE)),
           requires=lambda symbol_table, references:
           closed(view(symbol_table)) and _all_in(view(symbol_table), references),
           returns=Opt(Any_),
           ensures={'none iff every reachable symbol satisfies the indirect restriction':
                    lambda self, symbol_table, references, result:
                    iff(result is None, all_reachable_ok(self._indirect, view(symbol_table), references))},
           raises_only=())

M.loop(P_RR + ':ReferenceRestrictionsOnDirectAndIndirect._check_indirect', 0,
       invariant=lambda _i, self, symbol_table, references:
       forall_range(0, _i, lambda m: references[m].name in view(symbol_table)
                                     and vsat(self._indirect, view(symbol_table), references[m].name)
                                     and all_reachable_ok(self._indirect, view(symbol_table),
                                                          view(symbol_table)[references[m].name].sdv.references)),
       modifies=dict(reference='local', container='local', result='local'))

M.contract(P_RR + ':ReferenceRestrictionsOnDirectAndIndirect.check_indirect',
           params=dict(self=DIRECT_AND_SOME_INDIRECT, symbol_table=TABLE, references=ListOf(REFERENCE)),
           requires=lambda symbol_table, references:
           closed(view(symbol_table)) and _all_in(view(symbol_table), references),
           returns=Opt(Any_),
           ensures={'none iff every reachable symbol satisfies the indirect restriction':
                    lambda self, symbol_table, references, result:
                    iff(result is None, all_reachable_ok(self._indirect, view(symbol_table), references))},
           raises_only=())

M.contract(P_RR + ':ReferenceRestrictionsOnDirectAndIndirect.is_satisfied_by',
           params=dict(self=DIRECT_AND_INDIRECT, symbol_table=TABLE, symbol_name=Str, container=CONTAINER),
           requires=lambda symbol_table, symbol_name, container:
           _asked_about_own_entry(symbol_table, symbol_name, container),
           returns=Opt(Any_),
           ensures={'satisfied iff direct restriction on the symbol and indirect restriction on all it is built from':
                    lambda self, symbol_table, symbol_name, container, result:
                    iff(result is None,
                        vsat(self._direct, view(symbol_table), symbol_name)
                        and (self._indirect is None
                             or all_reachable_ok(self._indirect, view(symbol_table), container.sdv.references)))},
           raises_only=())

M.assume('termination of _check_indirect is not verified: the reference graph of a validated table is acyclic '
         '(a definition only refers to symbols defined before it)')


# --- or-restrictions: the first part whose selector is the type of the symbol decides

class OrPartI(Interface):
    """OrRestrictionPart(selector, restriction); the restriction is a ReferenceRestrictionsOnDirectAndIndirect,
    used through the contract proved above (ghost SAT)."""
    target_class = rr.OrRestrictionPart
    attrs = {'selector': EnumOf(WithStrRenderingType), 'restriction': Iface(RestrictionsI)}


OR_RESTRICTIONS = Inst(rr.OrReferenceRestrictions, _parts=ListOf(Iface(OrPartI)),
                       _sym_name_and_container_2_err_msg_if_no_matching_part=Any_)

M.contract(P_RR + ':OrReferenceRestrictions._no_satisfied_restriction', trusted=True,
           params=dict(self=OR_RESTRICTIONS, symbol_name=Str, container=CONTAINER), returns=Any_)
M.trust('OrReferenceRestrictions._no_satisfied_restriction only builds a failure object (never None)')


def or_satisfied(parts, T, name, value_type):
    """the value type has a string rendering, some part selects it, and the first such part is satisfied"""
    if value_type.name not in WithStrRenderingType.__members__:
        return False
    w = WithStrRenderingType[value_type.name]
    return exists_range(0, len(parts), lambda j:
    parts[j].selector is w and forall_range(0, j, lambda m: parts[m].selector is not w)
    and sat(parts[j].restriction, T, name))


M.contract(P_RR + ':OrReferenceRestrictions.is_satisfied_by',
           params=dict(self=OR_RESTRICTIONS, symbol_table=TABLE, symbol_name=Str, container=CONTAINER),
           requires=lambda symbol_table, symbol_name, container:
           _asked_about_own_entry(symbol_table, symbol_name, container),
           returns=Opt(Any_),
           ensures={'the first part whose selector is the type of the symbol decides; none => failure':
                    lambda self, symbol_table, symbol_name, container, result:
                    iff(result is None, or_satisfied(self._parts, view(symbol_table), symbol_name,
                                                     container.value_type))},
           raises_only=())

M.loop(P_RR + ':OrReferenceRestrictions.is_satisfied_by', 0,
       invariant=lambda _i, self, type_w_str_rendering:
       forall_range(0, _i, lambda m: self._parts[m].selector is not type_w_str_rendering),
       modifies=dict(part='local'))


# ------------------------------------------------------------------------------ execution time: `def` puts the symbol into the table
# The execution-time table starts as a copy of the predefined symbols (_setup_post_sds_environment, contract in
# C11_settings.py shared with C11) and is handed to every main step (`two_instructions`, C11_settings.py).

from exactly_lib.impls.instructions.multi_phase.define_symbol import parser as def_parser
from exactly_lib.test_case.phases.instruction_environment import InstructionEnvironmentForPostSdsStep

P_DEF = 'exactly_lib.impls.instructions.multi_phase.define_symbol.parser'

DEF_EMBRYO = Inst(def_parser.TheInstructionEmbryo, symbol=DEFINITION)

M.contract(P_DEF + ':TheInstructionEmbryo.custom_main', params=dict(self=DEF_EMBRYO, symbols=TABLE),
           modifies=('symbols',), old=lambda symbols: dict(view(symbols)),
           ensures={'exactly (name -> container) is put into the table it is given': lambda self, symbols, old:
           view(symbols) == _with(old, self.symbol.name, self.symbol.symbol_container)},
           raises_only=())

M.contract(P_DEF + ':TheInstructionEmbryo.main',
           params=dict(self=DEF_EMBRYO,
                       environment=Inst(InstructionEnvironmentForPostSdsStep, _hds=Any_, _symbols=TABLE,
                                        _proc_exe_settings=Any_, _mem_buff_size=Int, _tmp_dir_space=Any_, _sds=Any_),
                       settings=Any_, os_services=Any_),
           modifies=('environment',), old=lambda environment: dict(view(environment.symbols)),
           ensures={'the symbol is put into the table of the environment (the execution-time table)':
                    lambda self, environment, old:
                    view(environment.symbols) == _with(old, self.symbol.name, self.symbol.symbol_container)},
           raises_only=())

M.contract(P_DEF + ':TheInstructionEmbryo.symbol_usages', params=dict(self=DEF_EMBRYO), inline=True,
           ensures={'reports exactly its definition': lambda self, result: len(result) == 1 and result[0] is self.symbol},
           raises_only=())


# ------------------------------------------------------------------------------ substitution
# "each reference evaluates to the defined value: strings by concatenation, lists by splicing in elements,
#  ..., a list inside a string joined by single spaces"
# Values are seen through `value_of_any_dependency(tcds)` for one arbitrary fixed tcds (the directories of the
# test case) -- and `value_when_no_dir_dependencies()`, which is the same computation without directories.

from exactly_lib.type_val_deps.types.string_ import string_sdv, string_sdv_impls, string_ddv, strings_ddvs
from exactly_lib.type_val_deps.types.list_ import list_sdv, list_ddv
from exactly_lib.type_val_deps.types.path.path_ddv import PathDdv
from exactly_lib.type_val_deps.dep_variants.sdv.w_str_rend.sdv_type import DataTypeSdv

P_SDVI = 'exactly_lib.type_val_deps.types.string_.string_sdv_impls'
P_SSDV = 'exactly_lib.type_val_deps.types.string_.string_sdv'
P_SDDV = 'exactly_lib.type_val_deps.types.string_.string_ddv'
P_SDDVS = 'exactly_lib.type_val_deps.types.string_.strings_ddvs'
P_LSDV = 'exactly_lib.type_val_deps.types.list_.list_sdv'
P_LDDV = 'exactly_lib.type_val_deps.types.list_.list_ddv'


class TcdsI(Interface):
    by_id = True


TCDS = Iface(TcdsI)


class StringValueI(Interface):
    """anything with a string value: a StringDdv, a fragment of one"""
    methods = {'value_of_any_dependency': Method(returns=Str, pure=True),
               'value_when_no_dir_dependencies': Method(returns=Str, pure=True)}


class StringDdvI(StringValueI):
    target_class = string_ddv.StringDdv


class FragmentDdvI(StringValueI):
    target_class = string_ddv.StringFragmentDdv


class PathValueI(Interface):
    """a pathlib.Path: known through its str()"""
    methods = {'__str__': Method(returns=Str, pure=True)}


class PathDdvI(Interface):
    target_class = PathDdv
    methods = {'value_of_any_dependency': Method(returns=Iface(PathValueI), pure=True),
               'value_when_no_dir_dependencies': Method(returns=Iface(PathValueI), pure=True)}


class ListDdvI(Interface):
    target_class = list_ddv.ListDdv
    attrs = {'string_elements': ListOf(Iface(StringDdvI))}
    methods = {'value_of_any_dependency': Method(returns=ListOf(Str), pure=True),
               'value_when_no_dir_dependencies': Method(returns=ListOf(Str), pure=True)}


# --- joining

def _space_join(state, x):
    """(started, text) -> (True, text + [' ' if started] + x)"""
    return (True, (state[1] + ' ' + x) if state[0] else x)


def joined_by_single_spaces(xs):
    return prefix_fold(_space_join, (False, ''), xs, len(xs))[1]


def _cat_value(acc, fragment, tcds):
    return acc + fragment.value_of_any_dependency(tcds)


def _cat_value_no_deps(acc, fragment):
    return acc + fragment.value_when_no_dir_dependencies()


M.trust('str.join over a sequence of unknown length: the Python loop in pyvc/pymodels/str_model.py')

# --- the fragments of a resolved string

_CONST_FRAGMENT = Inst(strings_ddvs.ConstantFragmentDdv, string_constant=Str)

M.contract(P_SDDVS + ':ConstantFragmentDdv.value_of_any_dependency', params=dict(self=_CONST_FRAGMENT, tcds=TCDS),
           inline=True, ensures={'the constant': lambda self, result: result == self.string_constant}, raises_only=())
M.contract(P_SDDVS + ':ConstantFragmentDdv.value_when_no_dir_dependencies', params=dict(self=_CONST_FRAGMENT),
           inline=True, ensures={'the constant': lambda self, result: result == self.string_constant}, raises_only=())

_STRING_FRAGMENT = Inst(strings_ddvs.StringDdvFragmentDdv, value=Iface(StringDdvI))
_LIST_FRAGMENT = Inst(strings_ddvs.ListFragmentDdv, value=Iface(ListDdvI))
_PATH_FRAGMENT = Inst(strings_ddvs.PathFragmentDdv, value=Iface(PathDdvI))


def rendering(fragment, tcds):
    """the string a symbol contributes to a string it is referenced from"""
    v = fragment.value.value_of_any_dependency(tcds)
    if isinstance(fragment, strings_ddvs.StringDdvFragmentDdv):
        return v
    if isinstance(fragment, strings_ddvs.ListFragmentDdv):
        return joined_by_single_spaces(v)
    return str(v)


M.contract(P_SDDVS + ':_StringFragmentDdvFromDirDependentValue.value_of_any_dependency',
           params=dict(self=Union(_STRING_FRAGMENT, _LIST_FRAGMENT, _PATH_FRAGMENT), tcds=TCDS), returns=Str,
           ensures={'string: itself; list: elements joined by single spaces; path: str of the path':
                    lambda self, tcds, result: result == rendering(self, tcds)},
           raises_only=())

M.loop(P_SDDVS + ':ListFragmentDdv._to_string', 'join#0',
       invariant=lambda _i, _xs, acc, first:
       iff(first, _i == 0) and (first or acc == prefix_fold(_space_join, (False, ''), _xs, _i)[1])
       and (not first or acc == ''),
       modifies=dict(acc=Str, first=Bool, element='local'))

# --- a symbol reference inside a string


def _sdv_resolve(interp, self, args, kwargs):
    """SymbolDependentValue.resolve(symbols) of a data value: a StringDdv, a PathDdv or a ListDdv (environment)"""
    k = interp.st.choose(3)
    r = new_opaque(interp, (StringDdvI, PathDdvI, ListDdvI)[k], 'resolved')
    interp.st.emit('resolved', self, args[0], r)
    return r


class DataSdvI(SdvI):
    methods = {'resolve': Method(model=_sdv_resolve)}


class DataContainerI(ContainerI):
    attrs = {'sdv': Iface(DataSdvI)}


DATA_TABLE = Inst(SymbolTable, _key_2_value=MapOf(Str, Iface(DataContainerI)))


def _resolved(trace):
    return [e for e in trace if e[0] == 'resolved'][0]


M.contract(P_SDVI + ':SymbolStringFragmentSdv.resolve',
           params=dict(self=Inst(string_sdv_impls.SymbolStringFragmentSdv, _symbol_reference=REFERENCE),
                       symbols=DATA_TABLE),
           cover=('Not a {}',),      # closed world of data values: string, path, list (model of DataSdvI.resolve)
           requires=lambda self, symbols: self._symbol_reference.name in view(symbols),     # validated: ref_ok
           ensures={
               'the value of the referenced symbol, resolved against the same table': lambda self, symbols, trace:
               len([e for e in trace if e[0] == 'resolved']) == 1 and _resolved(trace)[2] is symbols
               and _resolved(trace)[1] is view(symbols)[self._symbol_reference.name].sdv,
               'rendered according to its type': lambda result, trace:
               result.value is _resolved(trace)[3] and type(result) is (
                   strings_ddvs.StringDdvFragmentDdv if isinstance(_resolved(trace)[3], string_ddv.StringDdv) else
                   strings_ddvs.PathFragmentDdv if isinstance(_resolved(trace)[3], PathDdv) else
                   strings_ddvs.ListFragmentDdv),
           }, raises_only=())

M.contract(P_SDVI + ':ConstantStringFragmentSdv.resolve',
           params=dict(self=Inst(string_sdv_impls.ConstantStringFragmentSdv, _constant=Str), symbols=Any_),
           inline=True,
           ensures={'the constant': lambda self, result:
           type(result) is strings_ddvs.ConstantFragmentDdv and result.string_constant == self._constant},
           raises_only=())


# --- a string = its fragments, resolved one by one and concatenated in order

class FragmentSdvI(Interface):
    target_class = string_sdv.StringFragmentSdv
    methods = {'resolve': Method(returns=Iface(FragmentDdvI), pure=True)}


M.contract(P_SSDV + ':StringSdv.resolve',
           params=dict(self=Inst(string_sdv.StringSdv, _fragment_sdvs=ListOf(Iface(FragmentSdvI))), symbols=Any_),
           ensures={'one resolved fragment per fragment, in order, resolved against the given table':
                    lambda self, symbols, result:
                    type(result) is string_ddv.StringDdv and len(result.fragments) == len(self._fragment_sdvs)
                    and forall_range(0, len(self._fragment_sdvs),
                                     lambda j: result.fragments[j] is self._fragment_sdvs[j].resolve(symbols))},
           raises_only=())

_STRING_DDV = Inst(string_ddv.StringDdv, _fragments=ListOf(Iface(FragmentDdvI)))

M.contract(P_SDDV + ':StringDdv.value_of_any_dependency', params=dict(self=_STRING_DDV, tcds=TCDS), returns=Str,
           ensures={'the concatenation of the values of the fragments, in order': lambda self, tcds, result:
           result == prefix_fold(_cat_value, '', self._fragments, len(self._fragments), tcds)},
           raises_only=())
M.loop(P_SDDV + ':StringDdv.value_of_any_dependency', 'join#0',
       invariant=lambda _i, acc, first, self, tcds:
       iff(first, _i == 0) and acc == prefix_fold(_cat_value, '', self._fragments, _i, tcds),
       modifies=dict(acc=Str, first=Bool, element='local'))

M.contract(P_SDDV + ':StringDdv.value_when_no_dir_dependencies', params=dict(self=_STRING_DDV), returns=Str,
           ensures={'the concatenation of the values of the fragments, in order': lambda self, result:
           result == prefix_fold(_cat_value_no_deps, '', self._fragments, len(self._fragments))},
           raises_only=())
M.loop(P_SDDV + ':StringDdv.value_when_no_dir_dependencies', 'join#0',
       invariant=lambda _i, acc, first, self:
       iff(first, _i == 0) and acc == prefix_fold(_cat_value_no_deps, '', self._fragments, _i),
       modifies=dict(acc=Str, first=Bool, element='local'))


# --- lists: a referenced list is spliced in, anything else is one element

_REF_ELEMENT = Inst(list_sdv.SymbolReferenceElementSdv, _symbol_reference=REFERENCE)

M.contract(P_LSDV + ':SymbolReferenceElementSdv.resolve', params=dict(self=_REF_ELEMENT, symbols=DATA_TABLE),
           cover=('Unknown Symbol Value',),      # closed world of data values: string, path, list
           requires=lambda self, symbols: self._symbol_reference.name in view(symbols),     # validated: ref_ok
           ensures={
               'the value of the referenced symbol, resolved against the same table': lambda self, symbols, trace:
               len([e for e in trace if e[0] == 'resolved']) == 1 and _resolved(trace)[2] is symbols
               and _resolved(trace)[1] is view(symbols)[self._symbol_reference.name].sdv,
               'string: one element, the string itself': lambda result, trace:
               implies(isinstance(_resolved(trace)[3], string_ddv.StringDdv),
                       len(result) == 1 and result[0] is _resolved(trace)[3]),
               'list: its elements, in order (spliced in)': lambda result, trace:
               (not isinstance(_resolved(trace)[3], list_ddv.ListDdv)) or (
                       len(result) == len(_resolved(trace)[3].string_elements)
                       and forall_range(0, len(result), lambda k: result[k] is _resolved(trace)[3].string_elements[k])),
               'path: one element, the path as a string': lambda result, trace:
               (not isinstance(_resolved(trace)[3], PathDdv)) or (
                       len(result) == 1 and type(result[0]) is string_ddv.StringDdv and len(result[0].fragments) == 1
                       and type(result[0].fragments[0]) is strings_ddvs.PathFragmentDdv
                       and result[0].fragments[0].value is _resolved(trace)[3]),
           }, raises_only=())


class StringSdvI(Interface):
    target_class = string_sdv.StringSdv
    methods = {'resolve': Method(returns=Iface(StringDdvI), event='string-resolved')}


M.contract(P_LSDV + ':StringElementSdv.resolve',
           params=dict(self=Inst(list_sdv.StringElementSdv, _string_sdv=Iface(StringSdvI)), symbols=Any_), inline=True,
           ensures={'one element: the string, resolved against the given table': lambda self, symbols, result, trace:
           len(result) == 1 and result[0] is [e[2] for e in trace if e[0] == 'string-resolved:returned'][0]
           and [e[2][0] for e in trace if e[0] == 'string-resolved'] == [symbols]},
           raises_only=())

M.contract(P_LDDV + ':ListDdv.value_of_any_dependency',
           params=dict(self=Inst(list_ddv.ListDdv, _string_elements=ListOf(Iface(StringDdvI))), tcds=TCDS),
           ensures={'the values of the elements, in order': lambda self, tcds, result:
           len(result) == len(self._string_elements)
           and forall_range(0, len(result), lambda k: result[k] == self._string_elements[k].value_of_any_dependency(tcds))},
           raises_only=())


# ListSdv.resolve accumulates the resolved elements with list.extend over pieces of unknown length (a mutable list
# of objects).  Extension L8: now PROVED for any number of elements with pieces of any length
# (contracts/C08b_list_flatmap.py, flat-map vocabulary `is_flat_concat`); the bounded stand-in below is kept as a
# labelled cross-check -- an end-to-end comparison of real string / list / path symbols against textual substitution.

@M.bounded('substitution: ListSdv.resolve / StringSdv.resolve against textual substitution')
def _bounded_substitution(ctx):
    import itertools
    import pathlib
    from exactly_lib.symbol.sdv_structure import container_of_builtin
    from exactly_lib.type_val_deps.types.path import path_ddvs, path_sdvs
    from exactly_lib.type_val_deps.types.string_ import string_sdvs
    from exactly_lib.type_val_deps.types.list_ import list_sdvs
    from exactly_lib.type_val_deps.sym_ref.w_str_rend_restrictions import reference_restrictions as r_
    from exactly_lib.tcfs.path_relativity import RelOptionType

    any_ = r_.is_any_type_w_str_rendering()
    abs_path = pathlib.Path('/abs/dir')
    # the symbols: two strings (one built from the other), two lists (one built from the other + a string), a path
    sym = SymbolTable()
    expected = {}

    def put(name, vt, sdv, value):
        sym.put(name, container_of_builtin(vt, sdv))
        expected[name] = value

    put('s1', ValueType.STRING, string_sdvs.str_constant('a b'), 'a b')
    put('s2', ValueType.STRING, string_sdvs.from_fragments([string_sdvs.str_fragment('<'),
                                                            string_sdvs.symbol_fragment(SymbolReference('s1', any_)),
                                                            string_sdvs.str_fragment('>')]), '<a b>')
    put('e', ValueType.STRING, string_sdvs.str_constant(''), '')
    put('p', ValueType.PATH, path_sdvs.constant(path_ddvs.absolute_path(abs_path)), abs_path)
    put('l0', ValueType.LIST, list_sdvs.from_elements([]), [])
    put('l1', ValueType.LIST, list_sdvs.from_str_constants(['x', 'y z']), ['x', 'y z'])
    put('l2', ValueType.LIST, list_sdvs.from_elements([list_sdvs.symbol_element(SymbolReference('l1', any_)),
                                                       list_sdvs.symbol_element(SymbolReference('s2', any_)),
                                                       list_sdvs.str_element('k')]), ['x', 'y z', '<a b>', 'k'])

    def as_text(name):
        v = expected[name]
        return ' '.join(v) if isinstance(v, list) else str(v)

    def as_elements(name):
        v = expected[name]
        return list(v) if isinstance(v, list) else [str(v)]

    names = sorted(expected)
    atoms = [('const', c) for c in ('', 'q', ' ')] + [('sym', n) for n in names]
    failures = []
    cases = 0
    for n in range(0, 4):
        for combo in itertools.product(atoms, repeat=n):
            cases += 1
            # a string made of these fragments
            frags = [string_sdvs.str_fragment(x) if k == 'const' else
                     string_sdvs.symbol_fragment(SymbolReference(x, any_)) for k, x in combo]
            actual = string_sdvs.from_fragments(frags).resolve(sym).value_when_no_dir_dependencies()
            want = ''.join(x if k == 'const' else as_text(x) for k, x in combo)
            if actual != want:
                failures.append({'input': 'string %r' % (combo,), 'expected': want, 'actual': actual})
            # a list made of these elements
            elems = [list_sdvs.str_element(x) if k == 'const' else
                     list_sdvs.symbol_element(SymbolReference(x, any_)) for k, x in combo]
            actual = list_sdvs.from_elements(elems).resolve(sym).value_when_no_dir_dependencies()
            want = [y for k, x in combo for y in ([x] if k == 'const' else as_elements(x))]
            if actual != want:
                failures.append({'input': 'list %r' % (combo,), 'expected': want, 'actual': actual})
    ctx.bounded_result('ListSdv.resolve / StringSdv.resolve', 'sequences of <= 3 fragments/elements over 3 constants '
                       'and 7 symbols (strings, lists, path; direct and indirect)', cases, True, failures)


# --- the two standard restrictions

M.contract(P_RR + ':is_any_type_w_str_rendering', params=dict(), inline=True,
           ensures={'direct: any of STRING, PATH, LIST; no indirect restriction': lambda result:
           type(result) is rr.ReferenceRestrictionsOnDirectAndIndirect and result.indirect is None
           and type(result.direct) is vr.ArbitraryValueWStrRenderingRestriction
           and set(result.direct.accepted) == set(WithStrRenderingType)
           and set(result.direct._accepted) == {ValueType.STRING, ValueType.PATH, ValueType.LIST}},
           raises_only=())

M.contract(P_RR + ':is_string__all_indirect_refs_are_strings', params=dict(meaning_of_failure_of_indirect_reference=Any_),
           inline=True,
           ensures={'direct: STRING; indirect: STRING': lambda result:
           type(result) is rr.ReferenceRestrictionsOnDirectAndIndirect
           and type(result.direct) is vr.ArbitraryValueWStrRenderingRestriction
           and type(result.indirect) is vr.ArbitraryValueWStrRenderingRestriction
           and tuple(result.direct._accepted) == (ValueType.STRING,)
           and tuple(result.indirect._accepted) == (ValueType.STRING,)},
           raises_only=())


@M.check('builtin-symbols-closed')
def _builtin_symbols_closed(ctx):
    """The predefined symbols of the program satisfy the precondition of SymbolsValidator: closed under references."""
    from exactly_lib.cli_default.program_modes.test_case import builtin_symbols
    table = {b.name: b.container for b in builtin_symbols.ALL}
    ctx.obligation('the builtin symbols are closed under references (%d symbols)' % len(table), closed(table),
                   'enumeration', detail={'names': sorted(table)})
    ctx.obligation('builtin symbol names are distinct', len(table) == len(builtin_symbols.ALL), 'enumeration')


# ====================================================================================== string or bare reference
# "substituted faithfully": a list symbol referenced from within a string (`"@[l]@"`, `x@[l]@`) is its elements
# joined by a space, while a BARE reference in a list (`@[l]@`) splices the elements in.  Which of the two a token
# is, is decided by `SymbolReferenceOrStringParser.parse`: only a plain (unquoted) token that is exactly one
# reference is a bare reference.  That function is under contract in C09 (string syntax); the contract carries C08
# too and is re-proved by this check.  (After the seeded change C08-s3, which treated `"@[l]@"` as a bare reference.)

def _share_string_or_reference():
    from contracts.common import share_contracts
    share_contracts('C08', 'contracts.C09_strings',
                    lambda q: q.endswith(':SymbolReferenceOrStringParser.parse'))
    # (parse_fragments_from_token, with its two listed findings on mixed quoting, stays with C09)


    # "each reference evaluates to the defined value" presupposes that the references of a string are found:
    # symbol_syntax.split / _find_symbol_reference / _extract_fragment are under contract in C09 (conservation,
    # valid fragments, termination), "the reference found is the leftmost one" is its labelled bounded stand-in;
    # both carry C08 as well.  (After the seeded change C08-s5, which resumed the search two characters too far.)
    share_contracts('C08', 'contracts.C09_strings', lambda q: q.startswith('exactly_lib.symbol.symbol_syntax:'))


M.after_load = _share_string_or_reference
M.shared_checks = [('C09', 'symbol_syntax.split (leftmost references)')]
