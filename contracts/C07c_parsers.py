"""C07 (extension D7) -- the parsers of the phases that the bounded stand-in alone covered: ActPhaseParser.parse, ...
Verified at the document level of contracts/C07_document.py: the representation invariant of ParseSource is
uninterpreted, its mutators are used through their contracts.  See notes/C07.md, `Extension D7`."""
from pyvc.api import (Module, Interface, Method, Iface, Inst, Int, Nat, Bool, Str, Opt, OneOf, Const, ListOf, MListOf,
                      FixedList, Any_, Custom)
from contracts.common import implies, iff, forall_range, exists_range
from contracts.C07_document import (RI, NL, off_of, ls_of, has_line, line_fields_coherent, last_consumed_line, at_eof,
                                    is_header, PARSE_SOURCE, PS_FRAME, frame, LINE_SEQUENCE, P_ACT)

from exactly_lib.processing.parse import act_phase_source_parser as aps

M = Module('C07')
M.string_alignment = True

# ============================================================================== the act phase parser
# Property statement: the instructions of a phase are those on the lines that follow its header, up to the next
# header; every element carries the line number and the text of the lines it came from.  For [act]: ONE element,
# whose lines are the lines from the current one up to (not including) the next header line or the end, each
# un-escaped (see observation 3 of notes/C07.md: the element's text is the un-escaped text), first line number =
# number of the current line.  Stated line by line: the loop's step relation says what one iteration does; the
# postcondition what the induction gives (first and last line, as many lines as line numbers advanced).

P_ACT_PARSE = P_ACT + ':ActPhaseParser.parse'


def _act_inv(source, orig, lines_read, old):
    """old = (offset, line number, line text) at the call"""
    if not RI(source, orig):
        return False
    if not line_fields_coherent(source):
        return False
    if len(lines_read) < 1:
        return False
    if lines_read[0] != aps._un_escape(old[2]):
        return False
    if off_of(source, orig) < old[0]:
        return False
    if has_line(source):
        if source._column_index != 0:
            return False
        if source._current_line_number != old[1] + len(lines_read):
            return False
    if lines_read[len(lines_read) - 1] != aps._un_escape(last_consumed_line(orig, source)):
        return False
    return forall_range(0, len(lines_read), lambda j: NL not in lines_read[j])


def _act_step(source, orig, lines_read, pre):
    """one iteration: the current line, which is not a header, is consumed and appended un-escaped; the lines read
    before are kept.  pre = (lines read, text, number of the current line)"""
    n = len(pre[0])
    return len(lines_read) == n + 1 \
        and forall_range(0, n, lambda j: lines_read[j] == pre[0][j]) \
        and lines_read[n] == aps._un_escape(pre[1]) \
        and (not is_header(pre[1])) \
        and last_consumed_line(orig, source) == pre[1] \
        and ((not has_line(source)) or source._current_line_number == pre[2] + 1)


M.contract(P_ACT_PARSE,
           params=dict(self=Inst(aps.ActPhaseParser), fs_location_info=Any_, source=PARSE_SOURCE),
           ghosts=dict(orig=Str),
           requires=lambda source, orig: RI(source, orig) and has_line(source) and line_fields_coherent(source),
           old=lambda source, orig: (off_of(source, orig), source._current_line_number, source._current_line_text),
           modifies=frame(source=PS_FRAME),
           ensures={
               'RI-moved-forward-at-a-line-start-or-no-current-line': lambda source, orig, old:
               RI(source, orig) and off_of(source, orig) >= old[0]
               and ((not has_line(source)) or source._column_index == 0),
               'stops-at-the-end-or-at-a-header': lambda source:
               at_eof(source) or is_header(source._current_line_text),
               'first-line-number-is-that-of-the-current-line': lambda result, old:
               result.source.first_line_number == old[1],
               'first-line-is-the-current-line-un-escaped': lambda result, old:
               len(result.source.lines) >= 1 and result.source.lines[0] == aps._un_escape(old[2]),
               'as-many-lines-as-line-numbers-advanced': lambda result, source, old:
               (not has_line(source)) or source._current_line_number == old[1] + len(result.source.lines),
               'the-last-line-is-the-line-before-the-new-position-un-escaped': lambda result, source, orig:
               result.source.lines[len(result.source.lines) - 1] == aps._un_escape(last_consumed_line(orig, source)),
               'no-line-contains-a-newline': lambda result:
               forall_range(0, len(result.source.lines), lambda j: NL not in result.source.lines[j]),
               'the-instruction-is-that-source-code-without-description': lambda result:
               result.instruction_info.instruction.source_code() is result.source
               and result.instruction_info.description is None,
           }, raises_only=())
M.loop(P_ACT_PARSE, 0,
       invariant=lambda source, orig, lines_read, old: _act_inv(source, orig, lines_read, old),
       pre=lambda source, lines_read: (list(lines_read), source._current_line_text, source._current_line_number),
       step=lambda source, orig, lines_read, pre: _act_step(source, orig, lines_read, pre),
       modifies={'source._column_index': Int, 'source.source_string': Str,
                 'source._current_line_number': Opt(Int), 'source._current_line_text': Opt(Str),
                 'lines_read': MListOf(Str), 'current_line': 'local'})


# ============================================================================== test_case_parser.Parser.apply
# Property statement: "the instructions of each phase are exactly those on the lines that follow a header of that
# phase".  The document parser gives a Document (section name -> elements; contracts/C07_document.py up to
# build_document); Parser.apply makes the TestCase from it: each phase gets the elements of the section that has the
# NAME OF THAT PHASE (read from test_case.phase_identifier), an absent section is an empty phase, and the document
# is the one parsed from the given file path and source.  The document parser and the document are opaque here.

from pyvc.interp import PyRaise
from exactly_lib.processing.parse import test_case_parser
from exactly_lib.processing.test_case_processing import TestCaseFileReference
from exactly_lib.section_document import model as _model
from exactly_lib.section_document.document_parser import DocumentParser
from exactly_lib.test_case import phase_identifier, test_case_doc

P_TCP = 'exactly_lib.processing.parse.test_case_parser'
P_TCD = 'exactly_lib.test_case.test_case_doc'


class SectionElementI(Interface):
    """an element of a section of a parsed document (environment of Parser.apply)"""
    target_class = _model.SectionContentElement
    attrs = {'element_type': Any_, 'instruction_info': Any_}


class SectionContentsI(Interface):
    target_class = _model.SectionContents
    attrs = {'elements': ListOf(Iface(SectionElementI))}


class DocumentI(Interface):
    target_class = _model.Document
    methods = {'elements_for_section_or_empty_if_phase_not_present':
               Method(returns=Iface(SectionContentsI), pure=True)}


def _document_parser_parse_source(interp, self, args, kwargs):
    """environment: any exception, or some document; ghost: what it was called with and what it returned"""
    st = interp.st
    st.ghost['parse-source-calls'] = st.ghost.get('parse-source-calls', 0) + 1
    st.ghost['parsed-path'], st.ghost['parsed-source'] = args[0], args[1]
    if st.choose(2) == 1:
        from contracts.C07_document import PARSER_EXCEPTION
        raise PyRaise(PARSER_EXCEPTION.make(interp, 'exc'))
    doc = Iface(DocumentI).make(interp, 'document')
    st.ghost['document'] = doc
    return doc


class DocumentParserI(Interface):
    target_class = DocumentParser
    methods = {'parse_source': Method(model=_document_parser_parse_source)}


M.contract(P_TCD + ':TestCase._TestCase__assert_instruction_class',
           params=dict(phase_contents=Iface(SectionContentsI), instruction_class=Any_),
           may_raise=(AssertionError,), ensures={}, raises_only=(), cover=False)
for _qn in ('TestCase._TestCase__assert_instruction_class', 'TestCase.__assert_instruction_class'):
    # (the contract is found through the mangled attribute name, the loop through the function's __qualname__)
    M.loop(P_TCD + ':' + _qn, 0, invariant=lambda _i: _i >= 0, modifies=dict(element='local'))

PHASES_IN_ORDER = (phase_identifier.CONFIGURATION, phase_identifier.SETUP, phase_identifier.ACT,
                   phase_identifier.BEFORE_ASSERT, phase_identifier.ASSERT, phase_identifier.CLEANUP)


def _phase_contents(result):
    return (result.configuration_phase, result.setup_phase, result.act_phase, result.before_assert_phase,
            result.assert_phase, result.cleanup_phase)


def _each_phase_is_the_section_of_its_name(result, document):
    return all(_phase_contents(result)[k]
               is document.elements_for_section_or_empty_if_phase_not_present(PHASES_IN_ORDER[k].section_name)
               for k in range(len(PHASES_IN_ORDER)))


M.contract(P_TCP + ':Parser.apply',
           params=dict(self=Inst(test_case_parser.Parser, _Parser__section_document_parser=Iface(DocumentParserI)),
                       test_case=Inst(TestCaseFileReference, _TestCaseFileReference__file_path=Any_,
                                      _TestCaseFileReference__path_relativity_root_dir=Any_),
                       test_case_source=PARSE_SOURCE),
           modifies={'ghost:parse-source-calls': Int, 'ghost:parsed-path': Any_, 'ghost:parsed-source': Any_,
                     'ghost:document': Any_},
           setup=lambda interp, args, ghosts: interp.st.ghost.update({'parse-source-calls': 0}),
           may_raise=(AssertionError,),
           raises={Iface(__import__('contracts.C07_document', fromlist=['x']).ParserExceptionI): {}},
           ensures={
               'the-document-is-parsed-once-from-the-file-and-source-given': lambda test_case, test_case_source, ghost:
               ghost['parse-source-calls'] == 1 and ghost['parsed-path'] is test_case.file_path
               and ghost['parsed-source'] is test_case_source,
               'each-phase-has-the-elements-of-the-section-with-the-name-of-that-phase (absent: empty)':
                   lambda result, ghost: _each_phase_is_the_section_of_its_name(result, ghost['document']),
           }, raises_only=())


# ============================================================================== the parser for a dictionary of instructions
# Property statement: "unknown phase / instruction is a syntax error at that line".  _lookup_parser: a name that is not
# in the dictionary is an UnknownInstructionException (an UnrecognizedSectionElementSourceError: the document parser
# turns it into a FileSourceError about the current line, see parse_element_at_current_line... in C07_document.py)
# carrying the number and text of the given line and the name; otherwise the parser registered for the name.
# _extract_name: whatever the name extractor does wrong is an InvalidInstructionSyntaxException about the current
# line, and the source is not touched (frame).  Proved for dictionaries over any subset of two names (the lookup
# treats every key alike); the extractor and the instruction parsers are the environment.
# NOT under contract: InstructionParserForDictionaryOfInstructions.parse / _parse / _ErrMsgSourceConstructor (error
# source of a failing instruction parser: rstrip() and split of the consumed text) -- bounded stand-in only.

from contracts.C07_document import InstructionParserI, LINE, unchanged, snap
from exactly_lib.section_document.element_parsers import parser_for_dictionary_of_instructions as pfd
from exactly_lib.section_document.element_parsers.instruction_parser_exceptions import (
    UnknownInstructionException, InvalidInstructionSyntaxException)

P_PFD = 'exactly_lib.section_document.element_parsers.parser_for_dictionary_of_instructions'
P_PFD_P = P_PFD + ':InstructionParserForDictionaryOfInstructions'
NAMES2 = ('A', 'B')


def _mk_instruction_dict(interp, name):
    d = {}
    for k in NAMES2:
        if interp.st.choose(2) == 1:
            d[k] = Iface(InstructionParserI).make(interp, '%s[%s]' % (name, k))
    return d


def _name_extractor_call(interp, self, args, kwargs):
    """environment: raises anything, returns something that is not a string, or returns a string"""
    st = interp.st
    st.ghost['extractor-argument'] = args[0]
    k = st.choose(3)
    if k == 0:
        from contracts.C07_document import PARSER_EXCEPTION
        raise PyRaise(PARSER_EXCEPTION.make(interp, 'exc'))
    if k == 1:
        return None
    r = Str.make(interp, 'extracted-name')
    st.ghost['extracted-name'] = r
    return r


class NameExtractorI(Interface):
    methods = {'__call__': Method(model=_name_extractor_call)}


DICT_PARSER = Inst(pfd.InstructionParserForDictionaryOfInstructions,
                   _InstructionParserForDictionaryOfInstructions__instruction_name__2__single_instruction_parser=
                   Custom(_mk_instruction_dict),
                   _instruction_name_extractor_function=Iface(NameExtractorI))


def _instructions_of(self):
    return self._InstructionParserForDictionaryOfInstructions__instruction_name__2__single_instruction_parser


def _is_the_single_line(line_sequence, number, text):
    return line_sequence.first_line_number == number and len(line_sequence.lines) == 1 \
        and line_sequence.lines[0] == text


M.contract(P_PFD_P + '._lookup_parser',
           params=dict(self=DICT_PARSER, original_source_line=LINE, name=Str),
           raises={UnknownInstructionException: {
               'when': lambda self, name: name not in _instructions_of(self),
               'ensures': lambda exc, original_source_line, name:
               _is_the_single_line(exc.source, original_source_line.line_number, original_source_line.text)
               and exc.instruction_name == name}},
           ensures={'the-parser-registered-for-the-name': lambda self, name, result: result is _instructions_of(self)[name]},
           raises_only=())

M.contract(P_PFD_P + '._extract_name',
           params=dict(self=DICT_PARSER, source=PARSE_SOURCE), ghosts=dict(orig=Str),
           requires=lambda source, orig: RI(source, orig) and has_line(source) and line_fields_coherent(source),
           old=lambda source: snap(source),
           modifies={'ghost:extractor-argument': Any_, 'ghost:extracted-name': Any_},
           raises={InvalidInstructionSyntaxException: {
               'ensures': lambda exc, source, old:
               _is_the_single_line(exc.source, source._current_line_number, source._current_line_text)}},
           ensures={
               'the-string-the-extractor-returned-for-the-rest-of-the-current-line': lambda source, result, ghost:
               result is ghost['extracted-name']
               and ghost['extractor-argument'] == source._current_line_text[source._column_index:],
           }, raises_only=())


# ============================================================================== the including directive
# Property statement: "the contents of an included file [are] spliced in at the place of the including directive";
# every element and error carries the number and text of the line it came from.  FileInclusionDirectiveParser.parse:
# a line that is not a directive (None) consumes nothing -- what the sequence of parsers relies on; a directive is ONE
# line: exactly the current line is consumed, the element's source is that line (number and text), it names one file;
# a malformed directive is a RecognizedSectionElementSourceError about that line, raised after the line is consumed.
# Which lines are directives (str.split() at Unicode white space) is not specified here: the weak model of split() --
# any sequence of strings -- makes the clauses hold for every reading of the line; bounded stand-in for that.

import pathlib
from contracts.C07_document import PARSED_INCLUSION, PATH, consumed_some_line
from exactly_lib.processing.parse import file_inclusion_directive_parser as fidp
from exactly_lib.section_document.section_element_parsing import RecognizedSectionElementSourceError

P_FIDP = 'exactly_lib.processing.parse.file_inclusion_directive_parser:FileInclusionDirectiveParser.parse'

# pathlib.PurePosixPath(text) / pathlib.Path(pure path): the abstract pathlib of contracts/pathspec.py (one model of
# the pathlib constructors for all sidecar files of C07)
from contracts import pathspec
pathspec.install(M)


def _one_line_consumed(source, orig, old):
    """old = (snapshot, offset, number, text): the source has gone from the current line to the start of the next
    one (or to the end)"""
    return RI(source, orig) and off_of(source, orig) >= old[1] and consumed_some_line(source, old[2]) \
        and last_consumed_line(orig, source) == old[3] \
        and ((not has_line(source)) or (source._current_line_number == old[2] + 1 and source._column_index == 0))


M.contract(P_FIDP,
           params=dict(self=Inst(fidp.FileInclusionDirectiveParser, _directive_token=Str), fs_location_info=Any_,
                       source=PARSE_SOURCE),
           ghosts=dict(orig=Str),
           requires=lambda source, orig: RI(source, orig) and has_line(source) and line_fields_coherent(source),
           old=lambda source, orig: (snap(source), off_of(source, orig), source._current_line_number,
                                     source._current_line_text),
           modifies=frame(source=PS_FRAME),
           returns=Opt(PARSED_INCLUSION),
           raises={RecognizedSectionElementSourceError: {'ensures': lambda exc, source, orig, old:
                   _is_the_single_line(exc.source, old[2], old[3]) and _one_line_consumed(source, orig, old)}},
           ensures={
               'not-a-directive-consumes-nothing': lambda result, source, old:
               result is not None or unchanged(source, old[0]),
               'a-directive-is-the-current-line-and-exactly-that-line-is-consumed': lambda result, source, orig, old:
               result is None or (_is_the_single_line(result.source, old[2], old[3])
                                  and _one_line_consumed(source, orig, old)),
               'a-directive-names-one-file': lambda result: result is None or len(result.files_to_include) == 1,
           }, raises_only=())


# ============================================================================== the engine's model of s.split(ch) / del xs[-1]
# pyvc.mlist.split_all / _joins_without_last (used by the proof of parse_and_compute_source) state facts of CPython's
# str.split / str.join; here they are checked against CPython on all small strings.

@M.check('facts of the model of str.split(ch) and of removing the last item, against CPython')
def _split_model_facts(ctx):
    import itertools
    sep = '\n'
    bad = []
    n = 0
    for k in range(0, 7):
        for cs in itertools.product('a \n', repeat=k):
            s = ''.join(cs)
            xs = s.split(sep)
            n += 1
            ok = len(xs) == s.count(sep) + 1 and sep.join(xs) == s and all(sep not in x for x in xs) \
                and (s == xs[-1] if len(xs) == 1 else s.endswith(sep + xs[-1])) \
                and ((xs[-1] == '') == (s == '' or s.endswith(sep))) \
                and (len(xs) < 2 or sep.join(xs) == sep.join(xs[:-1]) + sep + xs[-1]) \
                and (len(xs) != 1 or (sep.join(xs[:-1]) == '' and sep.join(xs) == xs[-1]))
            if not ok:
                bad.append(s)
    ctx.obligation('split: count + 1 items without the separator, join gives the string back, the last item follows the '
                   'last separator; join of all but the last item', not bad, 'enumeration',
                   detail={'strings': n, 'failures': bad[:5]})
