"""C13 (second sentence) -- `filter -line-nums` keeps exactly the lines whose number lies in at least one
of the given ranges, negative numbers counting from the end, for texts of any length including the
empty text.  See DESIGN.md section 3 / C13, last bullet of "Functions under contract"; notes/C13b.md."""
from pyvc.api import (Module, Interface, Method, Iface, Inst, Int, Nat, Bool, Str, Opt, OneOf, Const, Union,
                      ListOf, MListOf, IterOf, FixedList, Any_, IntRange, Custom, new_opaque, assume_pred)
from contracts.common import implies, iff, forall_range, exists_range, is_opaque

from exactly_lib.impls.types.string_transformer.impl.filter.line_nums import range_expr, range_merge
from exactly_lib.impls.types.string_transformer.impl.filter.line_nums.range_expr import (
    SingleLineRange, LowerLimitRange, UpperLimitRange, LowerAndUpperLimitRange)

M = Module('C13')

P_RE = 'exactly_lib.impls.types.string_transformer.impl.filter.line_nums.range_expr'
P_RM = 'exactly_lib.impls.types.string_transformer.impl.filter.line_nums.range_merge'
P_TR = 'exactly_lib.impls.types.string_transformer.impl.filter.line_nums.transformers'
P_SRC = 'exactly_lib.impls.types.string_transformer.impl.filter.line_nums.sources'

# ------------------------------------------------------------------------------ the meaning of a written range
# From the manual (impl/filter/parse.py): INT "the single line number INT"; :INT "line numbers from 1 to INT
# (including)"; INT: "line numbers starting from INT"; INT:INT "from INT to INT (including)"; "negative numbers
# denote line numbers relative to the end: -1 is the last line number, -2 the second to last, etc."
# The first line number is 1; a text of N lines has the line numbers 1..N.

K_SINGLE, K_LOWER, K_UPPER, K_LOWER_UPPER = 0, 1, 2, 3


def line_no(k, N):
    """the line number that the written integer k denotes in a text of N lines"""
    return k if k >= 0 else N + 1 + k


def kind_of(r):
    if is_opaque(r):
        return r.kind
    if isinstance(r, SingleLineRange):
        return K_SINGLE
    if isinstance(r, LowerLimitRange):
        return K_LOWER
    if isinstance(r, UpperLimitRange):
        return K_UPPER
    if isinstance(r, LowerAndUpperLimitRange):
        return K_LOWER_UPPER
    raise ValueError('not a range')


def fst(r):
    """the (first) written integer of a range"""
    if is_opaque(r):
        return r.a
    if isinstance(r, SingleLineRange):
        return r.line_number
    if isinstance(r, LowerLimitRange):
        return r.lower_limit
    if isinstance(r, UpperLimitRange):
        return r.upper_limit
    return r.lower_limit


def snd(r):
    """the second written integer of `m:n` (for the other forms: the first one)"""
    if is_opaque(r):
        return r.b
    if isinstance(r, LowerAndUpperLimitRange):
        return r.upper_limit
    return fst(r)


def S_of(kind, a, b, N, n):
    """S(r, N) as a predicate on n, for the range of the given kind written with the integers a (and b)"""
    return 1 <= n and n <= N and (
            (kind == K_SINGLE and n == line_no(a, N))
            or (kind == K_LOWER and line_no(a, N) <= n)
            or (kind == K_UPPER and n <= line_no(a, N))
            or (kind == K_LOWER_UPPER and line_no(a, N) <= n and n <= line_no(b, N)))


def S(r, N, n):
    """n is one of the 1-based line numbers that the written range r denotes in a text of N lines"""
    return S_of(kind_of(r), fst(r), snd(r), N, n)


def has_neg(r):
    """the range is written with a negative integer"""
    return fst(r) < 0 or (kind_of(r) == K_LOWER_UPPER and snd(r) < 0)


SINGLE = Inst(SingleLineRange, line_number=Int)
LOWER = Inst(LowerLimitRange, lower_limit=Int)
UPPER = Inst(UpperLimitRange, upper_limit=Int)
LOWER_UPPER = Inst(LowerAndUpperLimitRange, lower_limit=Int, upper_limit=Int)
ANY_REAL_RANGE = Union(SINGLE, LOWER, UPPER, LOWER_UPPER)

_RANGE_FORMS = (('visit_single_line', SINGLE, SingleLineRange),
                ('visit_lower_limit', LOWER, LowerLimitRange),
                ('visit_upper_limit', UPPER, UpperLimitRange),
                ('visit_lower_and_upper_limit', LOWER_UPPER, LowerAndUpperLimitRange))

# ------------------------------------------------------------------------------ negative -> non-negative
# `_tr` maps a written integer to a non-negative one that denotes the same set of lines in every range form
# (a number before the first line is mapped to 0, which no form treats as a line number).

TRANSLATOR = Inst(range_merge._NegValuesTranslator, _num_lines=Nat)

M.contract(P_RM + ':_NegValuesTranslator._tr',
           params=dict(self=TRANSLATOR, n=Int), ghosts=dict(m=Int), returns=Int, inline=True,
           ensures={
               'as-designed': lambda self, n, result:
               result == (n if n >= 0 else max(0, self._num_lines + n + 1)),
               'non-negative': lambda result: result >= 0,
               # m: an arbitrary line number of the text
               'denotes-the-same-line-in-every-position': lambda self, n, m, result:
               implies(1 <= m and m <= self._num_lines,
                       iff(m == line_no(n, self._num_lines), m == line_no(result, self._num_lines))
                       and iff(m <= line_no(n, self._num_lines), m <= line_no(result, self._num_lines))
                       and iff(line_no(n, self._num_lines) <= m, line_no(result, self._num_lines) <= m)),
           }, raises_only=())

for _method, _shape, _cls in _RANGE_FORMS:
    M.contract('%s:_NegValuesTranslator.%s' % (P_RM, _method),
               params=dict(self=TRANSLATOR, x=_shape), ghosts=dict(n=Int, cls=Const(_cls)), returns=_shape,
               ensures={
                   'same-form': lambda result, cls: isinstance(result, cls),
                   'denotes-the-same-lines': lambda self, x, result, n:
                   iff(S(result, self._num_lines, n), S(x, self._num_lines, n)),
                   'no-negative-number-left': lambda result: not has_neg(result),
               }, raises_only=())

# ------------------------------------------------------------------------------ segments

PAIR = FixedList(Int, Int, as_tuple=True)


def seg_mem(x, n):
    """n lies in the segment (from, to)"""
    return x[0] <= n and n <= x[1]


M.contract(P_RM + ':_is_valid_segment', params=dict(x=PAIR), ghosts=dict(n=Int), returns=Bool, inline=True,
           ensures={
               'valid-iff-from-le-to': lambda x, result: iff(result, x[0] <= x[1]),
               'only-empty-segments-are-invalid': lambda x, n, result: implies(seg_mem(x, n), result),
           }, raises_only=())

M.contract(P_RM + ':_can_be_one', params=dict(first=PAIR, second=PAIR), ghosts=dict(n=Int), returns=Bool, inline=True,
           requires=lambda first, second: first[0] <= first[1] and second[0] <= second[1] and first[0] <= second[0],
           ensures={
               'merged-segment-is-the-union': lambda first, second, n, result:
               implies(result, iff(seg_mem(first, n) or seg_mem(second, n),
                                   seg_mem((first[0], max(first[1], second[1])), n))),
               'otherwise-a-line-number-lies-between': lambda first, second, result:
               implies(not result, first[1] + 1 < second[0]),
           }, raises_only=())

# ------------------------------------------------------------------------------ MergedRanges
# Denotation of a MergedRanges object, as its two consumers use it (`_model_for_non_negatives`,
# `_transform_method_for`): empty -> nothing; no head, no body, no tail -> everything; otherwise the union of
# (-oo, head], the body segments and [tail, +oo).

BODY = ListOf(PAIR)
MERGED = Inst(range_merge.MergedRanges, head=Opt(Int), body=BODY, tail=Opt(Int), is_empty=Bool)


def in_parts(head, body, tail, n):
    return (head is not None and n <= head) \
        or (tail is not None and tail <= n) \
        or exists_range(0, len(body), lambda k: seg_mem(body[k], n))


def merged_mem(m, n):
    return (not m.is_empty) and ((m.head is None and m.tail is None and len(m.body) == 0)
                                 or in_parts(m.head, m.body, m.tail, n))


M.contract(P_RM + ':MergedRanges.empty', params=dict(), ghosts=dict(n=Int), returns=MERGED, inline=True,
           ensures={'denotes-nothing': lambda result, n: not merged_mem(result, n),
                    'is-empty': lambda result: result.is_empty and not result.is_everything()}, raises_only=())

M.contract(P_RM + ':MergedRanges.everything', params=dict(), ghosts=dict(n=Int), returns=MERGED, inline=True,
           ensures={'denotes-every-number': lambda result, n: merged_mem(result, n),
                    'is-everything': lambda result: (not result.is_empty) and result.is_everything()},
           raises_only=())

M.contract(P_RM + ':MergedRanges.is_everything', params=dict(self=MERGED), ghosts=dict(n=Int), returns=Bool,
           inline=True,
           ensures={
               'exact': lambda self, result:
               iff(result, (not self.is_empty) and self.head is None and self.tail is None and len(self.body) == 0),
               'then-every-number-is-denoted': lambda self, n, result: implies(result, merged_mem(self, n)),
           }, raises_only=())

# ------------------------------------------------------------------------------ merging sorted segments
# Normal form of a list of segments: every segment non-empty, ascending, and between two consecutive
# segments lies at least one number that belongs to neither (disjoint and non-adjacent).


def all_valid(xs):
    return forall_range(0, len(xs), lambda k: xs[k][0] <= xs[k][1])


def separated(xs):
    """ascending, and between any two segments lies a number that belongs to neither"""
    return forall_range(0, len(xs), lambda j: forall_range(j + 1, len(xs), lambda k: xs[j][1] + 1 < xs[k][0]))


def normal_form(xs):
    return all_valid(xs) and separated(xs)


def in_some(xs, n):
    return exists_range(0, len(xs), lambda k: seg_mem(xs[k], n))


def in_some_before(xs, end, n):
    return exists_range(0, end, lambda k: seg_mem(xs[k], n))


def all_from_ge(xs, lo):
    return forall_range(0, len(xs), lambda k: xs[k][0] >= lo)


M.contract(P_RM + ':_merge_segments',
           params=dict(segments=ListOf(PAIR, min_len=1)), ghosts=dict(n=Int, lo=Int), returns=MListOf(PAIR),
           # call site (merge): the valid segments, sorted
           requires=lambda segments: all_valid(segments) and forall_range(
               0, len(segments) - 1, lambda j: segments[j][0] <= segments[j + 1][0]),
           ensures={
               'same-numbers': lambda segments, result, n: iff(in_some(result, n), in_some(segments, n)),
               'normal-form': lambda result: len(result) >= 1 and normal_form(result),
               'no-segment-starts-before-the-first-start': lambda segments, result, lo:
               implies(all_from_ge(segments, lo), all_from_ge(result, lo)),
           }, raises_only=())

M.loop(P_RM + ':_merge_segments', 0,
       invariant=lambda _i, segments, ret_val, current, n, lo:
       current[0] <= current[1]
       and (_i + 1 >= len(segments) or current[0] <= segments[_i + 1][0])
       and normal_form(ret_val)
       and forall_range(0, len(ret_val), lambda k: ret_val[k][1] + 1 < current[0])
       and iff(in_some(ret_val, n) or seg_mem(current, n), in_some_before(segments, _i + 1, n))
       and implies(all_from_ge(segments, lo), all_from_ge(ret_val, lo) and current[0] >= lo),
       modifies=dict(ret_val=MListOf(PAIR), current=PAIR, next_='local'))

# ------------------------------------------------------------------------------ merging with the head / the tail
# head `h` stands for (-oo, h], tail `t` for [t, +oo).  The segments are in normal form (result of
# _merge_segments); the segments that are not absorbed are appended to the (empty) output list.

M.contract(P_RM + ':_merge_head_to',
           params=dict(initial=Int, segments=ListOf(PAIR), non_merged__out__sorted=MListOf(PAIR)),
           ghosts=dict(n=Int), returns=Int, modifies=('non_merged__out__sorted',),
           requires=lambda segments, non_merged__out__sorted:
           normal_form(segments) and len(non_merged__out__sorted) == 0,
           old=lambda initial: initial,
           ensures={
               'same-numbers': lambda initial, segments, non_merged__out__sorted, n, result:
               iff(n <= result or in_some(non_merged__out__sorted, n), n <= initial or in_some(segments, n)),
               'head-only-grows': lambda initial, result: result >= initial,
               'the-rest-is-a-suffix-of-the-segments': lambda segments, non_merged__out__sorted:
               len(non_merged__out__sorted) <= len(segments)
               and forall_range(0, len(non_merged__out__sorted), lambda k:
               non_merged__out__sorted[k] == segments[len(segments) - len(non_merged__out__sorted) + k]),
               'the-rest-is-in-normal-form': lambda non_merged__out__sorted: normal_form(non_merged__out__sorted),
               'a-line-number-lies-between-the-head-and-the-rest': lambda non_merged__out__sorted, result:
               forall_range(0, len(non_merged__out__sorted), lambda k: result + 1 < non_merged__out__sorted[k][0]),
           }, raises_only=())

M.loop(P_RM + ':_merge_head_to', 0,
       invariant=lambda _i, initial, segments, non_merged__out__sorted, old, n:
       initial >= old
       and len(non_merged__out__sorted) <= _i
       and forall_range(0, len(non_merged__out__sorted), lambda k:
                        non_merged__out__sorted[k] == segments[_i - len(non_merged__out__sorted) + k])
       and forall_range(0, len(non_merged__out__sorted), lambda k: initial + 1 < non_merged__out__sorted[k][0])
       and iff(n <= initial or in_some(non_merged__out__sorted, n), n <= old or in_some_before(segments, _i, n)),
       modifies=dict(initial=Int, non_merged__out__sorted=MListOf(PAIR), from_to='local'))

M.contract(P_RM + ':_merge_tail_from',
           params=dict(initial=Int, segments=ListOf(PAIR), non_merged__out__sorted=MListOf(PAIR)),
           ghosts=dict(n=Int), returns=Int, modifies=('non_merged__out__sorted',),
           requires=lambda segments, non_merged__out__sorted:
           normal_form(segments) and len(non_merged__out__sorted) == 0,
           old=lambda initial: initial,
           ensures={
               'same-numbers': lambda initial, segments, non_merged__out__sorted, n, result:
               iff(result <= n or in_some(non_merged__out__sorted, n), initial <= n or in_some(segments, n)),
               'tail-only-grows': lambda initial, result: result <= initial,
               'tail-is-the-given-one-or-the-start-of-a-segment': lambda initial, segments, result:
               result == initial or exists_range(0, len(segments), lambda k: result == segments[k][0]),
               'the-rest-is-a-prefix-of-the-segments': lambda segments, non_merged__out__sorted:
               len(non_merged__out__sorted) <= len(segments)
               and forall_range(0, len(non_merged__out__sorted), lambda k:
               non_merged__out__sorted[k] == segments[k]),
               'the-rest-is-in-normal-form': lambda non_merged__out__sorted: normal_form(non_merged__out__sorted),
               'a-line-number-lies-between-the-rest-and-the-tail': lambda non_merged__out__sorted, result:
               forall_range(0, len(non_merged__out__sorted), lambda k: non_merged__out__sorted[k][1] + 1 < result),
           }, raises_only=())


def in_some_between(xs, start, end, n):
    return exists_range(start, end, lambda k: seg_mem(xs[k], n))


M.loop(P_RM + ':_merge_tail_from', 0,
       invariant=lambda _i, initial, segments, non_merged__out__sorted, old, n:
       initial <= old
       and (initial == old or exists_range(len(segments) - _i, len(segments), lambda k: initial == segments[k][0]))
       and len(non_merged__out__sorted) <= _i
       and forall_range(0, len(non_merged__out__sorted), lambda k:
                        non_merged__out__sorted[k] == segments[len(segments) - _i + k])
       and forall_range(0, len(non_merged__out__sorted), lambda k: non_merged__out__sorted[k][1] + 1 < initial)
       # (the members of the output list are described through the segments they are: no index shift by insert(0, .))
       and iff(initial <= n or in_some_between(segments, len(segments) - _i,
                                               len(segments) - _i + len(non_merged__out__sorted), n),
               old <= n or in_some_between(segments, len(segments) - _i, len(segments), n)),
       modifies=dict(initial=Int, non_merged__out__sorted=MListOf(PAIR), from_to='local'))

# ------------------------------------------------------------------------------ partitioning
# A Partitioning (head_to, segments, tail_from) denotes the union of (-oo, h] for h in head_to, the segments,
# and [t, +oo) for t in tail_from.  Every stored number is >= 1 (`wf_part`): that is what `merge` relies on.

PARTITIONING = Inst(range_merge.Partitioning, head_to=MListOf(Int), segments=MListOf(PAIR), tail_from=MListOf(Int))
PARTITIONER = Inst(range_merge._Partitioner, _o=PARTITIONING)
_P_MODIFIES = ('self._o.head_to', 'self._o.segments', 'self._o.tail_from')


def part_mem3(head_to, segments, tail_from, n):
    return exists_range(0, len(head_to), lambda k: n <= head_to[k]) \
        or in_some(segments, n) \
        or exists_range(0, len(tail_from), lambda k: tail_from[k] <= n)


def part_mem(p, n):
    return part_mem3(p.head_to, p.segments, p.tail_from, n)


def wf_part3(head_to, segments, tail_from):
    return forall_range(0, len(head_to), lambda k: head_to[k] >= 1) \
        and forall_range(0, len(segments), lambda k: segments[k][0] >= 1) \
        and forall_range(0, len(tail_from), lambda k: tail_from[k] >= 1)


def wf_part(p):
    return wf_part3(p.head_to, p.segments, p.tail_from)


def snapshot(p):
    return (p.head_to.copy(), p.segments.copy(), p.tail_from.copy())


def same_items(xs, old_xs):
    return len(xs) == len(old_xs) and forall_range(0, len(old_xs), lambda k: xs[k] == old_xs[k])


def extends(xs, old_xs):
    """xs is old_xs, possibly with one more item at the end"""
    return len(old_xs) <= len(xs) and len(xs) <= len(old_xs) + 1 \
        and forall_range(0, len(old_xs), lambda k: xs[k] == old_xs[k])


def same_range(r, x):
    return kind_of(r) == kind_of(x) and fst(r) == fst(x) and snd(r) == snd(x)


for _method, _shape, _cls in _RANGE_FORMS:
    M.contract('%s:_Partitioner.%s' % (P_RM, _method),
               params=dict(self=PARTITIONER, x=_shape), ghosts=dict(n=Int, N=Int, cls=Const(_cls)),
               returns=Opt(_shape), modifies=_P_MODIFIES,
               old=lambda self: snapshot(self._o),
               ensures={
                   'a-range-with-a-negative-number-is-returned-and-nothing-is-stored': lambda self, x, old, result:
                   implies(has_neg(x),
                           result is not None and same_range(result, x)
                           and same_items(self._o.head_to, old[0]) and same_items(self._o.segments, old[1])
                           and same_items(self._o.tail_from, old[2])),
                   'a-range-without-negative-number-is-not-returned': lambda x, result:
                   implies(not has_neg(x), result is None),
                   'stored-items-stay': lambda self, old:
                   extends(self._o.head_to, old[0]) and extends(self._o.segments, old[1])
                   and extends(self._o.tail_from, old[2]),
                   # n: an arbitrary line number of a text of N lines (N arbitrary): S is preserved on [1, oo)
                   'stored-with-the-same-line-numbers': lambda self, x, old, n, N:
                   implies(1 <= n and n <= N and not has_neg(x),
                           iff(part_mem(self._o, n), part_mem3(old[0], old[1], old[2], n) or S(x, N, n))),
                   'every-stored-number-is-a-line-number': lambda self, old:
                   implies(wf_part3(old[0], old[1], old[2]), wf_part(self._o)),
               }, raises_only=())

# ------------------------------------------------------------------------------ sequences of ranges
# A range object inside a sequence of symbolic length is known through its interface only: its form (`kind`)
# and the integers it is written with (`a`, and `b` for the form m:n).  `accept` dispatches on the form to the
# visitor's method for that form, called with a real range object with these integers; a range object that
# the visitor returns is taken by value (form and integers).  The four real classes are proved to dispatch
# like this ('accept-dispatches-to-the-method-of-the-form' below).
from pyvc.values import SOpt, SChoice  # noqa: E402


def _range_accept(interp, self, args, kwargs):
    visitor = args[0]
    kind = interp.getattr(self, 'kind')
    k = kind if isinstance(kind, int) else interp.st.choose(4, [kind.t == i for i in range(4)])
    method_name, _shape_, cls = _RANGE_FORMS[k]
    x = object.__new__(cls)
    if cls is SingleLineRange:
        x.line_number = interp.getattr(self, 'a')
    elif cls is LowerLimitRange:
        x.lower_limit = interp.getattr(self, 'a')
    elif cls is UpperLimitRange:
        x.upper_limit = interp.getattr(self, 'a')
    else:
        x.lower_limit = interp.getattr(self, 'a')
        x.upper_limit = interp.getattr(self, 'b')
    return _range_by_value(interp, interp.call(interp.getattr(visitor, method_name), [x], {}))


def _range_by_value(interp, r):
    if isinstance(r, (SOpt, SChoice)):
        r = interp.resolve(r)
    if isinstance(r, range_expr.Range):
        return new_opaque(interp, RangeI, 'range', preset={'kind': kind_of(r), 'a': fst(r), 'b': snd(r)})
    return r


class RangeI(Interface):
    target_class = range_expr.Range
    attrs = {'kind': IntRange(0, 3), 'a': Int, 'b': Int}
    methods = {'accept': Method(model=_range_accept)}


RANGES = ListOf(Iface(RangeI))
MRANGES = MListOf(Iface(RangeI))


class VisitorI(Interface):
    """any visitor: records which method is called with what"""
    target_class = range_expr.RangeVisitor
    methods = {name: Method(returns=Any_, event=name) for name, _s, _c in _RANGE_FORMS}


for _method, _shape, _cls in _RANGE_FORMS:
    M.contract('%s:%s.accept' % (P_RE, _cls.__name__),
               params=dict(self=_shape, visitor=Iface(VisitorI)), ghosts=dict(method=Const(_method)), inline=True,
               ensures={'accept-dispatches-to-the-method-of-the-form': lambda self, visitor, method, trace, result:
               len(trace) == 2 and trace[0][0] == method and trace[0][1] is visitor and len(trace[0][2]) == 1
               and trace[0][2][0] is self and trace[1][2] is result}, raises_only=())

assert [kind_of(object.__new__(c)) for _m, _s, c in _RANGE_FORMS] == [K_SINGLE, K_LOWER, K_UPPER, K_LOWER_UPPER]


def any_S(rs, end, N, n):
    """n is denoted by one of the first `end` ranges of rs, in a text of N lines"""
    return exists_range(0, end, lambda k: S(rs[k], N, n))


def none_neg(rs, end):
    return forall_range(0, end, lambda k: not has_neg(rs[k]))


def keeps_items(xs, old_xs):
    return len(old_xs) <= len(xs) and forall_range(0, len(old_xs), lambda k: xs[k] == old_xs[k])


def keeps_all_items(p, old):
    return keeps_items(p.head_to, old[0]) and keeps_items(p.segments, old[1]) and keeps_items(p.tail_from, old[2])


M.contract(P_RM + ':partition',
           params=dict(ranges=RANGES, output_of_non_neg_values=PARTITIONING), ghosts=dict(n=Int, N=Int),
           returns=MRANGES,
           modifies=('output_of_non_neg_values.head_to', 'output_of_non_neg_values.segments',
                     'output_of_non_neg_values.tail_from'),
           old=lambda output_of_non_neg_values: snapshot(output_of_non_neg_values),
           ensures={
               'returned-ranges-have-a-negative-number': lambda result:
               forall_range(0, len(result), lambda k: has_neg(result[k])),
               'nothing-returned-when-no-range-has-a-negative-number': lambda ranges, result:
               implies(none_neg(ranges, len(ranges)), len(result) == 0),
               # n: an arbitrary line number of a text of N lines (N arbitrary)
               'every-range-is-either-returned-or-stored-with-the-same-line-numbers':
                   lambda ranges, output_of_non_neg_values, old, n, N, result:
                   implies(1 <= n and n <= N,
                           iff(part_mem(output_of_non_neg_values, n) or any_S(result, len(result), N, n),
                               part_mem3(old[0], old[1], old[2], n) or any_S(ranges, len(ranges), N, n))),
               'stored-items-stay': lambda output_of_non_neg_values, old: keeps_all_items(output_of_non_neg_values, old),
               'every-stored-number-is-a-line-number': lambda output_of_non_neg_values, old:
               implies(wf_part3(old[0], old[1], old[2]), wf_part(output_of_non_neg_values)),
           }, raises_only=())

M.loop(P_RM + ':partition', 0,
       invariant=lambda _i, ranges, output_of_non_neg_values, ranges_w_neg_value, old, n, N:
       forall_range(0, len(ranges_w_neg_value), lambda k: has_neg(ranges_w_neg_value[k]))
       and implies(none_neg(ranges, _i), len(ranges_w_neg_value) == 0)
       and implies(1 <= n and n <= N,
                   iff(part_mem(output_of_non_neg_values, n)
                       or any_S(ranges_w_neg_value, len(ranges_w_neg_value), N, n),
                       part_mem3(old[0], old[1], old[2], n) or any_S(ranges, _i, N, n)))
       and keeps_all_items(output_of_non_neg_values, old)
       and implies(wf_part3(old[0], old[1], old[2]), wf_part(output_of_non_neg_values)),
       modifies={'ranges_w_neg_value': MRANGES, 'range_': 'local', 'mb_negative_range': 'local',
                 'output_of_non_neg_values.head_to': MListOf(Int), 'output_of_non_neg_values.segments': MListOf(PAIR),
                 'output_of_non_neg_values.tail_from': MListOf(Int)})

M.contract(P_RM + ':translate_neg_to_non_neg',
           params=dict(ranges=RANGES, num_model_lines=Nat), ghosts=dict(n=Int), returns=MRANGES,
           ensures={
               'one-range-for-each-range': lambda ranges, result: len(result) == len(ranges),
               'no-negative-number-left': lambda result: none_neg(result, len(result)),
               'each-denotes-the-same-lines': lambda ranges, num_model_lines, n, result:
               forall_range(0, len(ranges), lambda k:
               iff(S(result[k], num_model_lines, n), S(ranges[k], num_model_lines, n))),
           }, raises_only=())

M.loop(P_RM + ':translate_neg_to_non_neg', 0,
       invariant=lambda _i, ranges, ret_val, num_model_lines, n:
       len(ret_val) == _i and none_neg(ret_val, len(ret_val))
       and forall_range(0, _i, lambda k: iff(S(ret_val[k], num_model_lines, n), S(ranges[k], num_model_lines, n))),
       modifies={'ret_val': MRANGES, 'range_': 'local'})

# ------------------------------------------------------------------------------ merge
# For every n >= 1: n is denoted by the result  <=>  n is denoted by the partitioning.  The result is in the
# normal form that `_TransformMethodOfSegments.transform` relies on (`merged_nf`), and `is_empty` /
# `is_everything()` are exact (witnesses: a denoted number when not empty, a missing one when not everything).

PARTITIONING_RO = Inst(range_merge.Partitioning, head_to=ListOf(Int), segments=ListOf(PAIR), tail_from=ListOf(Int))


def parts_nf(head, body, tail):
    """head / body / tail as the segments transformer needs them: numbers >= 1, the first segment does not
    start at line 1, body in normal form, at least one line number between head, body segments and tail"""
    return (head is None or head >= 1) \
        and normal_form(body) \
        and forall_range(0, len(body), lambda k: body[k][0] >= 2
                                                 and (head is None or head + 1 < body[k][0])
                                                 and (tail is None or body[k][1] + 1 < tail)) \
        and (tail is None or (tail >= 2 and (head is None or head + 1 < tail)))


def is_everything_repr(m):
    return (not m.is_empty) and m.head is None and m.tail is None and len(m.body) == 0


def merged_nf(m):
    return m.is_empty or is_everything_repr(m) or parts_nf(m.head, m.body, m.tail)


def a_member(m):
    """a line number that a non-empty result denotes"""
    if is_everything_repr(m) or m.head is not None:
        return 1
    if len(m.body) > 0:
        return m.body[0][0]
    return m.tail


def a_non_member(m):
    """a line number that a result that is not 'everything' does not denote"""
    return 1 if m.head is None else m.head + 1


M.contract(P_RM + ':merge',
           params=dict(partitioning=PARTITIONING_RO), returns=MERGED,
           # lo: instantiates the ghost of _merge_segments' lower-bound clause with the first line number
           ghosts=dict(n=Int, lo=Const(1)),
           locals=dict(non_merged_segments_output=MListOf(PAIR)),
           # established by the partitioner (every-stored-number-is-a-line-number), starting from Partitioning([], [], [])
           requires=lambda partitioning: wf_part(partitioning),
           ensures={
               'denotes-exactly-the-line-numbers-of-the-partitioning': lambda partitioning, n, result:
               implies(n >= 1, iff(merged_mem(result, n), part_mem(partitioning, n))),
               'normal-form': lambda result: merged_nf(result),
               'is_empty-is-exact': lambda result:
               result.is_empty or (a_member(result) >= 1 and merged_mem(result, a_member(result))),
               'is_everything-is-exact': lambda result:
               result.is_empty or result.is_everything()
               or (a_non_member(result) >= 1 and not merged_mem(result, a_non_member(result))),
           }, raises_only=())

# ------------------------------------------------------------------------------ reading a limited number of lines
from exactly_lib.impls.types.string_transformer.impl.filter.line_nums import sources  # noqa: E402

LINES = IterOf(Str)                          # the lines of the text, nothing consumed yet
LINES_ANYWHERE = IterOf(Str, at_start=False)  # ... an arbitrary number of lines consumed already
POCKET = MListOf(Str, deque=True)             # a deque of lines


def limited_count(size, remaining):
    """number of items _limited(it, size) takes from an iterator with `remaining` items left
    (a negative size never reaches 0: everything is taken)"""
    return 0 if size == 0 else (remaining if size < 0 or remaining < size else size)


M.contract(P_SRC + ':_limited',
           params=dict(iterator=LINES_ANYWHERE, size=Int), yields=ListOf(Str), modifies=('iterator',),
           old=lambda iterator, size: (iterator.pos, size),
           ensures={
               'as-many-as-asked-for-or-all-that-are-left': lambda iterator, size, old, yielded:
               len(yielded) == limited_count(size, len(iterator.xs) - old[0]),
               'the-next-items-in-order': lambda iterator, old, yielded:
               forall_range(0, len(yielded), lambda k: yielded[k] == iterator.xs[old[0] + k]),
               'consumes-what-it-yields': lambda iterator, old, yielded: iterator.pos == old[0] + len(yielded),
           }, raises_only=())

M.loop(P_SRC + ':_limited', 0,
       invariant=lambda _i, _start, iterator, size, old, yielded:
       _start == old[0] and size == old[1] - (_i - _start) and (old[1] < 0 or size > 0) and len(yielded) == _i - _start
       and forall_range(0, len(yielded), lambda k: yielded[k] == iterator.xs[old[0] + k]),
       modifies=dict(size=Int, e='local', yielded='len'))

M.contract(P_SRC + ':_skip',
           params=dict(num_lines=Int, lines=LINES_ANYWHERE), modifies=('lines',),
           old=lambda lines: lines.pos,
           ensures={'skips-that-many-lines-or-all-that-are-left': lambda num_lines, lines, old:
           lines.pos == old + limited_count(num_lines, len(lines.xs) - old)},
           raises_only=())

M.loop(P_SRC + ':_skip', 0, invariant=lambda _i: True, modifies={'_': 'local'})

M.contract(P_SRC + ':_filled_pocket',
           params=dict(size=Int, lines=LINES_ANYWHERE), returns=POCKET, modifies=('lines',),
           old=lambda lines: lines.pos,
           ensures={
               'as-many-as-asked-for-or-all-that-are-left': lambda size, lines, old, result:
               len(result) == limited_count(size, len(lines.xs) - old),
               'the-next-lines-in-order': lambda lines, old, result:
               forall_range(0, len(result), lambda k: result[k] == lines.xs[old + k]),
               'consumes-what-it-holds': lambda lines, old, result: lines.pos == old + len(result),
           }, raises_only=())

# ------------------------------------------------------------------------------ the single-range line transformers
# Each transformer denotes a window [first_line, last_line] of 1-based line numbers (None: no limit on that side;
# negative parameters count from the end: -1 is line N); its `transform` yields exactly the lines of the text
# whose number lies in the window, in order.  Parameters as their names say (zero_based_* = line number - 1).

T = sources


def first_line(t, N):
    if isinstance(t, T._SingleNonNegIntTransformer):
        return t._zero_based_line_num + 1
    if isinstance(t, T._SingleNegIntTransformer):
        return N + 1 + t._neg_line_num
    if isinstance(t, (T._UpperNonNegLimitTransformer, T._UpperNegLimitTransformer)):
        return None
    if isinstance(t, (T._LowerNonNegLimitTransformer, T._LowerNonNegUpperNonNegTransformer,
                      T._LowerNonNegUpperNegTransformer)):
        return t._zero_based_lower_limit + 1
    if isinstance(t, T._LowerNegLimitTransformer):
        return N + 1 + t._neg_line_num
    if isinstance(t, (T._LowerNegUpperNonNegTransformer, T._LowerNegUpperNegTransformer)):
        return N + 1 + t._neg_lower_limit
    raise ValueError('not a single-range transformer')


def last_line(t, N):
    if isinstance(t, T._SingleNonNegIntTransformer):
        return t._zero_based_line_num + 1
    if isinstance(t, T._SingleNegIntTransformer):
        return N + 1 + t._neg_line_num
    if isinstance(t, (T._LowerNonNegLimitTransformer, T._LowerNegLimitTransformer)):
        return None
    if isinstance(t, (T._UpperNonNegLimitTransformer, T._LowerNonNegUpperNonNegTransformer,
                      T._LowerNegUpperNonNegTransformer)):
        return t._zero_based_upper_limit + 1
    if isinstance(t, T._UpperNegLimitTransformer):
        return N + 1 + t._neg_line_num
    if isinstance(t, (T._LowerNonNegUpperNegTransformer, T._LowerNegUpperNegTransformer)):
        return N + 1 + t._neg_upper_limit
    raise ValueError('not a single-range transformer')


def T_mem(t, N, n):
    """line number n of a text of N lines is in the window of the transformer"""
    return 1 <= n and n <= N and (first_line(t, N) is None or first_line(t, N) <= n) \
        and (last_line(t, N) is None or n <= last_line(t, N))


def win_start(t, N):
    """0-based index of the first line of the window"""
    f = first_line(t, N)
    return 0 if f is None else max(0, f - 1)


def win_end(t, N):
    """0-based index after the last line of the window"""
    la = last_line(t, N)
    return N if la is None else min(N, la)


def yields_window(t, X, yielded):
    return len(yielded) == max(0, win_end(t, len(X)) - win_start(t, len(X))) \
        and forall_range(0, len(yielded), lambda k: yielded[k] == X[win_start(t, len(X)) + k])


def holds_last_lines(pocket, X, pos):
    """the pocket holds the last len(pocket) lines that have been read (pos lines read so far)"""
    return len(pocket) <= pos and forall_range(0, len(pocket), lambda j: pocket[j] == X[pos - len(pocket) + j])


def first_lines(yielded, X, start):
    return forall_range(0, len(yielded), lambda k: yielded[k] == X[start + k])


def t_ok(t):
    """what each transformer requires of its parameters (established where the transformers are constructed:
    'constructed-with-the-parameters-it-requires' of _SingleRangeSourceConstructor.visit_*)"""
    if isinstance(t, T._SingleNonNegIntTransformer):
        return t._zero_based_line_num >= 0
    if isinstance(t, T._SingleNegIntTransformer):
        return t._neg_line_num < 0 and t._pocket_size == -t._neg_line_num
    if isinstance(t, T._UpperNonNegLimitTransformer):
        return t._zero_based_upper_limit >= 0
    if isinstance(t, (T._UpperNegLimitTransformer, T._LowerNegLimitTransformer)):
        return t._neg_line_num < 0
    if isinstance(t, T._LowerNonNegLimitTransformer):
        return t._zero_based_lower_limit >= 0
    if isinstance(t, T._LowerNonNegUpperNonNegTransformer):
        return 0 <= t._zero_based_lower_limit and t._zero_based_lower_limit <= t._zero_based_upper_limit
    if isinstance(t, T._LowerNonNegUpperNegTransformer):
        return t._zero_based_lower_limit >= 0 and t._neg_upper_limit < 0
    if isinstance(t, T._LowerNegUpperNonNegTransformer):
        return t._neg_lower_limit < 0 and t._zero_based_upper_limit >= 0
    if isinstance(t, T._LowerNegUpperNegTransformer):
        return t._neg_lower_limit <= t._neg_upper_limit and t._neg_upper_limit < 0
    raise ValueError('not a single-range transformer')


def _transformer(cls, requires, loops, **fields):
    """contract of cls.transform + its loop invariants"""
    q = '%s:%s.transform' % (P_SRC, cls.__name__)
    M.contract(q, params=dict(self=Inst(cls, _invariant=t_ok, **fields), lines=LINES), yields=ListOf(Str),
               ensures={'exactly-the-lines-of-the-window-in-order': lambda self, lines, yielded:
               yields_window(self, lines.xs, yielded)}, raises_only=())
    for ordinal, (inv, mod) in enumerate(loops):
        M.loop(q, ordinal, invariant=inv, modifies=mod)


# call sites (transformers._SingleRangeSourceConstructor): zero-based values are >= 0, negative ones < 0
_transformer(T._SingleNonNegIntTransformer, lambda self: self._zero_based_line_num >= 0, [
    (lambda _i, requested, current, yielded: current == _i and requested >= _i and len(yielded) == 0,
     dict(current=Int, line='local', yielded='len')),
], _zero_based_line_num=Int)

_transformer(T._SingleNegIntTransformer,
             lambda self: self._neg_line_num < 0 and self._pocket_size == -self._neg_line_num, [
                 (lambda _i, self, lines, pocket, yielded:
                  len(pocket) == self._pocket_size and holds_last_lines(pocket, lines.xs, _i) and len(yielded) == 0,
                  dict(pocket=POCKET, next_line='local')),
             ], _neg_line_num=Int, _pocket_size=Int)

_transformer(T._UpperNonNegLimitTransformer, lambda self: self._zero_based_upper_limit >= 0, [
    (lambda _i, limit, current, lines, yielded:
     current == _i and limit >= _i and len(yielded) == _i and first_lines(yielded, lines.xs, 0),
     dict(current=Int, line='local', yielded='len')),
], _zero_based_upper_limit=Int)

_transformer(T._UpperNegLimitTransformer, lambda self: self._neg_line_num < 0, [
    (lambda _i, pocket_size, lines, pocket, yielded:
     len(pocket) == pocket_size and holds_last_lines(pocket, lines.xs, _i)
     and len(yielded) == _i - pocket_size + 1 and first_lines(yielded, lines.xs, 0),
     dict(pocket=POCKET, next_line='local', yielded='len')),
], _neg_line_num=Int)

_transformer(T._LowerNonNegLimitTransformer, lambda self: self._zero_based_lower_limit >= 0, [
    (lambda _i, _start, lines, yielded: len(yielded) == _i - _start and first_lines(yielded, lines.xs, _start),
     dict(line='local', yielded='len')),
], _zero_based_lower_limit=Int)

_transformer(T._LowerNegLimitTransformer, lambda self: self._neg_line_num < 0, [
    (lambda _i, _start, pocket_size, lines, pocket, yielded:
     len(pocket) == _start and holds_last_lines(pocket, lines.xs, _i) and len(yielded) == 0,
     dict(pocket=POCKET, next_line='local')),
    (lambda _i, pocket, yielded: len(yielded) == _i and first_lines(yielded, pocket, 0),
     dict(line='local', yielded='len')),
], _neg_line_num=Int)

_transformer(T._LowerNonNegUpperNonNegTransformer,
             lambda self: 0 <= self._zero_based_lower_limit and self._zero_based_lower_limit <= self._zero_based_upper_limit,
             [(lambda _i, _xs, yielded: len(yielded) == _i and first_lines(yielded, _xs, 0),
               dict(line='local', yielded='len'))],
             _zero_based_lower_limit=Int, _zero_based_upper_limit=Int)

_LNUN = Inst(T._LowerNonNegUpperNegTransformer, _invariant=t_ok,
             _zero_based_lower_limit=Int, _neg_upper_limit=Int)

M.contract(P_SRC + ':_LowerNonNegUpperNegTransformer._forward_pocket_to_lower_limit',
           params=dict(self=_LNUN, pocket=POCKET, lines=LINES_ANYWHERE), returns=Bool, modifies=('pocket', 'lines'),
           # call site: the pocket is full (it holds |upper limit| >= 1 lines: the last ones read)
           requires=lambda pocket, lines: len(pocket) >= 1 and holds_last_lines(pocket, lines.xs, lines.pos),
           old=lambda pocket, lines: (lines.pos, len(pocket)),
           ensures={
               'reads-lower-limit-lines-or-all-that-are-left': lambda self, lines, old:
               lines.pos == old[0] + limited_count(self._zero_based_lower_limit, len(lines.xs) - old[0]),
               'tells-whether-the-lower-limit-was-reached': lambda self, lines, old, result:
               iff(result, lines.pos == old[0] + self._zero_based_lower_limit),
               'pocket-still-holds-the-last-lines-read': lambda pocket, lines, old:
               len(pocket) == old[1] and holds_last_lines(pocket, lines.xs, lines.pos),
           }, raises_only=())

M.loop(P_SRC + ':_LowerNonNegUpperNegTransformer._forward_pocket_to_lower_limit', 0,
       invariant=lambda _i, self, left_to_consume, pocket, lines, old:
       left_to_consume == self._zero_based_lower_limit - _i and len(pocket) == old[1]
       and holds_last_lines(pocket, lines.xs, old[0] + _i),
       modifies=dict(left_to_consume=Int, pocket=POCKET, next_line='local'))

M.contract(P_SRC + ':_LowerNonNegUpperNegTransformer.transform',
           params=dict(self=_LNUN, lines=LINES), yields=ListOf(Str),
           ensures={'exactly-the-lines-of-the-window-in-order': lambda self, lines, yielded:
           yields_window(self, lines.xs, yielded)}, raises_only=())

M.loop(P_SRC + ':_LowerNonNegUpperNegTransformer.transform', 0,
       invariant=lambda _i, self, upper_len, lines, pocket, yielded:
       len(pocket) == upper_len and holds_last_lines(pocket, lines.xs, _i)
       and len(yielded) == _i - upper_len - self._zero_based_lower_limit + 1
       and first_lines(yielded, lines.xs, self._zero_based_lower_limit),
       modifies=dict(pocket=POCKET, line='local', yielded='len'))

_transformer(T._LowerNegUpperNonNegTransformer,
             lambda self: self._neg_lower_limit < 0 and self._zero_based_upper_limit >= 0, [
                 (lambda _i, _start, upper, lines, pocket, pocket_1st_idx, yielded:
                  len(pocket) == _start and holds_last_lines(pocket, lines.xs, _i)
                  and pocket_1st_idx == _i - _start and pocket_1st_idx <= upper and len(yielded) == 0,
                  dict(pocket=POCKET, pocket_1st_idx=Int, line='local')),
                 (lambda _i, upper, pocket_1st_idx, num_to_produce, pocket, yielded:
                  num_to_produce == upper - pocket_1st_idx + 1 - _i and num_to_produce >= 0
                  and len(yielded) == _i and first_lines(yielded, pocket, 0),
                  dict(num_to_produce=Int, line='local', yielded='len')),
             ], _neg_lower_limit=Int, _zero_based_upper_limit=Int)

# call site (_lower_and_upper__neg): lower <= upper, both negative
_transformer(T._LowerNegUpperNegTransformer,
             lambda self: self._neg_lower_limit <= self._neg_upper_limit and self._neg_upper_limit < 0, [
                 (lambda _i, _start, lower_len, lines, pocket, yielded:
                  len(pocket) == _start and lower_len == _start and holds_last_lines(pocket, lines.xs, _i)
                  and len(yielded) == 0,
                  dict(pocket=POCKET, line='local')),
                 (lambda _i, lower_len, upper_len, num_to_produce, pocket, yielded:
                  num_to_produce == lower_len - upper_len + 1 - _i and num_to_produce >= 0
                  and len(yielded) == _i and first_lines(yielded, pocket, 0),
                  dict(num_to_produce=Int, line='local', yielded='len')),
             ], _neg_lower_limit=Int, _neg_upper_limit=Int)

# ------------------------------------------------------------------------------ a single range: which transformer
# `_SingleRangeSourceConstructor.visit_*` choose the transformer and convert the written (1-based) numbers to its
# parameters.  The result is a real string source object (the constructors of sources.py are interpreted); its
# lines transformer is read off it: result.contents()._transformer, or none for the empty source.
from exactly_lib.impls.types.string_transformer.impl.filter.line_nums import transformers  # noqa: E402

SOURCE_CONSTRUCTOR = Inst(transformers._SingleRangeSourceConstructor,
                          _source_model=Any_, _transformer_description=Any_, _mem_buff_size=Any_)


def lines_transformer_of(source):
    """the lines transformer of a string source made by sources.py; None for the empty source"""
    c = source.contents()
    if isinstance(c, T._EmptyContents):
        return None
    return c._transformer


def transformed_source_of(source):
    c = source.contents()
    return c._transformed if isinstance(c, T._EmptyContents) else c._source


def src_mem(source, N, n):
    """line n of a text of N lines is in the output of the string source (via its lines transformer)"""
    t = lines_transformer_of(source)
    return False if t is None else T_mem(t, N, n)


def src_ok(source):
    t = lines_transformer_of(source)
    return True if t is None else t_ok(t)


for _method, _shape, _cls in _RANGE_FORMS:
    M.contract('%s:_SingleRangeSourceConstructor.%s' % (P_TR, _method),
               params=dict(self=SOURCE_CONSTRUCTOR, x=_shape), ghosts=dict(n=Int, N=Nat), inline=True,
               ensures={
                   # n: an arbitrary line number, N: the number of lines of an arbitrary text
                   'selects-exactly-the-lines-of-the-range': lambda x, n, N, result:
                   iff(src_mem(result, N, n), S(x, N, n)),
                   'constructed-with-the-parameters-it-requires': lambda result: src_ok(result),
                   'transforms-the-given-source': lambda self, result:
                   transformed_source_of(result) is self._source_model,
               }, raises_only=())

for _helper, _req in (
        ('_lower_and_upper__non_neg', lambda lower, upper: lower >= 0 and upper > 0),
        ('_lower_and_upper__neg', lambda lower, upper: lower < 0 and upper < 0),
        ('_lower_non_neg__upper_neg', lambda lower, upper: lower >= 0 and upper < 0),
        ('_lower_neg__upper_non_neg', lambda lower, upper: lower < 0 and upper > 0)):
    M.contract('%s:_SingleRangeSourceConstructor.%s' % (P_TR, _helper),
               params=dict(self=SOURCE_CONSTRUCTOR, lower=Int, upper=Int), ghosts=dict(n=Int, N=Nat), inline=True,
               requires=_req,      # the four cases of visit_lower_and_upper_limit (upper == 0 is handled before)
               ensures={
                   'selects-exactly-the-lines-of-the-range': lambda lower, upper, n, N, result:
                   iff(src_mem(result, N, n), S_of(K_LOWER_UPPER, lower, upper, N, n)),
                   'constructed-with-the-parameters-it-requires': lambda result: src_ok(result),
               }, raises_only=())

# ------------------------------------------------------------------------------ several ranges: the segments transformer
# `_TransformMethodOfSegments.transform` yields exactly the lines whose number is <= head, in a body segment, or
# >= tail -- given head/body/tail in the normal form that `merge` ensures (`parts_nf`).  Stated for an arbitrary
# line number n through the ghost maps of the yielded sequence: src(k) = index of the input line that the k-th
# item is, pos_of(i) = position in the output of input line i.

SEGMENTS = Inst(T.SegmentsWithPositiveIncreasingValues, head=Opt(Int), body=BODY, tail=Opt(Int))
SEGMENTS_TRANSFORMER = Inst(T._TransformMethodOfSegments, _segments=SEGMENTS,
                            _invariant=lambda self: parts_nf(self._segments.head, self._segments.body,
                                                             self._segments.tail))


def selected(sg, n):
    return in_parts(sg.head, sg.body, sg.tail, n)


def items_are_input_lines_in_order(yielded, X, p):
    """every item is one of the first p input lines; the items come in the order of the input"""
    return forall_range(0, len(yielded), lambda k: 0 <= yielded.src(k) and yielded.src(k) < p
                                                   and yielded[k] == X[yielded.src(k)]) \
        and forall_range(0, len(yielded) - 1, lambda k: yielded.src(k) < yielded.src(k + 1))


def only_selected(yielded, sg, n):
    """if line n has been yielded, it is selected"""
    return (not exists_range(0, len(yielded), lambda k: yielded.src(k) == n - 1)) or selected(sg, n)


def yielded_at(yielded, i):
    """input line i (0-based) is in the output, at position pos_of(i)"""
    return 0 <= yielded.pos_of(i) and yielded.pos_of(i) < len(yielded) and yielded.src(yielded.pos_of(i)) == i


def none_lost(yielded, sg, p, n):
    """if line n is selected and among the first p lines, it has been yielded"""
    return (not (1 <= n and n <= p and selected(sg, n))) or yielded_at(yielded, n - 1)


def progress(yielded, X, sg, p, n):
    return 0 <= p and p <= len(X) and items_are_input_lines_in_order(yielded, X, p) \
        and only_selected(yielded, sg, n) and none_lost(yielded, sg, p, n)


def prev_end_is(sg, b, v):
    """v is the last line number selected before body segment b: the end of segment b-1, or the head, or 0"""
    return (b == 0 and sg.head is None and v == 0) or (b == 0 and sg.head is not None and v == sg.head) \
        or (b > 0 and v == sg.body[b - 1][1])


def at_or_before(sg, b, p, N):
    """p lines have been read when segment b is about to be handled: everything up to the end of what precedes
    segment b, or the whole text if it ends before that"""
    return exists_prev_end(sg, b, lambda v: p <= v and (p == N or p == v))


def exists_prev_end(sg, b, pred):
    return (b == 0 and sg.head is None and pred(0)) or (b == 0 and sg.head is not None and pred(sg.head)) \
        or (b > 0 and pred(sg.body[b - 1][1]))


_Q_SEG = P_SRC + ':_TransformMethodOfSegments.transform'

M.contract(_Q_SEG, params=dict(self=SEGMENTS_TRANSFORMER, lines=LINES), yields=ListOf(Str), ghosts=dict(n=Int),
           ensures={
               'every-item-is-an-input-line-and-the-order-is-kept': lambda lines, yielded:
               items_are_input_lines_in_order(yielded, lines.xs, len(lines.xs)),
               'only-selected-lines': lambda self, yielded, n: only_selected(yielded, self._segments, n),
               'no-selected-line-is-lost': lambda self, lines, yielded, n:
               none_lost(yielded, self._segments, len(lines.xs), n),
           }, raises_only=())

# loop 0: the head
M.loop(_Q_SEG, 0,
       invariant=lambda _i, segments, lines, line_num, end, yielded, n:
       line_num == _i and _i < end and progress(yielded, lines.xs, segments, _i, n),
       modifies=dict(line_num=Int, line='local', yielded='len'))

# loop 1: the body segments (index _i); lines.pos lines have been read
M.loop(_Q_SEG, 1,
       invariant=lambda _i, segments, lines, line_num, yielded, n:
       line_num == lines.pos and at_or_before(segments, _i, lines.pos, len(lines.xs))
       and progress(yielded, lines.xs, segments, lines.pos, n),
       modifies=dict(line_num=Int, start_m1=Int, end=Int, body_segment='local', line='local', _='local',
                     yielded='len', lines='iter'))

# loop 2: skip the lines before body segment _o
M.loop(_Q_SEG, 2,
       invariant=lambda _i, _o, _start, segments, lines, line_num, start_m1, yielded, n:
       line_num == _i and progress(yielded, lines.xs, segments, _i, n)
       and (_start == len(lines.xs)
            or (_i < start_m1 and exists_prev_end(segments, _o, lambda v: v <= _i))),
       modifies={'line_num': Int, '_': 'local'})

# loop 3: the lines of body segment _o
M.loop(_Q_SEG, 3,
       invariant=lambda _i, _o, _start, segments, lines, line_num, start_m1, end, yielded, n:
       line_num == _i and progress(yielded, lines.xs, segments, _i, n)
       and (_start == len(lines.xs) or (start_m1 <= _i and _i < end)),
       modifies=dict(line_num=Int, line='local', yielded='len'))

# loop 4: skip the lines before the tail
M.loop(_Q_SEG, 4,
       invariant=lambda _i, _start, segments, lines, line_num, start_m1, yielded, n:
       line_num == _i and progress(yielded, lines.xs, segments, _i, n)
       and (_start == len(lines.xs)
            or (_i < start_m1 and exists_prev_end(segments, len(segments.body), lambda v: v <= _i))),
       modifies={'line_num': Int, '_': 'local'})

# loop 5: the tail
M.loop(_Q_SEG, 5,
       invariant=lambda _i, _start, segments, lines, start_m1, yielded, n:
       progress(yielded, lines.xs, segments, _i, n) and (_start == len(lines.xs) or start_m1 <= _i),
       modifies=dict(line='local', yielded='len'))

# ------------------------------------------------------------------------------ the string transformers
# (1) a single range


class LinesTransformerI(Interface):
    """any lines transformer: records the call"""
    target_class = T._LinesTransformer
    methods = {'transform': Method(returns=Any_, event='transform')}


M.contract(P_SRC + ':_ContentsOfLinesTransformer._transform_lines',
           params=dict(self=Inst(T._ContentsOfLinesTransformer, _transformer=Iface(LinesTransformerI), _source=Any_,
                                 _file_name=Any_, _as_file_path=Any_), lines=Any_),
           ensures={'the-lines-of-the-contents-are-what-the-lines-transformer-makes-of-the-lines-of-the-source':
                    lambda self, lines, trace, result:
                    len(trace) == 2 and trace[0][0] == 'transform' and trace[0][1] is self._transformer
                    and len(trace[0][2]) == 1 and trace[0][2][0] is lines and trace[1][2] is result},
           raises_only=())

M.contract(P_TR + ':SingleLineRangeTransformer.transform',
           params=dict(self=Inst(transformers.SingleLineRangeTransformer, _name=Any_, _range=ANY_REAL_RANGE,
                                 _get_structure=Any_, _mem_buff_size=Any_), model=Any_),
           ghosts=dict(n=Int, N=Nat),
           ensures={
               # THE property for one range: n an arbitrary line number, N the number of lines of an arbitrary text
               'selects-exactly-the-lines-of-the-range': lambda self, n, N, result:
               iff(src_mem(result, N, n), S(self._range, N, n)),
               'constructed-with-the-parameters-it-requires': lambda result: src_ok(result),
               'transforms-the-given-source': lambda model, result: transformed_source_of(result) is model,
           }, raises_only=())

# (2) several ranges, none with a negative number: merged when the transformer is applied


def lt_mem(t, N, n):
    """line n of a text of N lines is in the output of the lines transformer t (one of the three of
    _transform_method_for / the segments transformer)"""
    if isinstance(t, T._EmptyLinesTransformer):
        return False
    if isinstance(t, T._EverythingLinesTransformer):
        return 1 <= n and n <= N
    return 1 <= n and n <= N and selected(t._segments, n)


def lt_ok(t):
    """the segments transformer gets its segments in normal form"""
    return (not isinstance(t, T._TransformMethodOfSegments)) \
        or parts_nf(t._segments.head, t._segments.body, t._segments.tail)


def multi_mem(result, model, N, n):
    """line n of a text of N lines is in the output of the string source `result` made from `model`"""
    if result is model:
        return 1 <= n and n <= N
    t = lines_transformer_of(result)
    return False if t is None else lt_mem(t, N, n)


def multi_ok(result, model):
    if result is model:
        return True
    t = lines_transformer_of(result)
    return transformed_source_of(result) is model and (True if t is None else lt_ok(t))


MULTI = Inst(transformers.MultipleLineRangesTransformer, _name=Any_, _get_structure=Any_, _ranges=RANGES,
             _mem_buff_size=Any_)

M.contract(P_TR + ':MultipleLineRangesTransformer._model_for_non_negatives',
           params=dict(self=MULTI, model=Any_, non_neg_values=PARTITIONING_RO), ghosts=dict(n=Int, N=Nat),
           requires=lambda non_neg_values: wf_part(non_neg_values),
           ensures={
               'selects-exactly-the-lines-of-the-partitioning': lambda model, non_neg_values, n, N, result:
               implies(1 <= n and n <= N, iff(multi_mem(result, model, N, n), part_mem(non_neg_values, n))),
               'constructed-with-the-parameters-it-requires': lambda model, result: multi_ok(result, model),
           }, raises_only=(), inline=True)

# (3) several ranges, some with a negative number: the number of lines N of the text is needed first; the source is
# read once to count them, the negative numbers are translated, everything is merged.
from pyvc.models import SIter  # noqa: E402
from exactly_lib.type_val_prims.string_source.string_source import StringSource  # noqa: E402
from exactly_lib.type_val_prims.string_source.contents import StringSourceContents  # noqa: E402
from exactly_lib.impls.types.string_source.contents.delegated_with_init import \
    DelegatedStringSourceContentsWithInit  # noqa: E402


class LinesCtxI(Interface):
    """the context manager `contents.as_lines`: entering it gives a fresh iterator over THE lines of the text.
    ASSUMED (environment; it is property C14): a text has one value however and how often it is read, and
    freezing the source does not change it."""
    attrs = {'lines': ListOf(Str)}
    methods = {
        '__enter__': Method(model=lambda interp, self, args, kwargs: SIter(interp.getattr(self, 'lines'), 0)),
        '__exit__': Method(returns=Const(False)),
    }


class ContentsI(Interface):
    target_class = StringSourceContents
    attrs = {'as_lines': Iface(LinesCtxI)}


class SourceI(Interface):
    target_class = StringSource
    methods = {'contents': Method(returns=Iface(ContentsI), pure=True), 'freeze': Method()}


def text_lines(source):
    """the lines of the text of a string source (ghost)"""
    return source.contents().as_lines.lines


RESOLVER = Inst(T._HandlerResolverForMultipleRangesWNegativeValues, _source=Iface(SourceI),
                _partial_partitioning=PARTITIONING, _negatives=RANGES)
_R_MODIFIES = ('self._partial_partitioning.head_to', 'self._partial_partitioning.segments',
               'self._partial_partitioning.tail_from')
_Q_RES = P_SRC + ':_HandlerResolverForMultipleRangesWNegativeValues.'

M.contract(_Q_RES + '_num_lines_of_source_model', params=dict(self=RESOLVER), returns=Nat,
           ensures={'the-number-of-lines-of-the-text': lambda self, result: result == len(text_lines(self._source))},
           raises_only=())
M.loop(_Q_RES + '_num_lines_of_source_model', 0, invariant=lambda _i, n: n == _i, modifies={'n': Int, '_': 'local'})

M.contract(_Q_RES + '_ranges_corresponding_to', params=dict(self=RESOLVER, num_lines=Nat), ghosts=dict(n=Int),
           returns=MERGED, modifies=_R_MODIFIES,
           # the ghost N of the contracts used inside (partition) is the given number of lines
           setup=lambda interp, args, ghosts: {'N': args['num_lines']},
           requires=lambda self: wf_part(self._partial_partitioning),
           old=lambda self: snapshot(self._partial_partitioning),
           ensures={
               'denotes-exactly-the-lines-of-the-stored-and-the-negative-ranges': lambda self, num_lines, old, n, result:
               implies(1 <= n and n <= num_lines,
                       iff(merged_mem(result, n),
                           part_mem3(old[0], old[1], old[2], n)
                           or any_S(self._negatives, len(self._negatives), num_lines, n))),
               'normal-form': lambda result: merged_nf(result),
           }, raises_only=())

M.contract(_Q_RES + '_transform_method_for', params=dict(merged_ranges=MERGED), ghosts=dict(n=Int, N=Nat),
           requires=lambda merged_ranges: merged_nf(merged_ranges), inline=True,
           ensures={
               'selects-exactly-the-denoted-lines': lambda merged_ranges, n, N, result:
               implies(1 <= n and n <= N, iff(lt_mem(result, N, n), merged_mem(merged_ranges, n))),
               'segments-in-normal-form': lambda result: lt_ok(result),
           }, raises_only=())

M.contract(_Q_RES + 'resolve', params=dict(self=RESOLVER), ghosts=dict(n=Int), modifies=_R_MODIFIES,
           requires=lambda self: wf_part(self._partial_partitioning),
           old=lambda self: snapshot(self._partial_partitioning),
           ensures={
               # N = the number of lines of the text of the source
               'selects-exactly-the-lines-of-the-stored-and-the-negative-ranges': lambda self, old, n, result:
               implies(1 <= n and n <= len(text_lines(self._source)),
                       iff(lt_mem(result._transformer, len(text_lines(self._source)), n),
                           part_mem3(old[0], old[1], old[2], n)
                           or any_S(self._negatives, len(self._negatives), len(text_lines(self._source)), n))),
               'a-contents-of-the-lines-of-the-source': lambda self, result:
               isinstance(result, T._ContentsOfLinesTransformer) and result._source is self._source
               and lt_ok(result._transformer),
           }, raises_only=())


def resolver_of(result, model):
    """the resolver behind a string source whose contents are resolved when first read; None for other sources"""
    if result is model:
        return None
    c = result.contents()
    if isinstance(c, DelegatedStringSourceContentsWithInit):
        return c._initializer.__self__
    return None


def transform_exact(self, model, result, N, n):
    """line n of a text of N lines is in the output  <=>  n is denoted by one of the ranges"""
    r = resolver_of(result, model)
    if r is None:
        return iff(multi_mem(result, model, N, n), any_S(self._ranges, len(self._ranges), N, n))
    # contents resolved later by r.resolve (contract above): what it starts from denotes the ranges
    return iff(part_mem(r._partial_partitioning, n) or any_S(r._negatives, len(r._negatives), N, n),
               any_S(self._ranges, len(self._ranges), N, n))


def transform_ok(model, result):
    r = resolver_of(result, model)
    if r is None:
        return multi_ok(result, model)
    return r._source is model and wf_part(r._partial_partitioning)


M.contract(P_TR + ':MultipleLineRangesTransformer.transform', params=dict(self=MULTI, model=Any_),
           ghosts=dict(n=Int, N=Nat),
           ensures={
               # THE property for several ranges: n an arbitrary line number, N the number of lines of an arbitrary text
               'selects-exactly-the-lines-of-the-ranges': lambda self, model, n, N, result:
               implies(1 <= n and n <= N, transform_exact(self, model, result, N, n)),
               'constructed-with-the-parameters-it-requires': lambda model, result: transform_ok(model, result),
           }, raises_only=())

M.contract(P_TR + ':MultipleLineRangesTransformer._model_for_negatives',
           params=dict(self=MULTI, model=Any_, negatives=RANGES, output_of_non_neg_values=PARTITIONING_RO),
           inline=True,
           ensures={'the-contents-are-resolved-later-from-exactly-these': lambda model, negatives, output_of_non_neg_values,
                                                                               result:
           resolver_of(result, model) is not None and resolver_of(result, model)._source is model
           and resolver_of(result, model)._negatives is negatives
           and resolver_of(result, model)._partial_partitioning is output_of_non_neg_values},
           raises_only=())

# (4) one range -> SingleLineRangeTransformer, otherwise MultipleLineRangesTransformer
from exactly_lib.impls.types.string_transformer.impl.filter.line_nums import resolvers  # noqa: E402
from exactly_lib.test_case.app_env import ApplicationEnvironment  # noqa: E402


class AppEnvI(Interface):
    target_class = ApplicationEnvironment
    attrs = {'mem_buff_size': Int}


M.contract('exactly_lib.impls.types.string_transformer.impl.filter.line_nums.resolvers:_LineNumRangeTransformerAdv.primitive',
           params=dict(self=Inst(resolvers._LineNumRangeTransformerAdv, _name=Any_, _structure_renderer=Any_,
                                 _ranges=ListOf(Iface(RangeI), min_len=1)),   # the syntax demands at least one range
                       environment=Iface(AppEnvI)),
           ensures={'the-transformer-of-the-given-ranges': lambda self, result:
           (isinstance(result, transformers.SingleLineRangeTransformer) and result._range is self._ranges[0])
           if len(self._ranges) == 1 else
           (isinstance(result, transformers.MultipleLineRangesTransformer) and result._ranges is self._ranges)},
           raises_only=())

# ------------------------------------------------------------------------------ bounded stand-ins
# (a) `_RangeParser.parse` (resolvers.py): the written expression -> the range object.  Not within reach of the
#     proof engine (str.strip() of Unicode white space, str.split on every separator, eval of the integers).
# (b) end to end: the real transformers on a real string source, through all the string-source plumbing that
#     is not under contract (StringSourceWithCachedFrozen, DelegatedStringSourceContentsWithInit, as_lines of
#     TransformedContentsViaAsLinesBase), against the definition of S.  This duplicates, for small sizes, what
#     the contracts above prove for all sizes; it is here for the glue between the proved pieces.
import itertools  # noqa: E402
from exactly_lib.impls.exception.validation_error_exception import ValidationErrorException  # noqa: E402


def _py_line_no(k, N):
    return k if k >= 0 else N + 1 + k


def _py_S(form, N, n):
    """independent executable definition of S, from the manual; form = (kind, a, b)"""
    kind, a, b = form
    if not (1 <= n <= N):
        return False
    if kind == K_SINGLE:
        return n == _py_line_no(a, N)
    if kind == K_LOWER:
        return _py_line_no(a, N) <= n
    if kind == K_UPPER:
        return n <= _py_line_no(a, N)
    return _py_line_no(a, N) <= n <= _py_line_no(b, N)


def _real_range(form):
    kind, a, b = form
    return [SingleLineRange(a), LowerLimitRange(a), UpperLimitRange(a), LowerAndUpperLimitRange(a, b)][kind]


def _written(form):
    kind, a, b = form
    return ['%d' % a, '%d:' % a, ':%d' % a, '%d:%d' % (a, b)][kind]


@M.bounded('range-parser')
def _bounded_parser(ctx):
    bound = 12 if ctx.tier == 'thorough' else 6
    failures = []
    cases = 0
    forms = [(k, a, 0) for k in (K_SINGLE, K_LOWER, K_UPPER) for a in range(-bound, bound + 1)] \
        + [(K_LOWER_UPPER, a, b) for a in range(-bound, bound + 1) for b in range(-bound, bound + 1)]
    for form in forms:
        for pad_l, pad_r in (('', ''), (' ', ''), ('', '\t'), ('  ', ' ')):
            cases += 1
            text = pad_l + _written(form) + pad_r
            try:
                r = resolvers._RangeParser(text).parse()
                ok = (kind_of(r), fst(r), snd(r) if form[0] == K_LOWER_UPPER else 0) == form
                actual = (type(r).__name__, fst(r), snd(r))
            except Exception as e:       # noqa
                ok, actual = False, repr(e)
            if not ok:
                failures.append({'input': text, 'expected': form, 'actual': actual})
    for text in ('', ' ', '1:2:3', ':', '::', 'x', '1:x'):
        cases += 1
        try:
            r = resolvers._RangeParser(text).parse()
            failures.append({'input': text, 'expected': 'ValidationErrorException', 'actual': type(r).__name__})
        except ValidationErrorException:
            pass
        except Exception as e:       # noqa
            failures.append({'input': text, 'expected': 'ValidationErrorException', 'actual': repr(e)})
    ctx.bounded_result('resolvers._RangeParser.parse', 'the four forms with integers in [-%d, %d], with and without '
                       'surrounding white space; 7 malformed expressions' % (bound, bound), cases, False, failures,
                       note='against the four forms of the manual (INT, INT:, :INT, INT:INT)')


_E2E_REPLAY = '''\
from exactly_lib.impls.types.string_source import constant_str
from exactly_lib.impls.types.string_transformer.impl.filter.line_nums import transformers
from exactly_lib.impls.types.string_transformer.impl.filter.line_nums.range_expr import (
    SingleLineRange, LowerLimitRange, UpperLimitRange, LowerAndUpperLimitRange)
forms, N, expected = %r, %r, %r     # (kind, a, b): 0 = a, 1 = a:, 2 = :a, 3 = a:b
rs = [[SingleLineRange(a), LowerLimitRange(a), UpperLimitRange(a), LowerAndUpperLimitRange(a, b)][k]
      for (k, a, b) in forms]
text = ''.join('line %%d\\n' %% i for i in range(1, N + 1))
t = (transformers.SingleLineRangeTransformer('filter', lambda: None, rs[0], 1000) if len(rs) == 1
     else transformers.MultipleLineRangesTransformer('filter', lambda: None, rs, 1000))
with t.transform(constant_str.string_source(text, None)).contents().as_lines as lines:
    got = list(lines)
print('ranges', forms, 'lines', N, 'expected', expected, 'got', got)
sys.exit(1 if got != expected else 0)
'''


@M.bounded('end-to-end')
def _bounded_end_to_end(ctx):
    from exactly_lib.impls.types.string_source import constant_str
    max_lines, bound = (6, 8) if ctx.tier == 'thorough' else (4, 5)
    forms = [(k, a, 0) for k in (K_SINGLE, K_LOWER, K_UPPER) for a in range(-bound, bound + 1)] \
        + [(K_LOWER_UPPER, a, b) for a in range(-bound, bound + 1) for b in range(-bound, bound + 1)]
    failures = []
    cases = 0

    def run(fs, N):
        text = ''.join('line %d\n' % i for i in range(1, N + 1))
        source = constant_str.string_source(text, None)
        rs = [_real_range(f) for f in fs]
        t = (transformers.SingleLineRangeTransformer('filter', lambda: None, rs[0], 1000) if len(rs) == 1
             else transformers.MultipleLineRangesTransformer('filter', lambda: None, rs, 1000))
        with t.transform(source).contents().as_lines as lines:
            got = list(lines)
        expected = ['line %d\n' % n for n in range(1, N + 1) if any(_py_S(f, N, n) for f in fs)]
        if got != expected:
            failures.append({'input': {'ranges': [_written(f) for f in fs], 'lines': N},
                             'expected': expected, 'actual': got, 'replay': _E2E_REPLAY % (list(fs), N, expected)})

    for N in range(0, max_lines + 1):
        for f in forms:
            cases += 1
            run([f], N)
        step = 1 if ctx.tier == 'thorough' else 3     # quick: every third pair
        for i, (f1, f2) in enumerate(itertools.product(forms, forms)):
            if i % step == 0:
                cases += 1
                run([f1, f2], N)
    ctx.bounded_result('SingleLineRangeTransformer.transform / MultipleLineRangesTransformer.transform on a real '
                       'string source, read through contents().as_lines',
                       'texts of 0..%d lines; one range, and pairs of ranges, of the four forms with integers in '
                       '[-%d, %d]' % (max_lines, bound, bound), cases, False, failures,
                       note='against S(range, N) as defined in the manual')

# ------------------------------------------------------------------------------ the two trivial lines transformers, the empty contents
from contracts.common import items_of  # noqa: E402

M.contract(P_SRC + ':_EmptyLinesTransformer.transform',
           params=dict(self=Inst(T._EmptyLinesTransformer), lines=LINES),
           ensures={'no-lines': lambda result: len(items_of(result)) == 0}, raises_only=())

M.contract(P_SRC + ':_EverythingLinesTransformer.transform',
           params=dict(self=Inst(T._EverythingLinesTransformer), lines=LINES),
           ensures={'the-lines-of-the-text': lambda lines, result: result is lines and lines.pos == 0}, raises_only=())

M.contract(P_SRC + ':_EmptyContents.as_lines',
           params=dict(self=Inst(T._EmptyContents, _transformed=Any_, _as_file_path=Any_)), yields=ListOf(Any_),
           ensures={'one-iterator-without-lines': lambda yielded: len(yielded) == 1 and len(items_of(yielded[0])) == 0},
           raises_only=())

# ------------------------------------------------------------------------------ the two views of a window agree
# `yields_window` (what the transformers are proved to yield: the slice [win_start, win_end) of the text) and
# `T_mem` (what the constructors are proved to select: first_line <= n <= last_line) describe the same lines.

_ANY_SINGLE_RANGE_TRANSFORMER = Union(
    Inst(T._SingleNonNegIntTransformer, _zero_based_line_num=Int),
    Inst(T._SingleNegIntTransformer, _neg_line_num=Int, _pocket_size=Int),
    Inst(T._UpperNonNegLimitTransformer, _zero_based_upper_limit=Int),
    Inst(T._UpperNegLimitTransformer, _neg_line_num=Int),
    Inst(T._LowerNonNegLimitTransformer, _zero_based_lower_limit=Int),
    Inst(T._LowerNegLimitTransformer, _neg_line_num=Int),
    Inst(T._LowerNonNegUpperNonNegTransformer, _zero_based_lower_limit=Int, _zero_based_upper_limit=Int),
    Inst(T._LowerNonNegUpperNegTransformer, _zero_based_lower_limit=Int, _neg_upper_limit=Int),
    Inst(T._LowerNegUpperNonNegTransformer, _neg_lower_limit=Int, _zero_based_upper_limit=Int),
    Inst(T._LowerNegUpperNegTransformer, _neg_lower_limit=Int, _neg_upper_limit=Int))


def window_is_T_mem(t, N, n):
    """line n is in the slice [win_start, win_end) (0-based: n - 1)  <=>  T_mem"""
    return iff(win_start(t, N) <= n - 1 and n - 1 < win_end(t, N), T_mem(t, N, n))


M.contract('contracts.C13b_line_nums:window_is_T_mem', params=dict(t=_ANY_SINGLE_RANGE_TRANSFORMER, N=Nat, n=Int),
           ensures={'the-slice-that-is-yielded-is-the-window-that-is-selected': lambda result: result},
           raises_only=())
