"""C13 (second sentence) -- `filter -line-nums` keeps exactly the lines whose number lies in at least one
of the given ranges, negative numbers counting from the end, for texts of any length including the
empty text.  See DESIGN.md section 3 / C13, last bullet of "Functions under contract"; notes/C13b.md."""
from pyvc.api import (Module, Interface, Method, Iface, Inst, Int, Nat, Bool, Str, Opt, OneOf, Const, Union,
                      ListOf, MListOf, IterOf, FixedList, Any_, IntRange, Custom, new_opaque, assume_pred)
from contracts.common import implies, iff, forall_range, exists_range, is_opaque

from exactly_lib.impls.types.string_transformer.impl.filter.line_nums import range_expr, range_merge
from exactly_lib.impls.types.string_transformer.impl.filter.line_nums.range_expr import (
    SingleLineRange, LowerLimitRange, UpperLimitRange, LowerAndUpperLimitRange)

M = Module('C13')

P_RE = 'exactly_lib.impls.types.string_transformer.impl.filter.line_nums.range_expr'
P_RM = 'exactly_lib.impls.types.string_transformer.impl.filter.line_nums.range_merge'
P_TR = 'exactly_lib.impls.types.string_transformer.impl.filter.line_nums.transformers'
P_SRC = 'exactly_lib.impls.types.string_transformer.impl.filter.line_nums.sources'

# ------------------------------------------------------------------------------ the meaning of a written range
# From the manual (impl/filter/parse.py): INT "the single line number INT"; :INT "line numbers from 1 to INT
# (including)"; INT: "line numbers starting from INT"; INT:INT "from INT to INT (including)"; "negative numbers
# denote line numbers relative to the end: -1 is the last line number, -2 the second to last, etc."
# The first line number is 1; a text of N lines has the line numbers 1..N.

K_SINGLE, K_LOWER, K_UPPER, K_LOWER_UPPER = 0, 1, 2, 3


def line_no(k, N):
    """the line number that the written integer k denotes in a text of N lines"""
    return k if k >= 0 else N + 1 + k


def kind_of(r):
    if is_opaque(r):
        return r.kind
    if isinstance(r, SingleLineRange):
        return K_SINGLE
    if isinstance(r, LowerLimitRange):
        return K_LOWER
    if isinstance(r, UpperLimitRange):
        return K_UPPER
    if isinstance(r, LowerAndUpperLimitRange):
        return K_LOWER_UPPER
    raise ValueError('not a range')


def fst(r):
    """the (first) written integer of a range"""
    if is_opaque(r):
        return r.a
    if isinstance(r, SingleLineRange):
        return r.line_number
    if isinstance(r, LowerLimitRange):
        return r.lower_limit
    if isinstance(r, UpperLimitRange):
        return r.upper_limit
    return r.lower_limit


def snd(r):
    """the second written integer of `m:n` (for the other forms: the first one)"""
    if is_opaque(r):
        return r.b
    if isinstance(r, LowerAndUpperLimitRange):
        return r.upper_limit
    return fst(r)


def S_of(kind, a, b, N, n):
    """S(r, N) as a predicate on n, for the range of the given kind written with the integers a (and b)"""
    return 1 <= n and n <= N and (
            (kind == K_SINGLE and n == line_no(a, N))
            or (kind == K_LOWER and line_no(a, N) <= n)
            or (kind == K_UPPER and n <= line_no(a, N))
            or (kind == K_LOWER_UPPER and line_no(a, N) <= n and n <= line_no(b, N)))


def S(r, N, n):
    """n is one of the 1-based line numbers that the written range r denotes in a text of N lines"""
    return S_of(kind_of(r), fst(r), snd(r), N, n)


def has_neg(r):
    """the range is written with a negative integer"""
    return fst(r) < 0 or (kind_of(r) == K_LOWER_UPPER and snd(r) < 0)


SINGLE = Inst(SingleLineRange, line_number=Int)
LOWER = Inst(LowerLimitRange, lower_limit=Int)
UPPER = Inst(UpperLimitRange, upper_limit=Int)
LOWER_UPPER = Inst(LowerAndUpperLimitRange, lower_limit=Int, upper_limit=Int)
ANY_REAL_RANGE = Union(SINGLE, LOWER, UPPER, LOWER_UPPER)

_RANGE_FORMS = (('visit_single_line', SINGLE, SingleLineRange),
                ('visit_lower_limit', LOWER, LowerLimitRange),
                ('visit_upper_limit', UPPER, UpperLimitRange),
                ('visit_lower_and_upper_limit', LOWER_UPPER, LowerAndUpperLimitRange))

# ------------------------------------------------------------------------------ negative -> non-negative
# `_tr` maps a written integer to a non-negative one that denotes the same set of lines in every range form
# (a number before the first line is mapped to 0, which no form treats as a line number).

TRANSLATOR = Inst(range_merge._NegValuesTranslator, _num_lines=Nat)

M.contract(P_RM + ':_NegValuesTranslator._tr',
           params=dict(self=TRANSLATOR, n=Int), ghosts=dict(m=Int), returns=Int, inline=True,
           ensures={
               'as-designed': lambda self, n, result:
               result == (n if n >= 0 else max(0, self._num_lines + n + 1)),
               'non-negative': lambda result: result >= 0,
               # m: an arbitrary line number of the text
               'denotes-the-same-line-in-every-position': lambda self, n, m, result:
               implies(1 <= m and m <= self._num_lines,
                       iff(m == line_no(n, self._num_lines), m == line_no(result, self._num_lines))
                       and iff(m <= line_no(n, self._num_lines), m <= line_no(result, self._num_lines))
                       and iff(line_no(n, self._num_lines) <= m, line_no(result, self._num_lines) <= m)),
           }, raises_only=())

for _method, _shape, _cls in _RANGE_FORMS:
    M.contract('%s:_NegValuesTranslator.%s' % (P_RM, _method),
               params=dict(self=TRANSLATOR, x=_shape), ghosts=dict(n=Int, cls=Const(_cls)), returns=_shape,
               ensures={
                   'same-form': lambda result, cls: isinstance(result, cls),
                   'denotes-the-same-lines': lambda self, x, result, n:
                   iff(S(result, self._num_lines, n), S(x, self._num_lines, n)),
                   'no-negative-number-left': lambda result: not has_neg(result),
               }, raises_only=())

# ------------------------------------------------------------------------------ segments

PAIR = FixedList(Int, Int, as_tuple=True)


def seg_mem(x, n):
    """n lies in the segment (from, to)"""
    return x[0] <= n and n <= x[1]


M.contract(P_RM + ':_is_valid_segment', params=dict(x=PAIR), ghosts=dict(n=Int), returns=Bool, inline=True,
           ensures={
               'valid-iff-from-le-to': lambda x, result: iff(result, x[0] <= x[1]),
               'only-empty-segments-are-invalid': lambda x, n, result: implies(seg_mem(x, n), result),
           }, raises_only=())

M.contract(P_RM + ':_can_be_one', params=dict(first=PAIR, second=PAIR), ghosts=dict(n=Int), returns=Bool, inline=True,
           requires=lambda first, second: first[0] <= first[1] and second[0] <= second[1] and first[0] <= second[0],
           ensures={
               'merged-segment-is-the-union': lambda first, second, n, result:
               implies(result, iff(seg_mem(first, n) or seg_mem(second, n),
                                   seg_mem((first[0], max(first[1], second[1])), n))),
               'otherwise-a-line-number-lies-between': lambda first, second, result:
               implies(not result, first[1] + 1 < second[0]),
           }, raises_only=())

# ------------------------------------------------------------------------------ MergedRanges
# Denotation of a MergedRanges object, as its two consumers use it (`_model_for_non_negatives`,
# `_transform_method_for`): empty -> nothing; no head, no body, no tail -> everything; otherwise the union of
# (-oo, head], the body segments and [tail, +oo).

BODY = ListOf(PAIR)
MERGED = Inst(range_merge.MergedRanges, head=Opt(Int), body=BODY, tail=Opt(Int), is_empty=Bool)


def in_parts(head, body, tail, n):
    return (head is not None and n <= head) \
        or (tail is not None and tail <= n) \
        or exists_range(0, len(body), lambda k: seg_mem(body[k], n))


def merged_mem(m, n):
    return (not m.is_empty) and ((m.head is None and m.tail is None and len(m.body) == 0)
                                 or in_parts(m.head, m.body, m.tail, n))


M.contract(P_RM + ':MergedRanges.empty', params=dict(), ghosts=dict(n=Int), returns=MERGED, inline=True,
           ensures={'denotes-nothing': lambda result, n: not merged_mem(result, n),
                    'is-empty': lambda result: result.is_empty and not result.is_everything()}, raises_only=())

M.contract(P_RM + ':MergedRanges.everything', params=dict(), ghosts=dict(n=Int), returns=MERGED, inline=True,
           ensures={'denotes-every-number': lambda result, n: merged_mem(result, n),
                    'is-everything': lambda result: (not result.is_empty) and result.is_everything()},
           raises_only=())

M.contract(P_RM + ':MergedRanges.is_everything', params=dict(self=MERGED), ghosts=dict(n=Int), returns=Bool,
           inline=True,
           ensures={
               'exact': lambda self, result:
               iff(result, (not self.is_empty) and self.head is None and self.tail is None and len(self.body) == 0),
               'then-every-number-is-denoted': lambda self, n, result: implies(result, merged_mem(self, n)),
           }, raises_only=())

# ------------------------------------------------------------------------------ merging sorted segments
# Normal form of a list of segments: every segment non-empty, ascending, and between two consecutive
# segments lies at least one number that belongs to neither (disjoint and non-adjacent).


def all_valid(xs):
    return forall_range(0, len(xs), lambda k: xs[k][0] <= xs[k][1])


def separated(xs):
    return forall_range(0, len(xs) - 1, lambda k: xs[k][1] + 1 < xs[k + 1][0])


def normal_form(xs):
    return all_valid(xs) and separated(xs)


def in_some(xs, n):
    return exists_range(0, len(xs), lambda k: seg_mem(xs[k], n))


def in_some_before(xs, end, n):
    return exists_range(0, end, lambda k: seg_mem(xs[k], n))


def all_from_ge(xs, lo):
    return forall_range(0, len(xs), lambda k: xs[k][0] >= lo)


M.contract(P_RM + ':_merge_segments',
           params=dict(segments=ListOf(PAIR, min_len=1)), ghosts=dict(n=Int, lo=Int), returns=MListOf(PAIR),
           # call site (merge): the valid segments, sorted
           requires=lambda segments: all_valid(segments) and forall_range(
               0, len(segments) - 1, lambda j: segments[j][0] <= segments[j + 1][0]),
           ensures={
               'same-numbers': lambda segments, result, n: iff(in_some(result, n), in_some(segments, n)),
               'normal-form': lambda result: len(result) >= 1 and normal_form(result),
               'no-segment-starts-before-the-first-start': lambda segments, result, lo:
               implies(all_from_ge(segments, lo), all_from_ge(result, lo)),
           }, raises_only=())

M.loop(P_RM + ':_merge_segments', 0,
       invariant=lambda _i, segments, ret_val, current, n, lo:
       current[0] <= current[1]
       and (_i + 1 >= len(segments) or current[0] <= segments[_i + 1][0])
       and normal_form(ret_val)
       and (len(ret_val) == 0 or ret_val[len(ret_val) - 1][1] + 1 < current[0])
       and iff(in_some(ret_val, n) or seg_mem(current, n), in_some_before(segments, _i + 1, n))
       and implies(all_from_ge(segments, lo), all_from_ge(ret_val, lo) and current[0] >= lo),
       modifies=dict(ret_val=MListOf(PAIR), current=PAIR, next_='local'))

# ------------------------------------------------------------------------------ merging with the head / the tail
# head `h` stands for (-oo, h], tail `t` for [t, +oo).  The segments are in normal form (result of
# _merge_segments); the segments that are not absorbed are appended to the (empty) output list.

M.contract(P_RM + ':_merge_head_to',
           params=dict(initial=Int, segments=ListOf(PAIR), non_merged__out__sorted=MListOf(PAIR)),
           ghosts=dict(n=Int), returns=Int, modifies=('non_merged__out__sorted',),
           requires=lambda segments, non_merged__out__sorted:
           normal_form(segments) and len(non_merged__out__sorted) == 0,
           old=lambda initial: initial,
           ensures={
               'same-numbers': lambda initial, segments, non_merged__out__sorted, n, result:
               iff(n <= result or in_some(non_merged__out__sorted, n), n <= initial or in_some(segments, n)),
               'head-only-grows': lambda initial, result: result >= initial,
               'the-rest-is-a-suffix-of-the-segments': lambda segments, non_merged__out__sorted:
               len(non_merged__out__sorted) <= len(segments)
               and forall_range(0, len(non_merged__out__sorted), lambda k:
               non_merged__out__sorted[k] == segments[len(segments) - len(non_merged__out__sorted) + k]),
               'the-rest-is-in-normal-form': lambda non_merged__out__sorted: normal_form(non_merged__out__sorted),
               'a-line-number-lies-between-the-head-and-the-rest': lambda non_merged__out__sorted, result:
               forall_range(0, len(non_merged__out__sorted), lambda k: result + 1 < non_merged__out__sorted[k][0]),
           }, raises_only=())

M.loop(P_RM + ':_merge_head_to', 0,
       invariant=lambda _i, initial, segments, non_merged__out__sorted, old, n:
       initial >= old
       and len(non_merged__out__sorted) <= _i
       and forall_range(0, len(non_merged__out__sorted), lambda k:
                        non_merged__out__sorted[k] == segments[_i - len(non_merged__out__sorted) + k])
       and forall_range(0, len(non_merged__out__sorted), lambda k: initial + 1 < non_merged__out__sorted[k][0])
       and iff(n <= initial or in_some(non_merged__out__sorted, n), n <= old or in_some_before(segments, _i, n)),
       modifies=dict(initial=Int, non_merged__out__sorted=MListOf(PAIR), from_to='local'))

M.contract(P_RM + ':_merge_tail_from',
           params=dict(initial=Int, segments=ListOf(PAIR), non_merged__out__sorted=MListOf(PAIR)),
           ghosts=dict(n=Int), returns=Int, modifies=('non_merged__out__sorted',),
           requires=lambda segments, non_merged__out__sorted:
           normal_form(segments) and len(non_merged__out__sorted) == 0,
           old=lambda initial: initial,
           ensures={
               'same-numbers': lambda initial, segments, non_merged__out__sorted, n, result:
               iff(result <= n or in_some(non_merged__out__sorted, n), initial <= n or in_some(segments, n)),
               'tail-only-grows': lambda initial, result: result <= initial,
               'the-rest-is-a-prefix-of-the-segments': lambda segments, non_merged__out__sorted:
               len(non_merged__out__sorted) <= len(segments)
               and forall_range(0, len(non_merged__out__sorted), lambda k:
               non_merged__out__sorted[k] == segments[k]),
               'the-rest-is-in-normal-form': lambda non_merged__out__sorted: normal_form(non_merged__out__sorted),
               'a-line-number-lies-between-the-rest-and-the-tail': lambda non_merged__out__sorted, result:
               forall_range(0, len(non_merged__out__sorted), lambda k: non_merged__out__sorted[k][1] + 1 < result),
           }, raises_only=())


def in_some_between(xs, start, end, n):
    return exists_range(start, end, lambda k: seg_mem(xs[k], n))


M.loop(P_RM + ':_merge_tail_from', 0,
       invariant=lambda _i, initial, segments, non_merged__out__sorted, old, n:
       initial <= old
       and len(non_merged__out__sorted) <= _i
       and forall_range(0, len(non_merged__out__sorted), lambda k:
                        non_merged__out__sorted[k] == segments[len(segments) - _i + k])
       and forall_range(0, len(non_merged__out__sorted), lambda k: non_merged__out__sorted[k][1] + 1 < initial)
       # (the members of the output list are described through the segments they are: no index shift by insert(0, .))
       and iff(initial <= n or in_some_between(segments, len(segments) - _i,
                                               len(segments) - _i + len(non_merged__out__sorted), n),
               old <= n or in_some_between(segments, len(segments) - _i, len(segments), n)),
       modifies=dict(initial=Int, non_merged__out__sorted=MListOf(PAIR), from_to='local'))
