"""Spec helpers shared by the sidecar contract modules (interpreted symbolically in proofs,
executed natively in replays)."""


def implies(a, b):
    return (not a) or b


def iff(a, b):
    return (a and b) or ((not a) and (not b))


# ---- bounded quantifiers over index ranges.  Natively these are any()/all(); in proofs the
# engine turns them into z3 quantifiers (pyvc.models.q_forall / q_exists).

def forall_range(lo, hi, pred):
    return all(pred(j) for j in range(lo, hi))


def exists_range(lo, hi, pred):
    return any(pred(j) for j in range(lo, hi))


def is_opaque(x):
    """True for objects that exist only through an interface contract (never for real instances)."""
    return type(x).__name__.startswith('Stub_')


def items_of(it):
    """the (remaining) items of an iterator or sequence, as a list"""
    return list(it)


def is_item(list_item, obj):
    """`list_item` (an element read from a list of objects) is the object `obj`.  In proofs symbolic lists of
    objects hold handles (pyvc.mlist.handle_of); natively this is identity."""
    return list_item is obj


def conj(bools):
    """all(bools), every operand evaluated (in proofs: a conjunction term, no case split per operand)"""
    return all(list(bools))


def slot(d, k):
    """the value of key k in a dictionary of lists, () when absent.  (In proofs, for dictionaries with symbolic
    key presence, the value slot of k: meaningful only together with `k in d`.)"""
    return d.get(k, ())


def snapshot_lists(d):
    """a copy of a dictionary of lists, the lists copied too"""
    return {k: list(v) for k, v in d.items()}


def all_keys(*dicts):
    """the keys of the dictionaries, each once, in order of first occurrence (in proofs, for a dictionary with
    symbolic key presence: its universe of possible keys)"""
    out = []
    for d in dicts:
        for k in d.keys():
            if k not in out:
                out.append(k)
    return out
