"""Spec helpers shared by the sidecar contract modules (interpreted symbolically in proofs,
executed natively in replays)."""


def implies(a, b):
    return (not a) or b


def iff(a, b):
    return (a and b) or ((not a) and (not b))


# ---- bounded quantifiers over index ranges.  Natively these are any()/all(); in proofs the
# engine turns them into z3 quantifiers (pyvc.models.q_forall / q_exists).

def forall_range(lo, hi, pred):
    return all(pred(j) for j in range(lo, hi))


def exists_range(lo, hi, pred):
    return any(pred(j) for j in range(lo, hi))


def is_opaque(x):
    """True for objects that exist only through an interface contract (never for real instances)."""
    return type(x).__name__.startswith('Stub_')


def prefix_fold(f, init, xs, i, *extra):
    """f(...f(f(init, xs[0]), xs[1])..., xs[i-1]): the state after the first i elements of xs
    (f is called as f(state, x, *extra)).
    In proofs this is a ghost history function with its defining equations instantiated at the
    indices the clauses mention (pyvc.models.m_prefix_fold); f must be a pure module-level function
    that does not mutate its arguments."""
    acc = init
    for j in range(i):
        acc = f(acc, xs[j], *extra)
    return acc


def items_of(it):
    """the (remaining) items of an iterator or sequence, as a list"""
    return list(it)


def recursive(fn):
    """Marks a boolean spec function that calls itself (natively: plain recursion).  In proofs its value is
    an uninterpreted predicate of the arguments (scalars, by-id objects, maps, input lists / list attributes);
    the defining equation is unfolded once for the arguments of every call made outside quantifier bodies."""
    fn._pv_recursive = True
    return fn


def recursive_str(fn):
    """like `recursive`, for a spec function whose value is a string"""
    fn._pv_recursive = 'str'
    return fn


def recursive_int(fn):
    """like `recursive`, for a spec function whose value is an integer"""
    fn._pv_recursive = 'int'
    return fn


def forall_keys(d, pred):
    """pred(k) for every key k of the dict d (in proofs: a universally quantified key of the symbolic map)"""
    return all(pred(k) for k in list(d))
