"""Spec helpers shared by the sidecar contract modules (interpreted symbolically in proofs,
executed natively in replays)."""


def implies(a, b):
    return (not a) or b


def iff(a, b):
    return (a and b) or ((not a) and (not b))


# ---- bounded quantifiers over index ranges.  Natively these are any()/all(); in proofs the
# engine turns them into z3 quantifiers (pyvc.models.q_forall / q_exists).

def forall_range(lo, hi, pred):
    return all(pred(j) for j in range(lo, hi))


def exists_range(lo, hi, pred):
    return any(pred(j) for j in range(lo, hi))


def is_opaque(x):
    """True for objects that exist only through an interface contract (never for real instances)."""
    return type(x).__name__.startswith('Stub_')


# ---- sequences of strings.  Natively plain Python; in proofs `prefix_join` is a measure of the list
# (pyvc.texts: an uninterpreted prefix function with its defining equations instantiated where needed).

def prefix_join(xs, i):
    """xs[0] + ... + xs[i-1]"""
    return ''.join(xs[:i])


def join_of(xs):
    return prefix_join(xs, len(xs))


def is_find(i, s, sub):
    """i == s.find(sub)   (in proofs: through the shared concatenation pieces of s)"""
    return i == s.find(sub)


from pyvc.replaylib import PeekIter as ListIter      # noqa: E402  (a list iterator that can be inspected)


def peek(it):
    """the items an iterator has left, without consuming them (spec level only)"""
    if isinstance(it, ListIter):
        return it.xs[it.pos:]
    if isinstance(it, (list, tuple)):
        return list(it)
    raise TypeError('peek: not a spec-level iterator: %r' % (it,))


def items_of(it):
    """the (remaining) items of an iterator or sequence, as a list"""
    return list(it)
