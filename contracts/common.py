"""Spec helpers shared by the sidecar contract modules (interpreted symbolically in proofs,
executed natively in replays)."""


def implies(a, b):
    return (not a) or b


def iff(a, b):
    return (a and b) or ((not a) and (not b))
