"""Spec helpers shared by the sidecar contract modules (interpreted symbolically in proofs,
executed natively in replays)."""


def implies(a, b):
    return (not a) or b


def iff(a, b):
    return (a and b) or ((not a) and (not b))


# ---- bounded quantifiers over index ranges.  Natively these are any()/all(); in proofs the
# engine turns them into z3 quantifiers (pyvc.models.q_forall / q_exists).

def forall_range(lo, hi, pred):
    return all(pred(j) for j in range(lo, hi))


def exists_range(lo, hi, pred):
    return any(pred(j) for j in range(lo, hi))


def is_opaque(x):
    """True for objects that exist only through an interface contract (never for real instances)."""
    return type(x).__name__.startswith('Stub_')


# ---- sequences of strings.  Natively plain Python; in proofs `prefix_join` is a measure of the list
# (pyvc.texts: an uninterpreted prefix function with its defining equations instantiated where needed).

def prefix_join(xs, i):
    """xs[0] + ... + xs[i-1]"""
    return ''.join(xs[:i])


def join_of(xs):
    return prefix_join(xs, len(xs))


def is_find(i, s, sub):
    """i == s.find(sub)   (in proofs: through the shared concatenation pieces of s)"""
    return i == s.find(sub)


from pyvc.replaylib import PeekIter as ListIter      # noqa: E402  (a list iterator that can be inspected)


def peek(it):
    """the items an iterator has left, without consuming them (spec level only)"""
    if isinstance(it, ListIter):
        return it.xs[it.pos:]
    if isinstance(it, (list, tuple)):
        return list(it)
    raise TypeError('peek: not a spec-level iterator: %r' % (it,))


def all_chars(s, pred):
    """every character of the string s satisfies pred (a pure predicate on one-character strings).
    In proofs: a measure over string concatenation (pyvc.charclass)."""
    return all(pred(c) for c in s)


# ---- prefix sums / counts over sequences.  Natively plain sums; in proofs an uninterpreted prefix
# function per (sequence, f) that is unfolded one step at the index it is asked for
# (pyvc.models.q_sum_prefix / q_count_prefix).  `f` / `pred` must be module-level functions.

def sum_prefix(xs, k, f, *extra):
    """f(xs[0], *extra) + ... + f(xs[k-1], *extra)"""
    return sum(f(xs[j], *extra) for j in range(k))


def count_prefix(xs, k, pred, *extra):
    """number of j < k with pred(xs[j], *extra)"""
    return sum(1 for j in range(k) if pred(xs[j], *extra))


def nat_of_str(s):
    """the number denoted by a non-empty string of ASCII digits, else -1 (SMT-LIB str.to_int)"""
    return int(s) if s != '' and all(c in '0123456789' for c in s) else -1


def prefix_fold(f, init, xs, i, *extra):
    """f(...f(f(init, xs[0]), xs[1])..., xs[i-1]): the state after the first i elements of xs
    (f is called as f(state, x, *extra)).
    In proofs this is a ghost history function with its defining equations instantiated at the
    indices the clauses mention (pyvc.models.m_prefix_fold); f must be a pure module-level function
    that does not mutate its arguments."""
    acc = init
    for j in range(i):
        acc = f(acc, xs[j], *extra)
    return acc


def items_of(it):
    """the (remaining) items of an iterator or sequence, as a list"""
    return list(it)


def is_item(list_item, obj):
    """`list_item` (an element read from a list of objects) is the object `obj`.  In proofs symbolic lists of
    objects hold handles (pyvc.mlist.handle_of); natively this is identity."""
    return list_item is obj


def conj(bools):
    """all(bools), every operand evaluated (in proofs: a conjunction term, no case split per operand)"""
    return all(list(bools))


def slot(d, k):
    """the value of key k in a dictionary of lists, () when absent.  (In proofs, for dictionaries with symbolic
    key presence, the value slot of k: meaningful only together with `k in d`.)"""
    return d.get(k, ())


def snapshot_lists(d):
    """a copy of a dictionary of lists, the lists copied too"""
    return {k: list(v) for k, v in d.items()}


def all_keys(*dicts):
    """the keys of the dictionaries, each once, in order of first occurrence (in proofs, for a dictionary with
    symbolic key presence: its universe of possible keys)"""
    out = []
    for d in dicts:
        for k in d.keys():
            if k not in out:
                out.append(k)
    return out
def keys_subset(m1, m2):
    """every key of the dict m1 is a key of m2"""
    return all(k in m2 for k in m1)


def recursive(fn):
    """Marks a boolean spec function that calls itself (natively: plain recursion).  In proofs its value is
    an uninterpreted predicate of the arguments (scalars, by-id objects, maps, input lists / list attributes);
    the defining equation is unfolded once for the arguments of every call made outside quantifier bodies."""
    fn._pv_recursive = True
    return fn


def recursive_str(fn):
    """like `recursive`, for a spec function whose value is a string"""
    fn._pv_recursive = 'str'
    return fn


def recursive_int(fn):
    """like `recursive`, for a spec function whose value is an integer"""
    fn._pv_recursive = 'int'
    return fn


def forall_keys(d, pred):
    """pred(k) for every key k of the dict d (in proofs: a universally quantified key of the symbolic map)"""
    return all(pred(k) for k in list(d))


def share_contracts(prop, modname, select):
    """The contracts of another sidecar module that `select(qname)` accepts carry property `prop` as well: the
    check of `prop` re-proves them on the current tree, so a change that breaks one of them is reported
    under `prop` too (a property that rests on facts proved for another one).  Returns the names."""
    import importlib
    mod = importlib.import_module(modname)
    names = []
    for c in mod.M.contracts:
        if select(c.qname) and not c.trusted:
            c.props = tuple(sorted(set(c.props) | {prop}))
            names.append(c.qname)
    assert names, 'no contract of %s selected' % modname
    return names
