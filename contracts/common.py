"""Spec helpers shared by the sidecar contract modules (interpreted symbolically in proofs,
executed natively in replays)."""


def implies(a, b):
    return (not a) or b


def iff(a, b):
    return (a and b) or ((not a) and (not b))


# ---- bounded quantifiers over index ranges.  Natively these are any()/all(); in proofs the
# engine turns them into z3 quantifiers (pyvc.models.q_forall / q_exists).

def forall_range(lo, hi, pred):
    return all(pred(j) for j in range(lo, hi))


def exists_range(lo, hi, pred):
    return any(pred(j) for j in range(lo, hi))


def is_opaque(x):
    """True for objects that exist only through an interface contract (never for real instances)."""
    return type(x).__name__.startswith('Stub_')


# ---- sequences of strings.  Natively plain Python; in proofs `prefix_join` is a measure of the list
# (pyvc.texts: an uninterpreted prefix function with its defining equations instantiated where needed).

def prefix_join(xs, i):
    """xs[0] + ... + xs[i-1]"""
    return ''.join(xs[:i])


def join_of(xs):
    return prefix_join(xs, len(xs))


def is_find(i, s, sub):
    """i == s.find(sub)   (in proofs: through the shared concatenation pieces of s)"""
    return i == s.find(sub)


from pyvc.replaylib import PeekIter as ListIter      # noqa: E402  (a list iterator that can be inspected)


def peek(it):
    """the items an iterator has left, without consuming them (spec level only)"""
    if isinstance(it, ListIter):
        return it.xs[it.pos:]
    if isinstance(it, (list, tuple)):
        return list(it)
    raise TypeError('peek: not a spec-level iterator: %r' % (it,))


def all_chars(s, pred):
    """every character of the string s satisfies pred (a pure predicate on one-character strings).
    In proofs: a measure over string concatenation (pyvc.charclass)."""
    return all(pred(c) for c in s)


# ---- prefix sums / counts over sequences.  Natively plain sums; in proofs an uninterpreted prefix
# function per (sequence, f) that is unfolded one step at the index it is asked for
# (pyvc.models.q_sum_prefix / q_count_prefix).  `f` / `pred` must be module-level functions.

def sum_prefix(xs, k, f, *extra):
    """f(xs[0], *extra) + ... + f(xs[k-1], *extra)"""
    return sum(f(xs[j], *extra) for j in range(k))


def count_prefix(xs, k, pred, *extra):
    """number of j < k with pred(xs[j], *extra)"""
    return sum(1 for j in range(k) if pred(xs[j], *extra))


# ---- concatenation of a sequence of sequences (flat-map).  Natively plain Python; in proofs `flat_offset` is an
# uninterpreted prefix function (pyvc.flat.q_flat_offset: defining equations at the index asked for, offsets
# non-decreasing) and `is_flat_concat` is interpreted as written.  `piece` must be a pure module-level function.

def flat_offset(xs, k, piece, *extra):
    """len(piece(xs[0], *extra)) + ... + len(piece(xs[k-1], *extra)): where the piece of element k starts"""
    return sum(len(piece(xs[j], *extra)) for j in range(k))


def same_item(a, b):
    """the same object (values that have no identity of their own -- strings, numbers: the same value)"""
    return a == b if isinstance(a, (str, int)) else a is b


def is_flat_concat(out, xs, n, piece, *extra):
    """out is the in-order concatenation of piece(xs[0]), ..., piece(xs[n-1]):
    the length is the sum of the lengths; item k of piece j is item flat_offset(j) + k of out."""
    return len(out) == flat_offset(xs, n, piece, *extra) \
        and forall_range(0, n, lambda j: forall_range(
            0, len(piece(xs[j], *extra)),
            lambda k: same_item(out[flat_offset(xs, j, piece, *extra) + k], piece(xs[j], *extra)[k])))


def nat_of_str(s):
    """the number denoted by a non-empty string of ASCII digits, else -1 (SMT-LIB str.to_int)"""
    return int(s) if s != '' and all(c in '0123456789' for c in s) else -1


def prefix_fold(f, init, xs, i, *extra):
    """f(...f(f(init, xs[0]), xs[1])..., xs[i-1]): the state after the first i elements of xs
    (f is called as f(state, x, *extra)).
    In proofs this is a ghost history function with its defining equations instantiated at the
    indices the clauses mention (pyvc.models.m_prefix_fold); f must be a pure module-level function
    that does not mutate its arguments."""
    acc = init
    for j in range(i):
        acc = f(acc, xs[j], *extra)
    return acc


def items_of(it):
    """the (remaining) items of an iterator or sequence, as a list"""
    return list(it)


def is_item(list_item, obj):
    """`list_item` (an element read from a list of objects) is the object `obj`.  In proofs symbolic lists of
    objects hold handles (pyvc.mlist.handle_of); natively this is identity."""
    return list_item is obj


def conj(bools):
    """all(bools), every operand evaluated (in proofs: a conjunction term, no case split per operand)"""
    return all(list(bools))


def slot(d, k):
    """the value of key k in a dictionary of lists, () when absent.  (In proofs, for dictionaries with symbolic
    key presence, the value slot of k: meaningful only together with `k in d`.)"""
    return d.get(k, ())


def snapshot_lists(d):
    """a copy of a dictionary of lists, the lists copied too"""
    return {k: list(v) for k, v in d.items()}


def all_keys(*dicts):
    """the keys of the dictionaries, each once, in order of first occurrence (in proofs, for a dictionary with
    symbolic key presence: its universe of possible keys)"""
    out = []
    for d in dicts:
        for k in d.keys():
            if k not in out:
                out.append(k)
    return out
def keys_subset(m1, m2):
    """every key of the dict m1 is a key of m2"""
    return all(k in m2 for k in m1)


def recursive(fn):
    """Marks a boolean spec function that calls itself (natively: plain recursion).  In proofs its value is
    an uninterpreted predicate of the arguments (scalars, by-id objects, maps, input lists / list attributes);
    the defining equation is unfolded once for the arguments of every call made outside quantifier bodies."""
    fn._pv_recursive = True
    return fn


def recursive_str(fn):
    """like `recursive`, for a spec function whose value is a string"""
    fn._pv_recursive = 'str'
    return fn


def recursive_int(fn):
    """like `recursive`, for a spec function whose value is an integer"""
    fn._pv_recursive = 'int'
    return fn


def rec_app(fn, *args):
    """The value of a `@recursive` / `@recursive_int` / `@recursive_str` spec function at the given arguments
    WITHOUT its defining equation being assumed at this call (in proofs: only the application term) -- for
    clauses that are assumed where the unfolding is not wanted (postconditions at call sites)."""
    return fn(*args)


def forall_keys(d, pred):
    """pred(k) for every key k of the dict d (in proofs: a universally quantified key of the symbolic map)"""
    return all(pred(k) for k in list(d))


def share_contracts(prop, modname, select):
    """The contracts of another sidecar module that `select(qname)` accepts carry property `prop` as well: the
    check of `prop` re-proves them on the current tree, so a change that breaks one of them is reported
    under `prop` too (a property that rests on facts proved for another one).  Returns the names."""
    import importlib
    mod = importlib.import_module(modname)
    names = []
    for c in mod.M.contracts:
        if select(c.qname) and not c.trusted:
            c.props = tuple(sorted(set(c.props) | {prop}))
            names.append(c.qname)
    assert names, 'no contract of %s selected' % modname
    return names


def record_accessor_obligations(ctx, rel_files=None):
    """Tuple-backed record classes (`class X(tuple)` with `__new__` building `tuple.__new__(cls, (a, b, ...))` and
    accessors `return self[k]`): an accessor that is named like a constructor parameter must return the component
    that is built from that parameter.  AST scan of the whole tree (or of the given files below exactly_lib/)."""
    import ast
    import os
    from pyvc import REPO_SRC
    root = os.path.join(REPO_SRC, 'exactly_lib')
    n = 0
    for dirpath, _dirs, files in os.walk(root):
        for fn in sorted(files):
            if not fn.endswith('.py'):
                continue
            path = os.path.join(dirpath, fn)
            rel = os.path.relpath(path, root).replace(os.sep, '/')
            if rel_files is not None and rel not in rel_files:
                continue
            src = open(path, encoding='utf-8').read()
            if 'tuple.__new__' not in src:
                continue
            for cls in [c for c in ast.walk(ast.parse(src, path)) if isinstance(c, ast.ClassDef)]:
                new = [f for f in cls.body if isinstance(f, ast.FunctionDef) and f.name == '__new__']
                if not new:
                    continue
                params = [a.arg for a in new[0].args.args[1:] + new[0].args.kwonlyargs]
                elems = None
                for c in ast.walk(new[0]):
                    if isinstance(c, ast.Call) and isinstance(c.func, ast.Attribute) and c.func.attr == '__new__' \
                            and isinstance(c.func.value, ast.Name) and c.func.value.id == 'tuple' \
                            and len(c.args) == 2 and isinstance(c.args[1], ast.Tuple):
                        elems = c.args[1].elts
                if elems is None:
                    continue
                # locals of __new__ stand for the parameters they are computed from
                origin = {p: {p} for p in params}
                for st in ast.walk(new[0]):
                    if isinstance(st, ast.Assign) and len(st.targets) == 1 and isinstance(st.targets[0], ast.Name):
                        src_names = set()
                        for x in ast.walk(st.value):
                            if isinstance(x, ast.Name):
                                src_names |= origin.get(x.id, set())
                        origin[st.targets[0].id] = origin.get(st.targets[0].id, set()) | src_names
                built_from = [set().union(*[origin.get(x.id, set()) for x in ast.walk(e) if isinstance(x, ast.Name)] or [set()])
                              for e in elems]
                for f in cls.body:
                    if not (isinstance(f, ast.FunctionDef) and f.name in params
                            and any(isinstance(d, ast.Name) and d.id == 'property' for d in f.decorator_list)):
                        continue
                    rets = [r for r in ast.walk(f) if isinstance(r, ast.Return)]
                    if len(rets) != 1 or not (isinstance(rets[0].value, ast.Subscript)
                                              and isinstance(rets[0].value.value, ast.Name)
                                              and rets[0].value.value.id == 'self'
                                              and isinstance(rets[0].value.slice, ast.Constant)
                                              and isinstance(rets[0].value.slice.value, int)):
                        continue
                    k = rets[0].value.slice.value
                    ok = 0 <= k < len(elems) and f.name in built_from[k]
                    n += 1
                    ctx.obligation('%s: %s.%s returns the component built from the constructor argument `%s`'
                                   % (rel, cls.name, f.name, f.name), ok, 'scan',
                                   detail={'index': k, 'component': ast.unparse(elems[k]) if 0 <= k < len(elems) else None})
    ctx.obligation('record classes were found', n >= 1, 'scan', detail={'accessors': n})
    return n
