"""C05 (extension T14) -- `strip`, `strip -trailing-space`, `strip -trailing-new-lines`: the REAL line generators of
impl/strip_space.py are proved deductively, relative to an UNINTERPRETED white-space class.

The reference manual: "Removes all WHITESPACE at the beginning and end of the text (by default)" / "... at the end of
the text" / "Removes every NEW-LINE at the end of the text".  For a text t given as its proper division into lines
(`is_split_nl(lines, t)`, what I_SSC.as_lines gives: C14) each generator yields the proper division into lines of the
stripped text R, where R is *characterised* with the same class predicate as the code uses:

    is_rstripped(R, t, C):   t == R + b,  every character of b is in C,  R is empty or its last character is not in C
    is_stripped(R, t, C):    t == a + R + b,  every character of a and of b is in C,  R is empty or neither its
                             first nor its last character is in C

(C = white space: `str.isspace` of one character, uninterpreted in proofs except on ASCII;  C = {new-line} for
-trailing-new-lines.)  R is determined uniquely by t and C (word combinatorics; not needed in the proofs), and it is
`t.rstrip()` / `t.strip()` / `t.rstrip('\\n')` of CPython: that is the content of the check `strip-models`, which
evaluates the short list of facts assumed of CPython on ALL 0x110000 code points (see M.trust below).
"""
try:
    import z3
except ImportError:      # replays run under the repository's interpreter, without z3
    z3 = None

from pyvc.api import (Module, Interface, Method, Iface, Inst, Int, Nat, Pos, Bool, Str, Opt, OneOf, Const, Union,
                      ListOf, MListOf, IterOf, FixedList, Any_, Custom)
from contracts.common import (implies, iff, forall_range, exists_range, prefix_join, join_of, peek, all_chars,
                              recursive_str)
from contracts import text_spec
from contracts.text_spec import NL, is_line, is_split_nl, split_nl, line_body

M = Module('C05')
text_spec.register_models(M)

P_STRIP = 'exactly_lib.impls.types.string_transformer.impl.strip_space'


# ------------------------------------------------------------------------------ spec

def proper_lines(xs):
    """xs is the proper division of the text join(xs) into lines"""
    return forall_range(0, len(xs), lambda j: is_line(xs[j])) \
        and forall_range(0, len(xs) - 1, lambda j: xs[j].endswith(NL))


@recursive_str
def nl_run(k):
    """k new-lines"""
    return '' if k <= 0 else nl_run(k - 1) + NL


def is_rstripped_nl(r, t):
    """r is t without the new-lines at its end: t == r + (new-lines only), r does not end in a new-line"""
    return t == r + nl_run(len(t) - len(r)) and len(r) <= len(t) and not r.endswith(NL)


# ------------------------------------------------------------------------------ strip -trailing-new-lines

M.contract(P_STRIP + ':_strip_trailing_new_lines',
           params=dict(lines=IterOf(Str)),
           requires=lambda lines: proper_lines(lines.xs),
           old=lambda lines: join_of(lines.xs),
           yields=ListOf(Str),
           ensures={
               'yields the lines of the text without the new-lines at its end':
                   lambda yielded, old: is_split_nl(yielded, join_of(yielded))
                   and is_rstripped_nl(join_of(yielded), old),
           },
           raises_only=())


def _run_tnl(line, num):
    """the number of new-lines at the end of the text read so far: that of the last line that is not just a
    new-line, and the lines counted after it"""
    return num + (1 if line.endswith(NL) else 0)


def _inv_tnl(_i, _n, lines, yielded, line_before_counted_empty_lines, num_empty_lines_skipped):
    xs = lines.xs
    m = len(yielded)
    return num_empty_lines_skipped >= 0 and m + 1 + num_empty_lines_skipped == _i \
        and line_before_counted_empty_lines == xs[m] \
        and (m == 0 or xs[m] != NL) \
        and nl_run(0) == '' and len(nl_run(_run_tnl(xs[m], num_empty_lines_skipped))) == _run_tnl(xs[m], num_empty_lines_skipped) \
        and prefix_join(xs, _i) == prefix_join(xs, m) + line_body(xs[m]) + nl_run(_run_tnl(xs[m], num_empty_lines_skipped)) \
        and join_of(yielded) == prefix_join(xs, m) \
        and forall_range(0, m, lambda j: yielded[j] == xs[j]) \
        and forall_range(m + 1, _i, lambda k: xs[k] == NL)


def _inv_tnl_inner(_i1, lines, yielded, num_empty_lines_skipped):
    xs = lines.xs
    m = len(yielded)
    return num_empty_lines_skipped >= 0 and m + num_empty_lines_skipped == _i1 \
        and join_of(yielded) == prefix_join(xs, m) \
        and forall_range(0, m, lambda j: yielded[j] == xs[j]) \
        and forall_range(m, _i1, lambda k: xs[k] == NL)


M.loop(P_STRIP + ':_strip_trailing_new_lines', 0, invariant=lambda _i: _i == 0,
       modifies=dict(line_before_counted_empty_lines=Str))
M.loop(P_STRIP + ':_strip_trailing_new_lines', 1, invariant=_inv_tnl,
       modifies=dict(yielded='len', line_before_counted_empty_lines=Str, num_empty_lines_skipped=Int,
                     next_line='local'))
M.loop(P_STRIP + ':_strip_trailing_new_lines', 2, invariant=_inv_tnl_inner,
       modifies=dict(yielded='len', num_empty_lines_skipped=Int),
       decreases=lambda num_empty_lines_skipped: num_empty_lines_skipped)
