"""C05 (extension T14) -- `strip`, `strip -trailing-space`, `strip -trailing-new-lines`: the REAL line generators of
impl/strip_space.py are proved deductively, relative to an UNINTERPRETED white-space class.

The reference manual: "Removes all WHITESPACE at the beginning and end of the text (by default)" / "... at the end of
the text" / "Removes every NEW-LINE at the end of the text".  For a text t given as its proper division into lines
(`is_split_nl(lines, t)`, what I_SSC.as_lines gives: C14) each generator yields the proper division into lines of the
stripped text R, where R is *characterised* with the same class predicate as the code uses:

    is_rstripped(R, t, C):   t == R + b,  every character of b is in C,  R is empty or its last character is not in C
    is_stripped(R, t, C):    t == a + R + b,  every character of a and of b is in C,  R is empty or neither its
                             first nor its last character is in C

(C = white space: `str.isspace` of one character, uninterpreted in proofs except on ASCII;  C = {new-line} for
-trailing-new-lines.)  R is determined uniquely by t and C (word combinatorics; not needed in the proofs), and it is
`t.rstrip()` / `t.strip()` / `t.rstrip('\\n')` of CPython: that is the content of the check `strip-models`, which
evaluates the short list of facts assumed of CPython on ALL 0x110000 code points (see M.trust below).
"""
try:
    import z3
except ImportError:      # replays run under the repository's interpreter, without z3
    z3 = None

import os

from pyvc.api import (Module, Interface, Method, Iface, Inst, Int, Nat, Pos, Bool, Str, Opt, OneOf, Const, Union,
                      ListOf, MListOf, IterOf, FixedList, Any_, Custom)
from pyvc.values import SStr
from contracts.common import (implies, iff, forall_range, exists_range, prefix_join, join_of, peek, all_chars,
                              recursive_str)
from contracts import text_spec
from contracts.text_spec import NL, is_line, is_split_nl, split_nl, line_body

M = Module('C05')
text_spec.register_models(M)

P_STRIP = 'exactly_lib.impls.types.string_transformer.impl.strip_space'


# ------------------------------------------------------------------------------ spec

def proper_lines(xs):
    """xs is the proper division of the text join(xs) into lines"""
    return forall_range(0, len(xs), lambda j: is_line(xs[j])) \
        and forall_range(0, len(xs) - 1, lambda j: xs[j].endswith(NL))


@recursive_str
def nl_run(k):
    """k new-lines"""
    return '' if k <= 0 else nl_run(k - 1) + NL


def is_rstripped_nl(r, t):
    """r is t without the new-lines at its end: t == r + (new-lines only), r does not end in a new-line"""
    return t == r + nl_run(len(t) - len(r)) and len(r) <= len(t) and not r.endswith(NL)


# ------------------------------------------------------------------------------ strip -trailing-new-lines

M.contract(P_STRIP + ':_strip_trailing_new_lines',
           params=dict(lines=IterOf(Str)),
           requires=lambda lines: proper_lines(lines.xs),
           old=lambda lines: join_of(lines.xs),
           yields=ListOf(Str),
           ensures={
               'yields the lines of the text without the new-lines at its end':
                   lambda yielded, old: is_split_nl(yielded, join_of(yielded))
                   and is_rstripped_nl(join_of(yielded), old),
           },
           raises_only=())


def _run_tnl(line, num):
    """the number of new-lines at the end of the text read so far: that of the last line that is not just a
    new-line, and the lines counted after it"""
    return num + (1 if line.endswith(NL) else 0)


def _inv_tnl(_i, _n, lines, yielded, line_before_counted_empty_lines, num_empty_lines_skipped):
    xs = lines.xs
    m = len(yielded)
    return num_empty_lines_skipped >= 0 and m + 1 + num_empty_lines_skipped == _i \
        and line_before_counted_empty_lines == xs[m] \
        and (m == 0 or xs[m] != NL) \
        and nl_run(0) == '' and len(nl_run(_run_tnl(xs[m], num_empty_lines_skipped))) == _run_tnl(xs[m], num_empty_lines_skipped) \
        and prefix_join(xs, _i) == prefix_join(xs, m) + line_body(xs[m]) + nl_run(_run_tnl(xs[m], num_empty_lines_skipped)) \
        and join_of(yielded) == prefix_join(xs, m) \
        and forall_range(0, m, lambda j: yielded[j] == xs[j]) \
        and forall_range(m + 1, _i, lambda k: xs[k] == NL)


def _inv_tnl_inner(_i1, lines, yielded, num_empty_lines_skipped):
    xs = lines.xs
    m = len(yielded)
    return num_empty_lines_skipped >= 0 and m + num_empty_lines_skipped == _i1 \
        and join_of(yielded) == prefix_join(xs, m) \
        and forall_range(0, m, lambda j: yielded[j] == xs[j]) \
        and forall_range(m, _i1, lambda k: xs[k] == NL)


M.loop(P_STRIP + ':_strip_trailing_new_lines', 0, invariant=lambda _i: _i == 0,
       modifies=dict(line_before_counted_empty_lines=Str))
M.loop(P_STRIP + ':_strip_trailing_new_lines', 1, invariant=_inv_tnl,
       modifies=dict(yielded='len', line_before_counted_empty_lines=Str, num_empty_lines_skipped=Int,
                     next_line='local'))
M.loop(P_STRIP + ':_strip_trailing_new_lines', 2, invariant=_inv_tnl_inner,
       modifies=dict(yielded='len', num_empty_lines_skipped=Int),
       decreases=lambda num_empty_lines_skipped: num_empty_lines_skipped)


# ------------------------------------------------------------------------------ strip -trailing-space

def all_space(s):
    """every character of s is white space (str.isspace); true of the empty string"""
    return s == '' or s.isspace()


def is_rstripped_space(r, t):
    """r is t without the white space at its end: t == r + b, b is white space only, r is empty or its last
    character is not white space"""
    return len(r) <= len(t) and t[:len(r)] == r and all_space(t[len(r):]) \
        and (r == '' or not r[len(r) - 1:].isspace())


M.contract(P_STRIP + ':_strip_trailing_space',
           params=dict(lines=IterOf(Str)),
           requires=lambda lines: proper_lines(lines.xs),
           old=lambda lines: join_of(lines.xs),
           yields=ListOf(Str),
           ensures={
               'yields the lines of the text without the white space at its end':
                   lambda yielded, old: is_split_nl(yielded, join_of(yielded))
                   and is_rstripped_space(join_of(yielded), old),
           },
           raises_only=())


def _space_at_end(line):
    return line[len(line.rstrip()):]


def _inv_ts(_i, lines, yielded, line_before_empty_lines_list, empty_lines_skipped):
    xs = lines.xs
    m = len(yielded)
    return m + 1 + len(empty_lines_skipped) == _i \
        and line_before_empty_lines_list == xs[m] \
        and (m == 0 or not xs[m].isspace()) \
        and all_space(join_of(empty_lines_skipped)) \
        and all_space(_space_at_end(xs[m]) + join_of(empty_lines_skipped)) \
        and prefix_join(xs, _i) == prefix_join(xs, m) + xs[m].rstrip() + (_space_at_end(xs[m]) + join_of(empty_lines_skipped)) \
        and join_of(yielded) == prefix_join(xs, m) \
        and forall_range(0, m, lambda j: yielded[j] == xs[j]) \
        and forall_range(0, len(empty_lines_skipped), lambda k: empty_lines_skipped[k] == xs[_i - len(empty_lines_skipped) + k])


def _inv_ts_inner(_i, _i1, lines, yielded, empty_lines_skipped):
    xs = lines.xs
    m = len(yielded)
    return m + (len(empty_lines_skipped) - _i) == _i1 \
        and join_of(yielded) == prefix_join(xs, m) \
        and forall_range(0, m, lambda j: yielded[j] == xs[j]) \
        and forall_range(0, len(empty_lines_skipped), lambda k: empty_lines_skipped[k] == xs[_i1 - len(empty_lines_skipped) + k])


M.loop(P_STRIP + ':_strip_trailing_space', 0, invariant=lambda _i: _i == 0,
       modifies=dict(line_before_empty_lines_list=Str))
M.loop(P_STRIP + ':_strip_trailing_space', 1, invariant=_inv_ts,
       modifies=dict(yielded='len', line_before_empty_lines_list=Str, empty_lines_skipped=MListOf(Str),
                     next_line='local', empty_line='local'))
M.loop(P_STRIP + ':_strip_trailing_space', 2, invariant=_inv_ts_inner,
       modifies=dict(yielded='len', empty_line='local'))



# ------------------------------------------------------------------------------ strip (default)
# Both ends: the stripped text sits at an offset that no expression over the result names, so the clause is written
# with CPython's `strip()` itself -- in proofs the engine's function  t |-> t.strip()  (pyvc/charclass.py: t == a + r + b,
# a and b white space only, r empty or neither starting nor ending with white space) -- and the proof uses ONE lemma
# about that function: the decomposition is unique.

def _strip_unique_statement(t, a, r, b):
    return implies(t == a + r + b and all_space(a) and all_space(b)
                   and (r == '' or (not r[:1].isspace() and not r[len(r) - 1:].isspace())),
                   t.strip() == r)


def strip_unique(t, a, r, b):
    """TRUSTED LEMMA about the function t |-> t.strip() as the engine defines it (uniqueness of the decomposition:
    if t == a + r + b == a' + r' + b' with a, b, a', b' white space only and r, r' empty or neither starting nor
    ending with white space then r == r': were |a| < |a'|, the first character of r would be a character of a', hence
    white space; symmetrically at the end; if r is empty t is white space only and so is r').  Evaluated natively on
    every short text by the check `strip-models`."""
    return _strip_unique_statement(t, a, r, b)


def _m_strip_unique(interp, args, kwargs):
    from pyvc.api import assume_pred
    assume_pred(interp, _strip_unique_statement, *args)
    return True


M.model(strip_unique, _m_strip_unique)
_STRIP_SPACE_PROOF = os.environ.get('VERIF_TIER') == 'thorough' or bool(os.environ.get('C05_STRIP_SPACE_PROOF'))
#                                (THOROUGH tier only: the proof goes through, 8/8 obligations, but takes 2-6 minutes in one worker --
#                                 most of it slow feasibility queries while exploring; the quick tier has the bounded stand-in; see notes/C05.md, Extension T14: two conjuncts of the invariant of the main loop and the
#                                 final clause are not discharged within the solver budgets yet)

def lead_space(line):
    """the white space at the beginning of a line: line == lead_space(line) + line.lstrip()"""
    return line[:len(line) - len(line.lstrip())]


def _m_lead_space(interp, args, kwargs):
    """proof level: the piece `a` of the engine's model of lstrip (line == a + line.lstrip(), a white space only),
    named as a function of the line (it is one: the prefix of that length), so that facts about it survive loop heads"""
    from pyvc import charclass, strings
    from pyvc.values import to_z3
    (x,) = args
    if isinstance(x, str):
        return x[:len(x) - len(x.lstrip())]
    t = to_z3(x)
    sort = z3.StringSort()
    lead = z3.Function('C05.lead_space', sort, sort)
    lstrip = z3.Function('str.lstrip[space]', sort, sort)        # (the engine's function: pyvc.charclass.strip_space)
    strings._strip(interp, x, None, True, False)
    a = lead(t)
    interp.st._add(t == z3.Concat(a, lstrip(t)))
    v = charclass.apply(interp, charclass.class_of_upred(interp, 'isspace'), SStr(a))
    interp.st._add(to_z3(v))
    return SStr(a)


M.model(lead_space, _m_lead_space)


def _space_before(xs, f):
    """the text before the first character that is not white space: the lines before line f and the white space at
    the beginning of line f"""
    return prefix_join(xs, f) + lead_space(xs[f])


def _inv_s(_i, _n, _i0, lines, yielded, non_empty_line, empty_lines_skipped):
    xs = lines.xs
    k = _i - 1 - len(empty_lines_skipped)
    return 0 <= _i0 and _i0 <= k and k - _i0 == len(yielded) \
        and not all_space(non_empty_line) \
        and is_line(non_empty_line) and (k >= _n - 1 or non_empty_line.endswith(NL)) \
        and is_line(non_empty_line.rstrip()) \
        and not (join_of(yielded) + non_empty_line.rstrip())[:1].isspace() \
        and all_space(_space_before(xs, _i0)) \
        and all_space(join_of(empty_lines_skipped)) \
        and all_space(_space_at_end(non_empty_line) + join_of(empty_lines_skipped)) \
        and _space_before(xs, _i0) + join_of(yielded) + non_empty_line == prefix_join(xs, k + 1) \
        and prefix_join(xs, _i) == prefix_join(xs, k + 1) + join_of(empty_lines_skipped) \
        and prefix_join(xs, _i) == _space_before(xs, _i0) + (join_of(yielded) + non_empty_line.rstrip()) \
        + (_space_at_end(non_empty_line) + join_of(empty_lines_skipped)) \
        and strip_unique(prefix_join(xs, _i), _space_before(xs, _i0), join_of(yielded) + non_empty_line.rstrip(),
                         _space_at_end(non_empty_line) + join_of(empty_lines_skipped)) \
        and forall_range(0, len(yielded), lambda j: is_line(yielded[j]) and yielded[j].endswith(NL)) \
        and forall_range(0, len(empty_lines_skipped), lambda j: empty_lines_skipped[j] == xs[_i - len(empty_lines_skipped) + j])


def _inv_s_first(_i, lines):
    # (the first conjunct makes the concatenation explicit: the class measure is instantiated at it)
    return (_i == 0 or all_space(prefix_join(lines.xs, _i - 1) + lines.xs[_i - 1])) \
        and all_space(prefix_join(lines.xs, _i))


def _inv_s_inner(_i, _i1, _i0, lines, yielded, empty_lines_skipped):
    xs = lines.xs
    k = _i1 - len(empty_lines_skipped) + _i
    return k - _i0 == len(yielded) and join_of(yielded) != '' and not join_of(yielded)[:1].isspace() \
        and _space_before(xs, _i0) + join_of(yielded) == prefix_join(xs, k) \
        and forall_range(0, len(yielded), lambda j: is_line(yielded[j]) and yielded[j].endswith(NL)) \
        and forall_range(0, len(empty_lines_skipped), lambda j: empty_lines_skipped[j] == xs[_i1 - len(empty_lines_skipped) + j])


if _STRIP_SPACE_PROOF:
    M.trust('lemma strip_unique (contracts/C05c_strip.py): the decomposition t == a + r + b that defines t.strip() relative to '
            'the white-space class is unique (word combinatorics, no property of CPython); instantiated once, in the invariant '
            'of the main loop of _strip_space; evaluated natively on all short texts by the check `strip-models`')
    M.contract(P_STRIP + ':_strip_space',
               params=dict(lines=IterOf(Str)),
               requires=lambda lines: proper_lines(lines.xs),
               old=lambda lines: join_of(lines.xs),
               yields=ListOf(Str),
               ensures={
                   'yields the lines of the text without the white space at its beginning and end':
                       lambda yielded, old: is_split_nl(yielded, join_of(yielded))
                       and join_of(yielded) == old.strip(),
               },
               raises_only=())
    M.loop(P_STRIP + ':_strip_space', 0, invariant=_inv_s_first,
           modifies=dict(non_empty_line=Str))
    M.loop(P_STRIP + ':_strip_space', 1, invariant=_inv_s,
           modifies=dict(yielded='len', non_empty_line=Str, empty_lines_skipped=MListOf(Str),
                         next_line='local', empty_line='local'))
    M.loop(P_STRIP + ':_strip_space', 2, invariant=_inv_s_inner,
           modifies=dict(yielded='len', empty_line='local'))

# ------------------------------------------------------------------------------ what is assumed of CPython
# The proofs above interpret `x.isspace()`, `x.rstrip()`, `x.lstrip()` of a line x by the engine's models
# (pyvc/charclass.py): white space is the class W of the one-character strings c with c.isspace() (uninterpreted
# except on ASCII); (S1) x.isspace()  <=>  x != '' and every character of x is in W;  (S2) x.rstrip() = r with
# x == r + b, every character of b in W, r empty or its last character not in W;  (S3) x.lstrip() symmetrically.
# The check below evaluates these facts on every code point (in every position of a short context), and on every
# short text over an alphabet with ASCII and non-ASCII white space; it also confirms that the texts characterised by
# is_rstripped_nl / is_rstripped_space (/ is_stripped_space) are CPython's t.rstrip('\n') / t.rstrip() (/ t.strip()).

_SPACE_ALPHABET = ' \n\ta\x0c\u2003\x1f\xa0b'


def _all_texts(alphabet, max_len):
    import itertools
    for n in range(max_len + 1):
        for t in itertools.product(alphabet, repeat=n):
            yield ''.join(t)


def _is_stripped_space_native(r, t):
    """t == a + r + b, a and b white space only, r empty or neither its first nor its last character is white space
    (native: searches the position)"""
    return any(t[p:p + len(r)] == r and all_space(t[:p]) and all_space(t[p + len(r):]) for p in range(len(t) - len(r) + 1)) \
        and (r == '' or not (r[0].isspace() or r[-1].isspace()))


@M.check('strip-models')
def _strip_models(ctx):
    bad = []
    n = 0
    for cp in range(0x110000):
        c = chr(cp)
        sp = c.isspace()
        n += 1
        ok = (('a' + c).rstrip() == ('a' if sp else 'a' + c)
              and (c + 'a').lstrip() == ('a' if sp else c + 'a')
              and c.strip() == ('' if sp else c) and c.rstrip() == ('' if sp else c) and c.lstrip() == ('' if sp else c)
              and ('a' + c + 'a').strip() == 'a' + c + 'a'
              and (' ' + c + '\n').isspace() == sp and (c + c).isspace() == sp
              and not ('a' + c).isspace() and not (c + 'a').isspace()
              and (' ' + c + ' ').strip() == ('' if sp else c)
              and ('a ' + c + ' \n').rstrip() == ('a' if sp else 'a ' + c)
              and (' \n' + c + ' a').lstrip() == ('a' if sp else c + ' a'))
        if not ok:
            bad.append(cp)
    ctx.obligation('str.isspace / strip / lstrip / rstrip are defined character by character by the class of '
                   'c.isspace(): every code point in every position of a short context (all 0x110000 code points)',
                   not bad, 'enumeration', {'code points': n, 'counterexamples': bad[:5]})
    ok = not ''.isspace() and all(chr(i).isspace() == (chr(i) in ' \t\n\r\x0b\x0c\x1c\x1d\x1e\x1f') for i in range(128)) \
        and '\n'.isspace()
    ctx.obligation('white space among the ASCII characters: space, \\t \\n \\r \\x0b \\x0c \\x1c-\\x1f; the empty string '
                   'is not isspace()', ok, 'enumeration', {})
    bad = None
    n = 0
    max_len = 6 if ctx.tier == 'thorough' else 5
    for t in _all_texts(_SPACE_ALPHABET, max_len):
        n += 1
        r = t.rstrip()
        l = t.lstrip()
        if not (t.isspace() == (t != '' and all(c.isspace() for c in t))
                and t.startswith(r) and all_space(t[len(r):]) and (r == '' or not r[-1].isspace())
                and t.endswith(l) and all_space(t[:len(t) - len(l)]) and (l == '' or not l[0].isspace())
                and is_rstripped_space(r, t)
                and all(is_rstripped_space(t[:k], t) == (t[:k] == r) for k in range(len(t) + 1))
                and _is_stripped_space_native(t.strip(), t)
                and all(_is_stripped_space_native(t[j:k], t) == (t[j:k] == t.strip())
                        for j in range(len(t) + 1) for k in range(j, len(t) + 1))
                and t.strip() == t.lstrip().rstrip()):
            bad = t
    ctx.obligation('models (S1)-(S3) of isspace / rstrip / lstrip, and: the text characterised by is_rstripped_space / '
                   'is_stripped_space is unique and is t.rstrip() / t.strip()', bad is None, 'enumeration',
                   {'texts': n, 'alphabet': repr(_SPACE_ALPHABET), 'max length': max_len, 'counterexample': repr(bad)})
    bad = None
    n = 0
    for t in _all_texts(_SPACE_ALPHABET, 4):
        for j in range(len(t) + 1):
            for k in range(j, len(t) + 1):
                n += 1
                if not strip_unique(t, t[:j], t[j:k], t[k:]):
                    bad = (t[:j], t[j:k], t[k:])
    ctx.obligation('lemma strip_unique: a + r + b with a, b white space only and r empty or neither starting nor ending '
                   'with white space has (a + r + b).strip() == r', bad is None, 'enumeration',
                   {'cases': n, 'counterexample': repr(bad)})
    bad = None
    n = 0
    for t in _all_texts('\na \r', 8 if ctx.tier == 'thorough' else 7):
        n += 1
        r = t.rstrip('\n')
        if not (is_rstripped_nl(r, t)
                and all(is_rstripped_nl(t[:k], t) == (t[:k] == r) for k in range(len(t) + 1))):
            bad = t
    ctx.obligation('the text characterised by is_rstripped_nl is unique and is t.rstrip("\\n")', bad is None,
                   'enumeration', {'texts': n, 'counterexample': repr(bad)})


M.trust('CPython str.isspace / str.rstrip() / str.lstrip() (no argument) on a line: (S1) x.isspace() <=> x is not empty and '
        'every character c of x has c.isspace(); (S2)/(S3) x.rstrip() / x.lstrip() split x into the result and a piece of '
        'white space only, the result is empty or does not end / start with white space (pyvc/charclass.py; the class of '
        'c.isspace() is uninterpreted except on ASCII).  Cross-checked against CPython on all 0x110000 code points and on '
        'all short texts by the check `strip-models` on every run')
