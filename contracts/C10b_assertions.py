"""C10, last-but-one sentence: "Its exit code, stdout and stderr are what exit-code, stdout and stderr
assertions subsequently see."

Two kinds of "it":
 * the ACTION TO CHECK: the ATC executor writes result/exit-code, result/stdout, result/stderr of the sandbox
   (contracts.C10_process: _store_exit_code, _do_execute; C04 proves these files hold the action's output); the
   default variant of the assertions reads exactly those files (`result-files` check there, `_ExitCodeGetter` here);
 * a PROGRAM given with `-from PROGRAM`: the assertion starts the program itself and must look at the channel
   (exit code / stdout / stderr) of THAT process which the instruction is about.
The clauses speak about channels of the started process -- "the file the process was given as its stdout / stderr"
(ghost link `g_path` of the open file handed to the command executor) -- not about file names."""
from pyvc.api import (Module, Interface, Method, Iface, Inst, Int, Nat, Bool, Str, Opt, OneOf, Const, Union,
                      ListOf, FixedList, Any_, EnumOf, Custom, new_opaque)
from contracts.C10_process import (SETTINGS, FsPathI, FileI, FileCtxI, StdinCtxI, DirFileSpaceI, OsServicesI, TcdsI, SdsI,
                                   executions, execution_results, opened, _returned, HardErrorException, OPEN)
from contracts.C19_timeouts import (ENV_POST_SDS, OS_SERVICES, PROGRAM, APP_ENV, DIR_FILE_SPACE, SDV, DDV, PRIMITIVE,
                                    TransformerI, TextReaderI, FailureMessageConfigI, primitives)

from exactly_lib.impls.program_execution import file_transformation_utils as ftu
from exactly_lib.impls.exception.pfh_exception import PfhHardErrorException
from exactly_lib.test_case.result import pfh
from exactly_lib.util.process_execution.process_output_files import ProcOutputFile

M = Module('C10')

P_FTU = 'exactly_lib.impls.program_execution.file_transformation_utils'

# ------------------------------------------------------------------------------ assumed helpers (module-local summaries)

TRANSFORM = 'transform_to_file'
RESOLVE_TRANSFORMATIONS = 'resolve-transformations'
STDIN_OF_SEQUENCE = 'stdin.of_sequence'

M.contract('exactly_lib.impls.file_creation:FileTransformerHelper.transform_to_file', trusted=True, event=TRANSFORM,
           params=dict(self=Any_, src_path=Any_, dst_path=Any_, transformer=Any_), returns=Opt(Any_))
M.trust('file_creation.FileTransformerHelper.transform_to_file(src, dst, transformer) writes to `dst` the text of `src` '
        'transformed by `transformer` (what a transformer does to a text: C05; a text has one value: C14); returns an '
        'error message or None.  Ghost event with its three arguments.')
M.contract('exactly_lib.impls.types.string_transformer.sequence_resolving:resolve', trusted=True,
           event=RESOLVE_TRANSFORMATIONS, params=dict(unknown_num_transformers=Any_), returns=Iface(TransformerI))
M.trust('string_transformer.sequence_resolving.resolve(transformers): the one transformer that applies the given '
        'transformers in sequence (identity for none): C05')
M.contract('exactly_lib.impls.types.string_source.as_stdin:of_sequence', trusted=True, event=STDIN_OF_SEQUENCE,
           params=dict(stdin_parts=Any_, mem_buff_size=Any_), returns=Iface(StdinCtxI))
M.trust('as_stdin.of_sequence(parts, n): context manager for a file with the concatenated texts of the parts (C10_process '
        'proves the order for the action to check; C14 the texts)')
M.contract('exactly_lib.common.err_msg.std_err_contents:InitialPartReaderWithRestIndicator.read', trusted=True,
           params=dict(self=Any_, f=Any_), returns=Str)


# ------------------------------------------------------------------------------ vocabulary

def channel_file_of_process(trace, channel):
    """the file the ONE started process was given as `channel` (its stdout or its stderr)"""
    es = executions(trace)
    if len(es) != 1:
        raise ValueError('not exactly one process start')
    files = es[0][3]
    if channel is ProcOutputFile.STDOUT:
        return files.output.out.g_path
    return files.output.err.g_path


def transformations(trace):
    """(source file, destination file, transformer) of every file transformation on this path"""
    return [(e[1]['src_path'], e[1]['dst_path'], e[1]['transformer']) for e in trace if e[0] == TRANSFORM]


def resolved_transformer(trace):
    return [e[2] for e in trace if e[0] == RESOLVE_TRANSFORMATIONS + ':returned'][0]


def resolved_from(trace):
    return [e[1]['unknown_num_transformers'] for e in trace if e[0] == RESOLVE_TRANSFORMATIONS][0]


def sees_channel(path, channel, program, trace):
    """`path` is what an assertion on `channel` of `program` must look at: the file the process wrote that channel to
    when the program has no transformation; otherwise the file to which exactly that file, transformed by the
    transformations of the program, was written"""
    t = resolved_transformer(trace)
    if resolved_from(trace) is not program.transformation:
        return False
    if t.is_identity_transformer:
        return transformations(trace) == [] and path is channel_file_of_process(trace, channel)
    ts = transformations(trace)
    return len(ts) == 1 and ts[0][0] is channel_file_of_process(trace, channel) and ts[0][2] is t \
        and path is ts[0][1]


def the_path_seen(result):
    return result.process_result.files.directory / result.file_with_transformed_contents


# ------------------------------------------------------------------------------ (a) output of a program, for an assertion

M.contract(P_FTU + ':make_transformed_file_from_output', inline=True,
           params=dict(pgm_output_dir=Iface(FsPathI), process_execution_settings=SETTINGS, os_services=OS_SERVICES,
                       tmp_file_space=DIR_FILE_SPACE, transformed_output=EnumOf(ProcOutputFile), program=PROGRAM),
           ensures={
               'the file that is looked at is that of the channel asked for: the file the process wrote THAT channel '
               'to (identity transformation), else that file transformed by the transformations of the program':
                   lambda transformed_output, program, result, trace:
                   sees_channel(the_path_seen(result), transformed_output, program, trace)
                   and the_path_seen(result) is result.path_of_file_with_transformed_contents,
               'the process runs the command of the program with the stdin parts of the program':
                   lambda program, trace:
                   executions(trace)[0][1] is program.command
                   and [e[1]['stdin_parts'] for e in trace if e[0] == STDIN_OF_SEQUENCE][0] is program.stdin,
               'the exit code in the result is the one the process start returned': lambda result, trace:
               result.process_result.exit_code == execution_results(trace)[0],
           },
           raises={PfhHardErrorException: {
               'ensures': lambda exc: exc._status is pfh.PassOrFailOrHardErrorEnum.HARD_ERROR}},
           raises_only=())

M.contract(P_FTU + ':make_transformed_file_from_output_in_instruction_tmp_dir', inline=True,
           params=dict(environment=ENV_POST_SDS, os_services=OS_SERVICES, checked_output=EnumOf(ProcOutputFile),
                       program=PROGRAM),
           ensures={
               'the file that is looked at is that of the channel asked for: the file the process wrote THAT channel '
               'to (identity transformation), else that file transformed by the transformations of the program':
                   lambda checked_output, program, result, trace:
                   sees_channel(result.path_of_file_with_transformed_contents, checked_output, program, trace),
               'the exit code in the result is the one the process start returned': lambda result, trace:
               result.process_result.exit_code == execution_results(trace)[0],
           },
           raises={PfhHardErrorException: {
               'ensures': lambda exc: exc._status is pfh.PassOrFailOrHardErrorEnum.HARD_ERROR}},
           raises_only=())


# ------------------------------------------------------------------------------ (b) stdout / stderr assertions

from exactly_lib.impls.instructions.assert_.process_output.impl import out_err_file
from exactly_lib.impls.instructions.assert_.process_output import defs as process_output_defs
from exactly_lib.impls.instructions.assert_.utils.file_contents.actual_files import ComparisonActualFile
from exactly_lib.section_document.element_parsers.token_stream_parser import TokenParser
from exactly_lib.type_val_deps.types.path import path_ddvs

P_OEF = 'exactly_lib.impls.instructions.assert_.process_output.impl.out_err_file'


class AbsolutePathDescribedI(Interface):
    """the DescribedPath of an absolute path; ghost g_str: its text"""
    attrs = {'g_str': Str}


class AbsolutePathDdvI(Interface):
    attrs = {'g_str': Str}
    methods = {'value_of_any_dependency__d': Method(model=lambda interp, self, args, kwargs: new_opaque(
        interp, AbsolutePathDescribedI, 'described-path', preset={'g_str': interp.getattr(self, 'g_str')}))}


def _absolute_path(interp, args, kwargs):
    return new_opaque(interp, AbsolutePathDdvI, 'absolute-path',
                      preset={'g_str': interp.call(str, [args[0]], {})})


M.model(path_ddvs.absolute_path, _absolute_path)
M.trust('path_ddvs.absolute_path(p) is the path (DDV) with the text str(p), independent of symbols and directories (C12); '
        'ghost g_str = str(p)')

ACTUAL_FILE_FOR_PROGRAM = Inst(out_err_file._ComparisonActualFileConstructorForProgram,
                               _checked_output=EnumOf(ProcOutputFile), _program=SDV)


def _the_program(trace):
    return [e[2] for e in trace if e[0] == PRIMITIVE + ':returned'][0]


def _the_file_seen(channel, program, trace):
    """the path `p` with sees_channel(p, channel, program, trace), read off the events"""
    if resolved_transformer(trace).is_identity_transformer:
        return channel_file_of_process(trace, channel)
    return transformations(trace)[0][1]


M.contract(P_OEF + ':_ComparisonActualFileConstructorForProgram.construct',
           params=dict(self=ACTUAL_FILE_FOR_PROGRAM, environment=ENV_POST_SDS, os_services=OS_SERVICES),
           returns=Any_,
           ensures={
               '`stdout|stderr -from PROGRAM`: the text that is checked is that of THIS instruction\'s channel of the '
               'process started for PROGRAM (transformed by the transformations of PROGRAM)':
                   lambda self, result, trace:
                   len(primitives(trace)) == 1
                   and sees_channel(_the_file_seen(self._checked_output, _the_program(trace), trace),
                                    self._checked_output, _the_program(trace), trace)
                   and type(result) is ComparisonActualFile
                   and result[0].g_str == str(_the_file_seen(self._checked_output, _the_program(trace), trace)),
           },
           raises={PfhHardErrorException: {'ensures': lambda exc: exc._status is pfh.PassOrFailOrHardErrorEnum.HARD_ERROR}},
           raises_only=())


OPTION_QUERY = 'consume_optional_option'


class OptionOracleI(Interface):
    methods = {'__call__': Method(returns=Bool, event=OPTION_QUERY)}


class _TokenParserForProof(TokenParser):
    """a TokenParser whose token stream is arbitrary: only the answer to "is the next token this option?" matters"""

    def consume_optional_option(self, option_name):
        return self.the_option_oracle(option_name)


class ProgramParserI(Interface):
    methods = {'parse_from_token_parser': Method(returns=Any_, event='program-parsed')}


OUT_ERR_PARSER = Inst(out_err_file.Parser, _consume_last_line_if_is_at_eol_after_parse=Bool,
                      _consume_last_line_if_is_at_eof_after_parse=Bool,
                      _checked_file=EnumOf(ProcOutputFile), _checked_file_name=Any_, _default=Any_,
                      _PROGRAM_PARSER=Iface(ProgramParserI))

M.contract(P_OEF + ':Parser.parse_from_token_parser',
           params=dict(self=OUT_ERR_PARSER, parser=Inst(_TokenParserForProof, the_option_oracle=Iface(OptionOracleI))),
           returns=Any_,
           ensures={
               'only the option -from is looked for': lambda trace:
               [e[2][0] for e in trace if e[0] == OPTION_QUERY] == [process_output_defs.OUTPUT_FROM_PROGRAM_OPTION_NAME],
               'without -from: the default (output of the action to check: `result-files`); with `-from PROGRAM`: the '
               'output of that PROGRAM on the channel of THIS parser (stdout parser: stdout, stderr parser: stderr)':
                   lambda self, result, trace:
                   (type(result) is out_err_file._ComparisonActualFileConstructorForProgram
                    and result._checked_output is self._checked_file
                    and result._program is _returned(trace, 'program-parsed'))
                   if _returned(trace, OPTION_QUERY) else (result is self._default),
           },
           raises_only=())


@M.check('channels-of-the-assertions')
def _channels(ctx):
    """the instruction named stdout checks STDOUT, the one named stderr checks STDERR (finite: the real parsers);
    the default of each is the file of its own channel in the result directory (`result-files` in C10_process)"""
    from exactly_lib.impls.instructions.assert_.process_output import stdout, stderr
    for mod, ch in ((stdout, ProcOutputFile.STDOUT), (stderr, ProcOutputFile.STDERR)):
        p = mod.parser('name')
        inner = [v for v in vars(p).values() if isinstance(v, out_err_file.Parser)]
        ok = len(inner) == 1 and inner[0]._checked_file is ch \
            and type(inner[0]).parse_from_token_parser is out_err_file.Parser.parse_from_token_parser \
            and type(inner[0])._parse_program is out_err_file.Parser._parse_program
        ctx.obligation('the %s instruction is built on out_err_file.Parser(%s)' % (ch.name.lower(), ch.name), ok,
                       'enumeration', detail={'parsers': repr(inner)})


# ------------------------------------------------------------------------------ (b) exit-code assertion

import subprocess
from exactly_lib.impls.instructions.assert_.process_output import exit_code as exit_code_parser
from exactly_lib.impls.instructions.assert_.process_output.impl.exit_code import (getter_from_atc, getter_from_program,
                                                                                   instruction as exit_code_instruction)
from exactly_lib.impls.instructions.assert_.process_output.impl import texts as process_output_texts
from exactly_lib.impls.instructions.assert_.utils import instruction_of_matcher
from exactly_lib.impls.program_execution.processors.store_result_in_files import ExitCodeAndStderrFile
from exactly_lib.impls.types.matcher import property_matcher

P_GFA = 'exactly_lib.impls.instructions.assert_.process_output.impl.exit_code.getter_from_atc'
P_GFP = 'exactly_lib.impls.instructions.assert_.process_output.impl.exit_code.getter_from_program'
P_ECI = 'exactly_lib.impls.instructions.assert_.process_output.impl.exit_code.instruction'

MODEL = Inst(ExitCodeAndStderrFile, _tuple=[Int, Iface(FsPathI)])

# --- the action to check: what was stored in result/exit-code, and result/stderr

M.contract(P_GFA + ':_ExitCodeGetter.get',
           params=dict(self=Inst(getter_from_atc._ExitCodeGetter, _tcds=Iface(TcdsI), _sds=Iface(SdsI))),
           ghosts=dict(n=Int), returns=MODEL,
           ensures={
               '`exit-code` (of the action to check): reads result/exit-code of the sandbox and nothing else':
                   lambda self, trace: opened(trace) == [(self._sds.result.exitcode_file, 'r')],
               'the integer that is compared is the one that was stored: if the file holds str(n) -- what the ATC '
               'executor wrote (_store_exit_code) -- the model\'s exit code is n':
                   lambda result, trace, n:
                   (not ([e[2] for e in trace if e[0] == 'file.read:returned'][0] == str(n))) or result[0] == n,
               'the stderr shown with a failure is result/stderr of the sandbox': lambda self, result:
               result[1] is self._sds.result.stderr_file,
           },
           raises={HardErrorException: {}}, cover=('raise HardErrorException',),
           raises_only=())

for _cls, _params, _post in (
        ('_ExitCodeGetterSdv', dict(symbols=Any_), lambda result: type(result) is getter_from_atc._ExitCodeGetterDdv),
        ('_ExitCodeGetterDdv', dict(tcds=Iface(TcdsI)),
         lambda tcds, result: type(result) is getter_from_atc._ExitCodeGetterAdv and result._tcds is tcds),
        ('_ExitCodeGetterAdv', dict(environment=Any_),
         lambda self, result: type(result) is getter_from_atc._ExitCodeGetter and result._tcds is self._tcds
                              and result._sds is self._tcds.sds)):
    _method = {'_ExitCodeGetterSdv': 'resolve', '_ExitCodeGetterDdv': 'value_of_any_dependency',
               '_ExitCodeGetterAdv': 'primitive'}[_cls]
    _self = Inst(getattr(getter_from_atc, _cls), **({'_tcds': Iface(TcdsI)} if _cls == '_ExitCodeGetterAdv' else {}))
    M.contract('%s:%s.%s' % (P_GFA, _cls, _method), inline=True, params=dict(self=_self, **_params),
               ensures={'the getter of the sandbox of THIS test case': _post}, raises_only=())

# --- `exit-code -from PROGRAM`: exit code and stderr of the process started for PROGRAM

M.contract(P_GFP + ':_ExitCodeAndStderrFileGetter.get',
           params=dict(self=Inst(getter_from_program._ExitCodeAndStderrFileGetter, _program=PROGRAM, _app_env=APP_ENV)),
           returns=MODEL,
           ensures={
               '`exit-code -from PROGRAM`: the integer that is compared is the exit code the process start returned':
                   lambda result, trace: len(executions(trace)) == 1 and result[0] == execution_results(trace)[0],
               'the process runs the command of the program with the stdin parts of the program; its stdout is discarded':
                   lambda self, trace:
                   executions(trace)[0][1] is self._program.command
                   and [e[1]['stdin_parts'] for e in trace if e[0] == STDIN_OF_SEQUENCE][0] is self._program.stdin
                   and executions(trace)[0][3].output.out is subprocess.DEVNULL,
               'the stderr shown with a failure is the file the process wrote its stderr to': lambda result, trace:
               result[1] is channel_file_of_process(trace, ProcOutputFile.STDERR),
           },
           raises={HardErrorException: {}},
           raises_only=())


class ProgramSdvI(Interface):
    attrs = {'references': Any_}
    methods = {'resolve': Method(returns=Iface(lambda: ProgramDdvI), event='program.resolve')}


class ProgramDdvI(Interface):
    attrs = {'validator': Any_}
    methods = {'value_of_any_dependency': Method(returns=Any_, event='program.value_of_any_dependency')}


M.contract(P_GFP + ':_ExitCodeAndStderrFileGetterSdv.resolve', inline=True,
           params=dict(self=Inst(getter_from_program._ExitCodeAndStderrFileGetterSdv, _program=Iface(ProgramSdvI)),
                       symbols=Any_),
           ensures={'the getter of the resolved program': lambda result, trace:
           type(result) is getter_from_program._ExitCodeAndStderrFileGetterDdv
           and result._program is _returned(trace, 'program.resolve')}, raises_only=())

M.contract(P_GFP + ':_ExitCodeAndStderrFileGetterDdv.value_of_any_dependency', inline=True,
           params=dict(self=Inst(getter_from_program._ExitCodeAndStderrFileGetterDdv, _program=Iface(ProgramDdvI)),
                       tcds=Any_),
           ensures={'the getter of the program for the directories of this test case': lambda result, trace:
           type(result) is getter_from_program._ExitCodeAndStderrFileGetterAdv
           and result._program is _returned(trace, 'program.value_of_any_dependency')}, raises_only=())

# --- which getter: the parser

EXIT_CODE_PARSER = Inst(exit_code_parser.Parser, _matcher_parser=Any_, _program_parser=Iface(ProgramParserI))

M.contract('exactly_lib.impls.instructions.assert_.process_output.exit_code:Parser._parse_setup',
           params=dict(self=EXIT_CODE_PARSER,
                       token_parser=Inst(_TokenParserForProof, the_option_oracle=Iface(OptionOracleI))),
           returns=Any_,
           ensures={
               'only the option -from is looked for': lambda trace:
               [e[2][0] for e in trace if e[0] == OPTION_QUERY] == [process_output_defs.OUTPUT_FROM_PROGRAM_OPTION_NAME],
               'without -from: the exit code of the action to check (result/exit-code); with `-from PROGRAM`: the exit '
               'code of the process started for that PROGRAM': lambda result, trace:
               (type(result[1]) is getter_from_program._ExitCodeAndStderrFileGetterSdv
                and result[1]._program is _returned(trace, 'program-parsed'))
               if _returned(trace, OPTION_QUERY) else (type(result[1]) is getter_from_atc._ExitCodeGetterSdv),
           }, raises_only=())

# --- the comparison is about the exit code of the model

INT_MATCHER = 'int-matcher.matches_w_trace'


class IntMatcherResultI(Interface):
    attrs = {'value': Bool, 'trace': Any_}


class IntMatcherI(Interface):
    """the integer matcher written after `exit-code` (C05/C06): applying it is a ghost event with the integer"""
    methods = {'matches_w_trace': Method(returns=Iface(IntMatcherResultI), event=INT_MATCHER),
               'structure': Method(returns=Any_)}


class IntMatcherAdvI(Interface):
    methods = {'primitive': Method(returns=Iface(IntMatcherI))}


class IntMatcherDdvI(Interface):
    attrs = {'validator': Any_}
    methods = {'value_of_any_dependency': Method(returns=Iface(IntMatcherAdvI)), 'structure': Method(returns=Any_)}


class IntMatcherSdvI(Interface):
    attrs = {'references': ListOf(Any_)}
    methods = {'resolve': Method(returns=Iface(IntMatcherDdvI))}


M.contract(P_ECI + ':_ExitCodePropGetter.get_from', inline=True,
           params=dict(self=Inst(exit_code_instruction._ExitCodePropGetter), model=MODEL),
           ensures={'the exit code of the model': lambda model, result: result == model[0]}, raises_only=())


def exit_code_matcher_applied(int_matcher_sdv, symbols, tcds, app_env, model):
    """Scenario: the matcher the exit-code instruction is built with (real _exit_code_matcher_from_int_matcher and
    the real PropertyMatcher sdv/ddv/adv chain), resolved the way instruction_of_matcher does, applied to a model"""
    sdv = exit_code_instruction._exit_code_matcher_from_int_matcher(int_matcher_sdv)
    matcher = sdv.resolve(symbols).value_of_any_dependency(tcds).primitive(app_env)
    return matcher.matches_w_trace(model)


M.contract('contracts.C10b_assertions:exit_code_matcher_applied',
           params=dict(int_matcher_sdv=Iface(IntMatcherSdvI), symbols=Any_, tcds=Any_, app_env=Any_, model=MODEL),
           ensures={
               'the integer matcher of the instruction is applied once, to the exit code of the model (the integer '
               'that was stored / returned) -- not to anything else': lambda model, trace:
               [e[2] for e in trace if e[0] == INT_MATCHER] == [(model[0],)],
               'the assertion holds iff the integer matcher matches that exit code': lambda result, trace:
               result.value == _returned(trace, INT_MATCHER).value,
           }, raises_only=())

M.contract(P_ECI + ':instruction', inline=True,
           params=dict(object_name=Str, matcher=Iface(IntMatcherSdvI), model_getter=Any_),
           ensures={'an instruction that gets its model from the given getter and compares with the given integer '
                    'matcher': lambda matcher, model_getter, result:
           type(result) is instruction_of_matcher.Instruction and result._model_getter is model_getter
           and type(result._matcher) is property_matcher.PropertyMatcherSdv and result._matcher._matcher is matcher},
           raises_only=())

# --- the instruction: the matcher is applied to the model the getter got

from contracts.C19_timeouts import MATCHER_INSTRUCTION

M.contract('exactly_lib.impls.instructions.assert_.utils.instruction_of_matcher:Instruction._execute', inline=True,
           params=dict(self=MATCHER_INSTRUCTION, os_services=OS_SERVICES, environment=ENV_POST_SDS,
                       model_getter_ddv=DDV, matcher_ddv=DDV),
           ensures={
               'the matcher is applied once, to exactly the model the getter got': lambda trace:
               len([e for e in trace if e[0] == 'get']) == 1
               and [e[2] for e in trace if e[0] == 'matches_w_trace'] == [(_returned(trace, 'get'),)],
               'PASS iff the matcher matches, else FAIL': lambda result, trace:
               result.status is (pfh.PassOrFailOrHardErrorEnum.PASS if _returned(trace, 'matches_w_trace').value
                                 else pfh.PassOrFailOrHardErrorEnum.FAIL),
           },
           raises={HardErrorException: {}},
           raises_only=())
