"""C06 ("... its value therefore equals the value computed from that structure") also covers what is DERIVED from the
structure of a line-matcher expression for the read-ahead optimisation of `filter`: the interval of `!`, `&&`, `||`
nodes (impls/types/interval/matcher_interval.py, util/interval/w_inversion) must be sound for the value of the
expression, else the value of `filter EXPR` is not that of the structure (seeded change C06-s8: the inversion of a
conjunction combined with `intersection` instead of `union`: `filter ! line-num ( >= 2 && <= 3 )` outputs nothing).
Proved for C13 (contracts/C13_filter.py); those contracts carry C06 too."""
from pyvc.api import Module

M = Module('C06')


def _share():
    from contracts.common import share_contracts
    names = share_contracts('C06', 'contracts.C13_filter',
                            lambda q: q.startswith(('exactly_lib.impls.types.interval.', 'exactly_lib.util.interval.')))
    assert len(names) >= 10, names


M.after_load = _share
