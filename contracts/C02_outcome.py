"""C02 -- outcome table: status x assert outcome -> verdict, exit code, identifier, per output mode.

Every input is an enum member or an integer and every function is loop free: the symbolic
inputs range over the *full* domain, so the proof is complete (no bound)."""
from pyvc.api import (Module, Interface, Method, Iface, Inst, Int, Nat, Bool, Str, Opt, OneOf, Const, Union,
                      FixedList, Any_, EnumOf, Custom)
from contracts.common import implies, iff

from exactly_lib.common import process_result_reporter, process_result_reporters, result_reporting as common_reporting
from exactly_lib.common.exit_value import ExitValue
from exactly_lib.execution.full_execution import result as full_result
from exactly_lib.execution.full_execution.result import FullExeResultStatus, FullExeResult
from exactly_lib.execution.result import ExecutionFailureStatus, ActionToCheckOutcome
from exactly_lib.processing import exit_values, test_case_processing as tcp
from exactly_lib.processing.standalone import result_reporting
from exactly_lib.processing.standalone.settings import ReportingOption
from exactly_lib.test_case.test_case_status import TestCaseStatus
from exactly_lib.util.file_printer import FilePrinter
from exactly_lib.util.process_execution.process_output_files import ProcOutputFile
from exactly_lib.util.ansi_terminal_color import ForegroundColor

M = Module('C02')

# ------------------------------------------------------------------------------ the documented table (oracle)

CODE = {
    'PASS': 0, 'SKIPPED': 0,
    'FAIL': 32, 'XFAIL': 33, 'XPASS': 33,
    'SYNTAX_ERROR': 65, 'VALIDATION_ERROR': 65, 'FILE_ACCESS_ERROR': 65, 'PRE_PROCESS_ERROR': 65,
    'HARD_ERROR': 128, 'INTERNAL_ERROR': 129,
}
COMPLETE = ('PASS', 'FAIL', 'XPASS', 'XFAIL')


def verdict(mode, failure):
    """mode: configured test-case status; failure: None (nothing failed) or the kind of the failing step."""
    if mode is TestCaseStatus.SKIP:
        return 'SKIPPED'
    if failure is None:
        return 'XPASS' if mode is TestCaseStatus.FAIL else 'PASS'
    if failure is ExecutionFailureStatus.FAIL:
        return 'XFAIL' if mode is TestCaseStatus.FAIL else 'FAIL'
    return failure.name


def verdict_of_result(result):
    if result.status is tcp.Status.EXECUTED:
        return result.execution_result.status.name
    if result.status is tcp.Status.ACCESS_ERROR:
        return result.access_error_type.name
    return 'INTERNAL_ERROR'


def is_table_row(ev, name):
    return ev.exit_code == CODE[name] and ev.exit_identifier == name


# ------------------------------------------------------------------------------ status translation

P_FR = 'exactly_lib.execution.full_execution.result'
P_EV = 'exactly_lib.processing.exit_values'
P_RR = 'exactly_lib.processing.standalone.result_reporting'
P_PRR = 'exactly_lib.common.process_result_reporters'

FAILURE = Opt(EnumOf(ExecutionFailureStatus))

M.contract(P_FR + ':translate_status',
           params=dict(execution_mode=OneOf(TestCaseStatus.PASS, TestCaseStatus.FAIL), ps=FAILURE),
           returns=EnumOf(FullExeResultStatus),
           ensures={'documented-verdict': lambda execution_mode, ps, result: result.name == verdict(execution_mode, ps)},
           raises_only=())


def _mk_atc_outcome(interp, name):
    return ActionToCheckOutcome(Int.make(interp, name + '.exit_code'))


ATC_OUTCOME = Opt(Inst(ActionToCheckOutcome, _tuple=[Int]))

PARTIAL_RESULT_I = None


class PartialResultI(Interface):
    """PartialExeResult seen through its four read-only properties."""
    attrs = {'status': FAILURE, 'sds': Any_, 'action_to_check_outcome': ATC_OUTCOME, 'failure_info': Any_}


M.contract(P_FR + ':new_from_result_of_partial_execution',
           params=dict(execution_mode=OneOf(TestCaseStatus.PASS, TestCaseStatus.FAIL),
                       partial_result=Iface(PartialResultI)), inline=True,
           ensures={
               'documented-verdict': lambda execution_mode, partial_result, result:
               result.status.name == verdict(execution_mode, partial_result.status),
               'carries-sds-outcome-failure': lambda partial_result, result:
               result.sds is partial_result.sds
               and result.action_to_check_outcome is partial_result.action_to_check_outcome
               and result.failure_info is partial_result.failure_info,
           }, raises_only=())

M.contract(P_FR + ':new_skipped', params=dict(), inline=True,
           ensures={'skipped': lambda result: result.status.name == verdict(TestCaseStatus.SKIP, None)
                                              and not result.has_sds and result.action_to_check_outcome is None},
           raises_only=())

# ------------------------------------------------------------------------------ exit values

EXIT_VALUE = Inst(ExitValue, _tuple=[Int, Str, EnumOf(ForegroundColor)])

M.contract(P_EV + ':from_full_result', params=dict(status=EnumOf(FullExeResultStatus)), returns=EXIT_VALUE,
           ensures={'table-row': lambda status, result: is_table_row(result, status.name)}, raises_only=())

M.contract(P_EV + ':from_access_error', params=dict(result=EnumOf(tcp.AccessErrorType)), returns=EXIT_VALUE,
           ensures={'table-row': lambda result, ret: is_table_row(ret, result.name) and ret.exit_code == 65},
           raises_only=())

FULL_EXE_RESULT = Inst(FullExeResult,
                       _FullExeResult__status=EnumOf(FullExeResultStatus),
                       _ResultBase__sds=Opt(Any_),
                       _ResultBase__action_to_check_outcome=ATC_OUTCOME,
                       _ResultBase__failure_info=Opt(Any_))

RESULT = Inst(tcp.Result, _tuple=[EnumOf(tcp.Status), Any_, Opt(EnumOf(tcp.AccessErrorType)), Opt(FULL_EXE_RESULT)])


def result_is_well_formed(result):
    """error_type is given iff ACCESS_ERROR, execution_result iff EXECUTED (docstring of Result;
    established by the three constructors new_internal_error / new_access_error / new_executed)"""
    return iff(result.status is tcp.Status.ACCESS_ERROR, result.access_error_type is not None) \
        and iff(result.status is tcp.Status.EXECUTED, result.execution_result is not None)


M.contract(P_EV + ':from_result', params=dict(result=RESULT), returns=EXIT_VALUE,
           requires=lambda result: result_is_well_formed(result),
           ensures={'table-row': lambda result, ret: is_table_row(ret, verdict_of_result(result))},
           raises_only=())

for _ctor, _params, _post in (
        ('new_internal_error', dict(error_info=Any_), lambda ret: ret.status is tcp.Status.INTERNAL_ERROR),
        ('new_access_error', dict(error=EnumOf(tcp.AccessErrorType), error_info=Any_),
         lambda ret, error: ret.status is tcp.Status.ACCESS_ERROR and ret.access_error_type is error),
        ('new_executed', dict(execution_result=FULL_EXE_RESULT),
         lambda ret, execution_result: ret.status is tcp.Status.EXECUTED and ret.execution_result is execution_result),
):
    M.contract('exactly_lib.processing.test_case_processing:' + _ctor, params=_params, inline=True,
               ensures={'well-formed': lambda ret: result_is_well_formed(ret), 'as-named': _post},
               raises_only=())


# ------------------------------------------------------------------------------ reporters and output modes
# Ghost streams: a printer is an opaque FilePrinter; everything written through it is an event.

class _FileOfPrinterI(Interface):
    methods = {'flush': Method(event='flush')}


class PrinterI(Interface):
    target_class = FilePrinter
    attrs = {'file': Iface(_FileOfPrinterI)}
    methods = {
        'write_colored_line': Method(event='line', params=['line', 'color']),
        'write_line': Method(event='line', params=['line', 'indent']),
        'write': Method(event='write'),
        'flush': Method(event='flush'),
    }


def lines_on(trace, printer):
    """the lines written to `printer`, in order"""
    return [e[2][0] for e in trace if e[0] == 'line' and e[1] is printer]


def calls(trace):
    """the call events (without the ':returned' / ':raised' outcome events)"""
    return [e for e in trace if ':' not in e[0]]


def touched(trace, printer):
    return [e for e in trace if e[0] in ('line', 'write', 'error-message') and
            (e[1] is printer or (e[0] == 'error-message' and e[1]['printer'] is printer))]


def _mk_env(interp, name):
    out = Iface(PrinterI).make(interp, name + '.out')
    err = Iface(PrinterI).make(interp, name + '.err')
    printers = process_result_reporter.StdOutputFilePrinters(out, err)
    return process_result_reporter.Environment(Any_.make(interp, name + '.std_files'), printers)


def _mk_env_concrete(cx, name):
    out = Iface(PrinterI).concrete(cx, name + '.out')
    err = Iface(PrinterI).concrete(cx, name + '.err')
    return process_result_reporter.Environment(object(), process_result_reporter.StdOutputFilePrinters(out, err))


ENVIRONMENT = Custom(_mk_env, concrete=_mk_env_concrete)

# assumed: the renderers of error messages write to the printer they are given and to nothing else
M.contract('exactly_lib.common.result_reporting:print_error_message_for_full_result', trusted=True,
           params=dict(printer=Iface(PrinterI), the_full_result=Any_), event='error-message')
M.contract('exactly_lib.common.result_reporting:print_error_info', trusted=True,
           params=dict(printer=Iface(PrinterI), error_info=Any_), event='error-message')
M.trust('common.result_reporting.print_error_message_for_full_result / print_error_info write only to the '
        'printer they are given (rendering of error messages is outside the property)')

M.contract('exactly_lib.common.process_result_reporter:StdOutputFilePrinters.get',
           params=dict(self=Inst(process_result_reporter.StdOutputFilePrinters,
                                 _tuple=[Iface(PrinterI), Iface(PrinterI)]),
                       file=EnumOf(ProcOutputFile)), inline=True,
           ensures={'stdout-is-out-else-err': lambda self, file, ret:
           ret is (self.out if file is ProcOutputFile.STDOUT else self.err)}, raises_only=())

M.contract(P_PRR + ':_output_exit_value',
           params=dict(printer=Iface(PrinterI),
                       exit_value=Inst(ExitValue, _tuple=[Int, Str, EnumOf(ForegroundColor)])),
           inline=True,
           ensures={'one-line-identifier': lambda printer, exit_value, trace:
           lines_on(trace, printer) == [exit_value.exit_identifier]}, raises_only=())


def _mk_reporter(cls):
    def mk(interp, name):
        r = object.__new__(cls)
        r._reporting_environment = _mk_env(interp, name + '.env')
        return r

    def mk_concrete(cx, name):
        r = object.__new__(cls)
        r._reporting_environment = _mk_env_concrete(cx, name + '.env')
        return r

    return Custom(mk, concrete=mk_concrete)


NORMAL = _mk_reporter(result_reporting._ResultReporterForNormalOutput)
KEEP = _mk_reporter(result_reporting._ResultReporterForPreserveAndPrintSandboxDir)
ACT = _mk_reporter(result_reporting._ResultReporterForActPhaseOutput)


def out_of(reporter):
    return reporter._reporting_environment.std_file_printers.out


def err_of(reporter):
    return reporter._reporting_environment.std_file_printers.err


class SdsI(Interface):
    attrs = {'root_dir': Any_}


FULL_EXE_RESULT_W_SDS = Inst(FullExeResult,
                             _FullExeResult__status=EnumOf(FullExeResultStatus),
                             _ResultBase__sds=Opt(Iface(SdsI)),
                             _ResultBase__action_to_check_outcome=ATC_OUTCOME,
                             _ResultBase__failure_info=Opt(Any_))
RESULT2 = Inst(tcp.Result, _tuple=[EnumOf(tcp.Status), Any_, Opt(EnumOf(tcp.AccessErrorType)),
                                   Opt(FULL_EXE_RESULT_W_SDS)])

M.contract(P_RR + ':_ResultReporterForNormalOutput.report', returns=Int,
           params=dict(self=NORMAL, result=RESULT2),
           requires=lambda result: result_is_well_formed(result),
           ensures={
               'stdout-is-exactly-the-identifier': lambda self, result, trace:
               lines_on(trace, out_of(self)) == [verdict_of_result(result)]
               and len(touched(trace, out_of(self))) == 1,
               'exit-code-of-the-table': lambda self, result, ret: ret == CODE[verdict_of_result(result)],
           }, raises_only=())


def _has_sandbox(result):
    return result.status is tcp.Status.EXECUTED and result.execution_result.has_sds


M.contract(P_RR + ':_ResultReporterForPreserveAndPrintSandboxDir.report', returns=Int,
           params=dict(self=KEEP, result=RESULT2),
           requires=lambda result: result_is_well_formed(result),
           ensures={
               'stdout-is-only-the-sandbox-path': lambda self, result, trace:
               len(touched(trace, out_of(self))) == (1 if _has_sandbox(result) else 0)
               and len(lines_on(trace, out_of(self))) == (1 if _has_sandbox(result) else 0),
               'identifier-first-on-stderr': lambda self, result, trace:
               lines_on(trace, err_of(self))[0] == verdict_of_result(result),
               'exit-code-of-the-table': lambda self, result, ret: ret == CODE[verdict_of_result(result)],
               'needs-sandbox-kept': lambda self: self.depends_on_result_in_sandbox() is True,
           }, raises_only=())


def _completed(result):
    return result.status is tcp.Status.EXECUTED and result.execution_result.status.name in COMPLETE


M.contract(P_RR + ':_ResultReporterForActPhaseOutput.report', returns=Int,
           params=dict(self=ACT, result=RESULT2),
           # a completely executed case has an outcome of the action to check (C01, clause `outcome`)
           requires=lambda result: result_is_well_formed(result) and (
                   (not _completed(result)) or result.execution_result.action_to_check_outcome is not None),
           ensures={
               'completed: nothing written, exit code of the action': lambda self, result, ret, trace:
               implies(_completed(result),
                       trace == [] and ret == result.execution_result.action_to_check_outcome.exit_code),
               'otherwise: identifier on stderr, nothing on stdout, exit code of the table':
                   lambda self, result, ret, trace:
                   _completed(result) or (lines_on(trace, err_of(self))[0] == verdict_of_result(result)
                                          and touched(trace, out_of(self)) == []
                                          and ret == CODE[verdict_of_result(result)]),
               'act-output-passes-through': lambda self:
               self.execute_atc_and_skip_assertions() is self._reporting_environment.std_files,
           }, raises_only=())

M.contract(P_RR + ':_ResultReporterForNormalOutput.execute_atc_and_skip_assertions', params=dict(self=NORMAL),
           inline=True,
           ensures={'assertions-not-skipped': lambda ret: ret is None}, raises_only=())
M.contract(P_RR + ':_ResultReporterForNormalOutput.depends_on_result_in_sandbox', params=dict(self=NORMAL),
           inline=True,
           ensures={'sandbox-removed': lambda ret: ret is False}, raises_only=())


# (C04: "the sandbox is removed unless --keep": --act does not keep it either)
M.contract(P_RR + ':_ResultReporterForActPhaseOutput.depends_on_result_in_sandbox', params=dict(self=ACT),
           inline=True,
           ensures={'sandbox-removed': lambda ret: ret is False}, raises_only=())


@M.check('constants')
def _constants(ctx):
    """Finite obligations on the real module constants (read from the imported current tree)."""
    rr = result_reporting.RESULT_REPORTERS
    ctx.obligation('RESULT_REPORTERS maps the three options to the three reporters',
                   rr == {ReportingOption.STATUS_CODE: result_reporting._ResultReporterForNormalOutput,
                          ReportingOption.SANDBOX_DIRECTORY_STRUCTURE_ROOT:
                              result_reporting._ResultReporterForPreserveAndPrintSandboxDir,
                          ReportingOption.ACT_PHASE_OUTPUT: result_reporting._ResultReporterForActPhaseOutput},
                   'enumeration', detail={'value': repr(rr)})
    complete = {s.name for s in result_reporting._FULL_EXECUTION__COMPLETE}
    ctx.obligation('_FULL_EXECUTION__COMPLETE == {PASS, FAIL, XPASS, XFAIL}', complete == set(COMPLETE),
                   'enumeration', detail={'value': sorted(complete)})
    for m in ExecutionFailureStatus:
        ok = m.name in FullExeResultStatus.__members__ and FullExeResultStatus[m.name].value == m.value
        ctx.obligation('enum coherence ExecutionFailureStatus.%s -> FullExeResultStatus' % m.name, ok, 'enumeration')
    for s in FullExeResultStatus:
        ctx.obligation('every verdict has a table row: %s' % s.name, s.name in CODE, 'enumeration')


# ------------------------------------------------------------------------------ invalid usage: exit 64, nothing on stdout
from exactly_lib.cli import main_program
from exactly_lib.util import argument_parsing_utils
from exactly_lib.processing.standalone import processor as standalone_processor
from exactly_lib.processing import processors
from exactly_lib.execution.configuration import ExecutionConfiguration
from exactly_lib.impls.instructions.configuration import test_case_status as status_instruction
from exactly_lib.test_case import test_case_status as tcs

P_MP = 'exactly_lib.cli.main_program'


class FileI(Interface):
    """a text stream (sys.stderr / sys.stdout): writes are ghost events"""
    methods = {'write': Method(event='file-write'), 'flush': Method(event='file-flush')}


class StdFilesI(Interface):
    attrs = {'out': Iface(FileI), 'err': Iface(FileI)}


def _mk_env_w_files(interp, name):
    out = Iface(PrinterI).make(interp, name + '.printers.out')
    err = Iface(PrinterI).make(interp, name + '.printers.err')
    printers = process_result_reporter.StdOutputFilePrinters(out, err)
    return process_result_reporter.Environment(Iface(StdFilesI).make(interp, name + '.std_files'), printers)


M.contract(P_MP + ':_InvalidUsageReporter.report',
           params=dict(self=Inst(main_program._InvalidUsageReporter, _error_message=Str),
                       environment=Custom(_mk_env_w_files)),
           returns=Int,
           ensures={
               'exit-code-64': lambda ret: ret == 64,
               'message-on-stderr-only-no-identifier-on-stdout': lambda self, environment, trace:
               [e[1] for e in calls(trace)] == [environment.std_files.err, environment.std_files.err]
               and calls(trace)[0][2][0] == self._error_message,
           }, raises_only=())


class ArgParseCallableI(Interface):
    """parses the command line and builds the reporter of the command, or rejects the command line"""
    methods = {'__call__': Method(returns=Any_, may_raise=(
        lambda interp, o: argument_parsing_utils.ArgumentParsingError(Str.make(interp, 'usage-error')),))}


M.contract(P_MP + ':_parse_and_exit_on_error',
           params=dict(parse_arguments_and_execute_callable=Iface(ArgParseCallableI), arguments=Any_),
           returns=Any_,
           raises={main_program._StartupError: {
               'ensures': lambda exc: isinstance(exc.result, main_program._InvalidUsageReporter)}},
           ensures={'otherwise-the-reporter-of-the-command': lambda ret: True},
           raises_only=())

# ------------------------------------------------------------------------------ the status instruction

class ConfBuilderI(Interface):
    methods = {'set_test_case_status': Method(event='set-status')}


M.contract('exactly_lib.impls.instructions.configuration.test_case_status:_Instruction.main',
           params=dict(self=Inst(status_instruction._Instruction, mode_to_set=EnumOf(TestCaseStatus)),
                       configuration_builder=Iface(ConfBuilderI)),
           ensures={'sets-exactly-the-parsed-status': lambda self, configuration_builder, trace:
           trace == [('set-status', configuration_builder, (self.mode_to_set,)),
                     ('set-status:returned', configuration_builder, None)],
                    'succeeds': lambda ret: ret.is_success},
           raises_only=())

# ------------------------------------------------------------------------------ plumbing of the output mode into the execution


class ReporterI(Interface):
    """any of the three result reporters, through the two questions the processor asks it"""
    methods = {'depends_on_result_in_sandbox': Method(returns=Bool, pure=True),
               'execute_atc_and_skip_assertions': Method(returns=Opt(Any_), pure=True)}


class PredefPropsI(Interface):
    attrs = {'default_environ_getter': Any_, 'environ': Any_, 'timeout_in_seconds': Any_, 'predefined_symbols': Any_}


class TcDefI(Interface):
    attrs = {'predefined_properties': Iface(PredefPropsI), 'parsing_setup': Any_}


M.contract('exactly_lib.processing.processors:new_executor_that_may_pollute_current_processes2', trusted=True,
           params=dict(exe_configuration=Any_, act_phase_setup=Any_, is_keep_sandbox=Bool), returns=Any_,
           event='new-executor')
M.contract('exactly_lib.util.symbol_table:symbol_table_from_none_or_value', trusted=True,
           params=dict(symbol_table_or_none=Any_), returns=Any_)
M.trust('processors.new_executor_that_may_pollute_current_processes2 stores its three arguments (constructor of '
        '_Executor; its use of is_keep_sandbox and exe_atc_and_skip_assertions is C04 / C01)')

class SandboxRootDirResolverI(Interface):
    """SandboxRootDirNameResolver: calling it CREATES the root directory of a sandbox (tempfile.mkdtemp)"""
    methods = {'__call__': Method(returns=Str, event='resolve-sandbox-root-dir')}


M.contract('exactly_lib.processing.standalone.processor:Processor._executor',
           params=dict(self=Inst(standalone_processor.Processor, _test_case_definition=Iface(TcDefI),
                                 _os_services=Any_, _suite_configuration_section_parser=Any_, _mem_buff_size=Int),
                       act_phase_setup=Any_, is_keep_sandbox=Bool, sandbox_root_dir_resolver=Iface(SandboxRootDirResolverI),
                       result_reporter=Iface(ReporterI)),
           returns=Any_,
           ensures={
               # C03 ("an invalid test case has no effects"): the executor is built before the case is read; the
               # directory of the sandbox must not come into existence here (seeded change C03-s9: with --keep the
               # resolver was called eagerly, leaving an empty directory behind for a case that does not parse)
               'no sandbox directory is created while the executor is built; the resolver is handed on as it is':
                   lambda sandbox_root_dir_resolver, trace:
                   [e for e in trace if e[0] == 'resolve-sandbox-root-dir'] == []
                   and len(calls(trace)) == 1
                   and calls(trace)[0][1]['exe_configuration'].sds_root_dir_resolver is sandbox_root_dir_resolver,
'keep-flag-and-act-output-files-reach-the-executor': lambda is_keep_sandbox, result_reporter, trace:
           len(calls(trace)) == 1 and calls(trace)[0][0] == 'new-executor'
           and calls(trace)[0][1]['is_keep_sandbox'] is is_keep_sandbox
           and calls(trace)[0][1]['exe_configuration'].exe_atc_and_skip_assertions
           is result_reporter.execute_atc_and_skip_assertions()},
           raises_only=())


# ------------------------------------------------------------------------------ a test case beside a broken suite file
# A case run on its own takes its configuration from the `exactly.suite` beside it (or --suite): a syntax error in
# THAT file also "prevents execution", and is reported through the same three output modes: the identifier line on
# stdout in normal mode only; with --keep and --act stdout belongs to the sandbox path / the action's output, and
# the identifier goes to stderr.
from exactly_lib.test_suite.file_reading.exception import SuiteParseError as _SuiteParseError
from exactly_lib.test_suite import error_reporting as _suite_error_reporting
from exactly_lib.common import result_reporting as _common_result_reporting

EXIT_VALUE = Inst(ExitValue, _tuple=[Int, Str, EnumOf(ForegroundColor)])


class _DocParseErrorI(Interface):
    """the ParseError of the document parser inside a SuiteParseError; `accept(_GetParseErrorExitValue())` gives
    the exit value (SYNTAX_ERROR / FILE_ACCESS_ERROR: constants of processing.exit_values, check `constants`)"""
    methods = {'accept': Method(returns=EXIT_VALUE, event='exit-value-of-parse-error')}


SUITE_PARSE_ERROR = Inst(_SuiteParseError, _suite_file=Any_, _maybe_section_name=Any_,
                         _document_parser_exception=Iface(_DocParseErrorI))


class _CaseProcessorI(Interface):
    methods = {'apply': Method(returns=RESULT2, ensures=lambda self, test_case, result: result_is_well_formed(result)
                               and ((not _completed(result))
                                    or result.execution_result.action_to_check_outcome is not None),
                               event='apply-processor')}


class _SettingsI(Interface):
    attrs = {'reporting_option': EnumOf(ReportingOption), 'test_case_file_path': Any_, 'handling_setup': Any_,
             'run_as_part_of_explicit_suite': Any_, 'sandbox_root_dir_resolver': Any_}


M.contract('exactly_lib.processing.standalone.processor:Processor._processor', trusted=True,
           params=dict(self=Any_, settings=Any_, result_reporter=Any_), returns=Iface(_CaseProcessorI),
           may_raise=(SUITE_PARSE_ERROR,), event='resolve-processor')
M.contract('exactly_lib.test_suite.error_reporting:_suite_parse_error_renderer', trusted=True, params=dict(ex=Any_),
           returns=Any_)
M.contract('exactly_lib.common.result_reporting:print_major_blocks', trusted=True,
           params=dict(blocks_renderer=Any_, printer=Iface(PrinterI)), event='error-message')
M.contract('exactly_lib.processing.test_case_processing:test_case_reference_of_source_file', trusted=True,
           params=dict(source_file=Any_), returns=Any_)
M.trust('standalone Processor._processor (reads the suite file, builds accessor and executor: C17, C03) returns a '
        'processor or raises SuiteParseError; a processor returns a well formed Result (C18); print_major_blocks '
        'writes only to the printer it is given')


def _suite_error_of(trace):
    es = [e for e in trace if e[0] == 'resolve-processor:raised']
    return es[0][2] if es else None


def _identifier_where_the_mode_puts_it(settings, reporting_environment, ret, trace):
    ex = _suite_error_of(trace)
    if ex is None:
        return True
    ev = [e[2] for e in trace if e[0] == 'exit-value-of-parse-error:returned'][0]
    out, err = reporting_environment.std_file_printers.out, reporting_environment.std_file_printers.err
    if settings.reporting_option is ReportingOption.STATUS_CODE:
        on_stdout = lines_on(trace, out) == [ev.exit_identifier] and len(touched(trace, out)) == 1
    else:
        on_stdout = touched(trace, out) == [] and lines_on(trace, err)[:1] == [ev.exit_identifier]
    return on_stdout and ret == ev.exit_code


_SUITE_ERROR_REPLAY = '''
import subprocess, tempfile, pathlib
import exactly_lib
runner = pathlib.Path(exactly_lib.__file__).parent.parent / 'default-main-program-runner.py'
bad = []
with tempfile.TemporaryDirectory() as d:
    d = pathlib.Path(d)
    (d / 'a.case').write_text('[act]\\n$ true\\n')
    (d / 'exactly.suite').write_text('[no-such-section]\\nx\\n')
    for option in ('--keep', '--act'):
        p = subprocess.run([sys.executable, '-W', 'ignore', str(runner), option, 'a.case'], cwd=str(d),
                           capture_output=True, text=True, env=dict(os.environ, PYTHONPATH=str(runner.parent)))
        print(option, 'exit', p.returncode, 'stdout', repr(p.stdout), 'stderr starts', repr(p.stderr[:40]))
        if p.stdout != '' or not p.stderr.startswith('SYNTAX_ERROR') or p.returncode != 65:
            bad.append(option)
if bad:
    print('a syntax error in the suite file beside the case: the identifier is printed on stdout with', bad)
    sys.exit(1)
sys.exit(0)
'''

M.contract('exactly_lib.processing.standalone.processor:Processor.process', replay=lambda model, rf: _SUITE_ERROR_REPLAY,
           params=dict(self=Inst(standalone_processor.Processor, _test_case_definition=Any_, _os_services=Any_,
                                 _suite_configuration_section_parser=Any_, _mem_buff_size=Int),
                       reporting_environment=ENVIRONMENT, settings=Iface(_SettingsI)),
           returns=Int,
           ensures={
               'a syntax error of the suite file: identifier on stdout in normal mode only, else on stderr; the '
               'exit code that belongs to it': lambda settings, reporting_environment, ret, trace:
               _identifier_where_the_mode_puts_it(settings, reporting_environment, ret, trace),
               'otherwise the case is processed once and reported by the reporter of the output mode':
                   lambda trace: _suite_error_of(trace) is not None
                   or len([e for e in trace if e[0] == 'apply-processor']) == 1,
           }, raises_only=())


@M.check('status names')
def _status_names(ctx):
    ctx.obligation('NAME_2_STATUS maps PASS/SKIP/FAIL to the members of the same name',
                   tcs.NAME_2_STATUS == {'PASS': TestCaseStatus.PASS, 'SKIP': TestCaseStatus.SKIP,
                                         'FAIL': TestCaseStatus.FAIL},
                   'enumeration', detail={'value': repr(tcs.NAME_2_STATUS)})
    from exactly_lib.cli.definitions import exit_codes
    ctx.obligation('EXIT_INVALID_USAGE == 64', exit_codes.EXIT_INVALID_USAGE == 64, 'enumeration')
    # real parser of the status instruction on the documented spellings (finite, executed natively)
    p = status_instruction.Parser()
    ok = True
    detail = {}
    for text, want in (('= PASS', TestCaseStatus.PASS), ('= FAIL', TestCaseStatus.FAIL), ('= SKIP', TestCaseStatus.SKIP),
                       ('= pass', TestCaseStatus.PASS), (' =  skip ', TestCaseStatus.SKIP)):
        try:
            got = p._parse(text).mode_to_set
        except Exception as e:
            got = repr(e)
        detail[text] = str(got)
        ok = ok and got is want
    for text in ('= XFAIL', '= ', '= PASS FAIL'):
        try:
            p._parse(text)
            ok = False
            detail[text] = 'accepted'
        except Exception as e:
            detail[text] = type(e).__name__
            ok = ok and type(e).__name__ == 'SingleInstructionInvalidArgumentException'
    ctx.obligation('status instruction: documented spellings set the named status, anything else is a syntax error',
                   ok, 'enumeration', detail=detail)


# ------------------------------------------------------------------------------ verdicts of what prevents / interrupts execution
# "anything that prevents or interrupts execution is reported as the documented error verdict": the functions
# that decide these verdicts are under contract in C01 (a failing [conf] instruction: also under SKIP) and in
# C03 (file access / pre-process / syntax errors of the accessor; internal errors of the processor).  Their
# clauses carry C02 as well: the check of C02 re-proves them on the current tree.

# ------------------------------------------------------------------------------ the preprocessor
# "anything that prevents ... execution is reported as the documented error verdict": a preprocessor that does not
# end with exit code 0 -- any other code, negative ones (killed by a signal) included -- or that cannot be started
# is a ProcessError, which the accessor reports as PRE_PROCESS_ERROR (C03: AccessorFromParts.apply); its standard
# output is the test case only when it exited with 0.  (After the seeded change C02-s4.)
import subprocess as _subprocess
import tempfile as _tempfile
from pyvc.interp import PyRaise as _PyRaise
from pyvc.api import ListOf, new_opaque      # noqa: E402,F811
from exactly_lib.processing import preprocessor as _preprocessor


def _m_pp_subprocess_call(interp, args, kwargs):
    st = interp.st
    st.emit('preprocessor-started', tuple(args), dict(kwargs))
    if st.choose(2) == 1:
        exc = OSError('subprocess: cannot execute')
        st.emit('preprocessor:raised', exc)
        raise _PyRaise(exc)
    code = Int.make(interp, 'exit_code')
    st.emit('preprocessor:returned', code)
    return code


class _TmpFileI(Interface):
    """a tempfile.TemporaryFile opened w+: context manager; seek; read gives what the child wrote to it"""
    methods = {'__enter__': Method(model=lambda interp, self, args, kwargs: self),
               '__exit__': Method(returns=Const(None)),
               'seek': Method(returns=Int),
               'read': Method(returns=Str, event='read-output')}


M.model(_subprocess.call, _m_pp_subprocess_call)
M.model(_tempfile.TemporaryFile, lambda interp, args, kwargs: new_opaque(interp, _TmpFileI, 'tmpfile'))
M.trust('subprocess.call returns the exit code of the child (negative: killed by a signal) or raises OSError; '
        'tempfile.TemporaryFile(mode="w+") is a context manager giving a file that holds what the child wrote')


class _CasePathI(Interface):
    attrs = {'name': Str, 'parent': Any_}


def _pp_command(trace):
    return [e[1][0] for e in trace if e[0] == 'preprocessor-started'][0]


def _pp_exit(trace):
    return [e[1] for e in trace if e[0] == 'preprocessor:returned']


M.contract('exactly_lib.processing.preprocessor:PreprocessorViaExternalProgram.apply',
           params=dict(self=Inst(_preprocessor.PreprocessorViaExternalProgram, external_program=ListOf(Str)),
                       test_case_file_path=Iface(_CasePathI), test_case_source=Str),
           returns=Str, props=('C02', 'C17'), ghosts=dict(j=Int),
           old=lambda self: len(self.external_program),
           ensures={'its output is the test case only if the preprocessor exited with 0': lambda trace:
                    _pp_exit(trace) == [0],
                    'started once': lambda trace: len([e for e in trace if e[0] == 'preprocessor-started']) == 1,
                    # (C17) the preprocessor object belongs to the suite: every case of the suite is given to it
                    'the command is the configured one plus the name of THIS case; the configured one is left as it is':
                        lambda self, test_case_file_path, old, trace, j:
                        len(self.external_program) == old
                        and len(_pp_command(trace)) == old + 1
                        and _pp_command(trace)[old] == str(test_case_file_path.name)
                        and ((not (0 <= j and j < old)) or _pp_command(trace)[j] == self.external_program[j])},
           raises={tcp.ProcessError: {'ensures': lambda self, old, trace:
                                      _pp_exit(trace) != [0] and len(self.external_program) == old}},
           raises_only=())


def _widen():
    import importlib
    shared = {
        'contracts.C01_protocol': {
            'exactly_lib.execution.full_execution.execution:execute',
            'exactly_lib.execution.full_execution.execution:execute_configuration_phase',
            'exactly_lib.execution.full_execution.execution:new_configuration_phase_failure_from',
        },
        'contracts.C03_validation': {
            'exactly_lib.processing.processing_utils:AccessorFromParts.apply',
            'exactly_lib.processing.processing_utils:ProcessorFromAccessorAndExecutor.apply',
            'exactly_lib.processing.processors:_Parser.apply',
            'exactly_lib.processing.processors:_SourceReader.apply',
            'exactly_lib.processing.processors:_Executor.apply',
        },
    }
    # which failure an execution reports (an assertion failure followed by a failing cleanup is an interrupted
    # execution: the error verdict, not FAIL/XFAIL) is decided by the executor classes; their contracts (C01: the
    # protocol layers below full_execution.execute) carry C02 as well.  (After the seeded change C02-s5.)
    from contracts.common import share_contracts
    from contracts import C01_protocol as _c01
    _layers = (_c01.P_EX + ':', _c01.P_PSE + ':', _c01.P_SIE + ':')
    share_contracts('C02', 'contracts.C01_protocol', lambda q: q.startswith(_layers))
    for modname, qnames in shared.items():
        mod = importlib.import_module(modname)
        have = {c.qname for c in mod.M.contracts}
        assert qnames <= have, qnames - have
        for c in mod.M.contracts:
            if c.qname in qnames:
                c.props = tuple(sorted(set(c.props) | {'C02'}))


M.after_load = _widen
