"""C12 (extension M12) -- the relativity root of `-rel-here`: the directory of the file that contains the instruction.

Property statement: "A path written with a relativity option [...] resolves to the documented root directory joined
with its suffix".  The documented root of `-rel-here` is the directory of the source file the path is written in.
The parser gets it as `FileSystemLocationInfo.current_source_file.abs_path_of_dir_containing_last_file_base_name`
(contracts/C12_paths.py takes that value as given: `_mk_location`); this module puts the function that COMPUTES it
under contract -- `section_document.source_location:WithFileLocationInfo.abs_path_of_dir_containing_last_file_base_name`.

Every file name of a location (`file_path_rel_referrer`: of the links of the file-inclusion chain, and of the
current file) is relative to the directory of the file that REFERS to it (the including file; for the root file: the
directory given to the parser).  So the directory is a fold over the whole chain:

    dir_0     = abs_path_of_dir_containing_first_file_path
    dir_{k+1} = dir_k / parent(file_k)        if link k of the inclusion chain names a file, else dir_k
    result    = dir_n / parent(current file)  if the current location names a file, else dir_n      (n = len(chain))

(`dir / parent(file)` is the directory of `dir / file` -- `(dir / file).parent` -- for every file name pathlib accepts
as a relative file name; the cross-check `directory of a relative file` below compares the two natively.  C07's
contracts/C07c_error_location.py proves the analogous accumulation for the file names printed in error reports.)
Every link counts: leaving out the intermediate including files (seeded C12-s7) resolves -rel-here in a file reached
through two levels of `including` against ROOT/sub2 instead of ROOT/sub1/sub2.

pathlib is the abstract pathlib of contracts/pathspec.py."""
import pathlib

from pyvc.api import Module, Inst, Int, Opt, ListOf, Any_, Union
from contracts.common import prefix_fold
from contracts import pathspec
from contracts.pathspec import den, join, parent_of, PATH

from exactly_lib.section_document import source_location as sl

M = Module('C12')
pathspec.install(M)

P_LOC = 'exactly_lib.section_document.source_location'

LINK = Inst(sl.SourceLocation, _tuple=[Any_, Opt(PATH)])
CHAIN = ListOf(LINK)

# the two implementations of the abstract accessors (file_path_rel_referrer, file_inclusion_chain)
FILE_LOCATION_INFO = Inst(sl.FileLocationInfo, _abs_path_of_dir_containing_root_file_path=PATH,
                          _file_path_rel_referrer=Opt(PATH), _file_inclusion_chain=CHAIN)
SOURCE_LOCATION_INFO = Inst(sl.SourceLocationInfo, _abs_path_of_dir_containing_root_file_path=PATH,
                            _source_location_path=Inst(sl.SourceLocationPath, _tuple=[LINK, CHAIN]))


def dir_of_file_in(d, file_path_rel_referrer):
    """the directory of a file that is named relative to directory d (d itself when there is no file)"""
    if file_path_rel_referrer is None:
        return d
    return join(d, parent_of(den(file_path_rel_referrer)))


def next_dir(d, link):
    """the directory that the file names of the NEXT link (or of the current location) are relative to"""
    return dir_of_file_in(d, link.file_path_rel_referrer)


def dir_after(d0, chain, k):
    """dir_k"""
    return prefix_fold(next_dir, d0, chain, k)


def dir_of_current_file(self):
    """the directory of the file the location is in: the fold over the WHOLE inclusion chain, then the current file"""
    chain = self.file_inclusion_chain
    return dir_of_file_in(dir_after(den(self.abs_path_of_dir_containing_first_file_path), chain, len(chain)),
                          self.file_path_rel_referrer)


def _inv(self, ret_val, _i):
    chain = self.file_inclusion_chain
    d0 = den(self.abs_path_of_dir_containing_first_file_path)
    if _i <= len(chain):
        return den(ret_val) == dir_after(d0, chain, _i)
    return den(ret_val) == dir_of_file_in(dir_after(d0, chain, len(chain)), self.file_path_rel_referrer)


P_DIR = P_LOC + ':WithFileLocationInfo.abs_path_of_dir_containing_last_file_base_name'

M.contract(P_DIR,
           params=dict(self=Union(FILE_LOCATION_INFO, SOURCE_LOCATION_INFO)),
           returns=PATH,
           ensures={
               'the-directory-of-the-current-file: fold over the whole inclusion chain, then the current file':
                   lambda self, result: den(result) == dir_of_current_file(self),
           }, raises_only=())
M.loop(P_DIR, 0,
       invariant=lambda self, ret_val, _i: _inv(self, ret_val, _i),
       modifies=dict(ret_val=PATH, file_path_rel_referrer='local'))


@M.check('directory of a relative file')
def _dir_of_file(ctx):
    """`d / f.parent == (d / f).parent` for relative file names f (pathlib, natively): the fold above is written with
    the left form (as the code is), the property speaks of the right one (the directory that contains d / f)."""
    dirs = [pathlib.PurePosixPath(s) for s in ('/', '/root', '/root/sub', '/a/b/c')]
    files = [pathlib.PurePosixPath(s) for s in ('f', 'f.xly', 'sub/f', 'sub1/sub2/f.case', './f', 'a/./b/f', '../f',
                                                'sub/../f', '.hidden', 'sub/.hidden')]
    bad = [(str(d), str(f)) for d in dirs for f in files if d / f.parent != (d / f).parent]
    ctx.obligation('d / f.parent == (d / f).parent for relative file names (pathlib)', not bad, 'enumeration',
                   detail={'pairs': len(dirs) * len(files), 'differ': bad[:5]})
