"""C10 ("... receives exactly the argument vector denoted by the program syntax") rests on the string syntax of C09 for
what ONE written argument denotes: a soft-quoted single reference to a list symbol is one argument (the joined list),
a bare one is spliced; an option is an option only when unquoted; `""` is one (empty) argument.  Those contracts live in
contracts/C09_strings.py / C09b_options.py and carry C10 too (seeded change C10-s7: `SymbolReferenceOrStringParser.parse`
lost its "is the token unquoted?" test)."""
from pyvc.api import Module

M = Module('C10')

_WANTED = (
    'parse_string:SymbolReferenceOrStringParser.parse',
    'generic_parser:ElementsUntilEndOfLineParser2.parse',
    'parse_arguments:_ElementParser._parse_plain_list_element',
    'token_matchers:_Equals.matches', 'token_matchers:is_option', 'token_matchers:is_unquoted_and_equals',
)


def _share():
    from contracts.common import share_contracts
    names = share_contracts('C10', 'contracts.C09_strings', lambda q: q.endswith(_WANTED))
    names += share_contracts('C10', 'contracts.C09b_options', lambda q: q.endswith(_WANTED))
    assert len(set(names)) == len(_WANTED), sorted(set(names))


M.after_load = _share
M.shared_checks = [('C11', 'preserved_cwd is used only around the whole partial execution')]
