"""C12 -- paths resolve under their relativity root; home directories are write-protected.
See DESIGN.md section 3 / C12 and notes/C12.md."""
import pathlib

from pyvc.api import (Module, Interface, Method, Iface, Inst, Int, Nat, Bool, Str, Opt, OneOf, EnumOf, Const, Union,
                      ListOf, FixedList, Any_, Custom, new_opaque, assume_pred)
from pyvc.interp import PyRaise
from pyvc.values import SOpt, SChoice, SBool, to_z3, wrap
from contracts.common import implies, iff, is_opaque
from contracts import pathspec
from contracts.pathspec import P, join, is_abs, den, pstr, cwd_now, PATH, PathI

from exactly_lib.tcfs import path_relativity, relativity_root, relative_path_options, relativity_validation
from exactly_lib.tcfs.path_relativity import (RelOptionType, RelSdsOptionType, RelNonHdsOptionType, RelHdsOptionType,
                                              SpecificPathRelativity, PathRelativityVariants)
from exactly_lib.tcfs.hds import HomeDs
from exactly_lib.tcfs import sds as sds_module
from exactly_lib.tcfs.sds import SandboxDs
from exactly_lib.tcfs.tcds import TestCaseDs
from exactly_lib.type_val_deps.types.path import path_ddvs, path_part_ddvs
from exactly_lib.type_val_deps.types.path.path_ddv import PathDdv
from exactly_lib.type_val_deps.types.path.path_part_ddv import PathPartDdv

try:
    import z3
except ImportError:  # replays
    z3 = None

M = Module('C12')
pathspec.install(M)

P_REL = 'exactly_lib.tcfs.path_relativity'
P_ROOT = 'exactly_lib.tcfs.relativity_root'
P_DDVS = 'exactly_lib.type_val_deps.types.path.path_ddvs'
P_BASE = 'exactly_lib.type_val_deps.types.path.impl.path_base'

REL = EnumOf(RelOptionType)
OPT_REL = Opt(REL)

HDS_RELS = (RelOptionType.REL_HDS_CASE, RelOptionType.REL_HDS_ACT)
SDS_RELS = (RelOptionType.REL_ACT, RelOptionType.REL_TMP, RelOptionType.REL_RESULT)


# ============================================================================== the documented root table (oracle)
# Written from the reference manual ("relativity options" / sandbox directory structure), not from the code.

def hds_root(r, hds):
    """root directory of a relativity of the home directory structure"""
    if r is RelOptionType.REL_HDS_CASE:
        return den(hds.case_dir)
    if r is RelOptionType.REL_HDS_ACT:
        return den(hds.act_dir)
    raise ValueError('not a home relativity')


def non_hds_root(r, sds, cwd):
    """root directory of a relativity outside the home directory structure; `cwd` is the
    current directory AT THE TIME THE PATH IS USED"""
    if r is RelOptionType.REL_ACT:
        return join(den(sds.root_dir), P('act'))
    if r is RelOptionType.REL_TMP:
        return join(den(sds.root_dir), P('tmp'))
    if r is RelOptionType.REL_RESULT:
        return join(den(sds.root_dir), P('result'))
    if r is RelOptionType.REL_CWD:
        return cwd
    raise ValueError('not a non-home relativity')


def is_hds(r):
    return r is RelOptionType.REL_HDS_CASE or r is RelOptionType.REL_HDS_ACT


def root_of(r, tcds, cwd):
    if is_hds(r):
        return hds_root(r, tcds.hds)
    return non_hds_root(r, tcds.sds, cwd)


def resolved(r, tail, tcds, cwd):
    """the path denoted by relativity r (None: absolute) and the pure path `tail`"""
    if r is None:
        return tail
    return join(root_of(r, tcds, cwd), tail)


def wf_view(r, tail):
    """a path is absolute exactly when it has no relativity: a relative path has a relative tail
    (so that it lies under its root), an absolute one an absolute tail"""
    return iff(r is None, is_abs(tail))


# ============================================================================== directory structures (inputs)

def _mk_hds(interp, name):
    return HomeDs(PATH.make(interp, name + '.case_dir'), PATH.make(interp, name + '.act_dir'))


HDS = Custom(_mk_hds)


def _mk_sds(interp, name):
    """A SandboxDs as its constructor builds it (contract of SandboxDs.__init__ below): the
    sub directories are root/act, root/tmp, root/result, root/internal."""
    root = PATH.make(interp, name + '.root_dir')
    rp = interp.getattr(root, 'pid')

    def sub(*parts):
        pid = rp
        for p in parts:
            pid = pathspec.mk_join(interp, pid, pathspec.mk_of_str(interp, p))
        return pathspec.new_path(interp, pid, name + '.' + '.'.join(parts))

    o = object.__new__(SandboxDs)
    o._DirWithRoot__root_dir = root
    o._SandboxDs__act_dir = sub('act')
    o._SandboxDs__user_tmp = sub('tmp')
    res = object.__new__(sds_module.Result)
    res._DirWithRoot__root_dir = sub('result')
    res._Result__exitcode_file = sub('result', 'exitcode')
    res._Result__stdout_file = sub('result', 'stdout')
    res._Result__stderr_file = sub('result', 'stderr')
    o._SandboxDs__result = res
    internal = object.__new__(sds_module.Internal)
    internal._DirWithRoot__root_dir = sub('internal')
    internal._Internal__tmp_dir = sub('internal', 'tmp')
    internal._Internal__log_dir = sub('internal', 'log')
    o._SandboxDs__internal = internal
    return o


SDS = Custom(_mk_sds)


def _mk_tcds(interp, name):
    return TestCaseDs(_mk_hds(interp, name + '.hds'), _mk_sds(interp, name + '.sds'))


TCDS = Custom(_mk_tcds)

M.contract('exactly_lib.tcfs.sds:SandboxDs.__init__',
           params=dict(self=Inst(SandboxDs), dir_name=Str),
           ensures={
               'sub-directories-as-documented': lambda self, dir_name:
               den(self.root_dir) == P(dir_name)
               and den(self.act_dir) == join(P(dir_name), P('act'))
               and den(self.user_tmp_dir) == join(P(dir_name), P('tmp'))
               and den(self.result_dir) == join(P(dir_name), P('result'))
               and den(self.result.root_dir) == join(P(dir_name), P('result'))
               and den(self.internal_tmp_dir) == join(join(P(dir_name), P('internal')), P('tmp'))
               and den(self.log_dir) == join(join(P(dir_name), P('internal')), P('log')),
           }, raises_only=())


# ============================================================================== enums: the four families cohere

@M.check('relativity enums')
def _enums(ctx):
    for cls in (RelSdsOptionType, RelNonHdsOptionType, RelHdsOptionType):
        for m in cls:
            ok = m.name in RelOptionType.__members__ and RelOptionType[m.name].value == m.value
            ctx.obligation('Id values match: %s.%s == RelOptionType.%s' % (cls.__name__, m.name, m.name), ok,
                           'enumeration')
    names = lambda cls: {m.name for m in cls}
    ctx.obligation('RelOptionType is the disjoint union of the home and the non-home relativities',
                   names(RelHdsOptionType) | names(RelNonHdsOptionType) == names(RelOptionType)
                   and not (names(RelHdsOptionType) & names(RelNonHdsOptionType)), 'enumeration')
    ctx.obligation('non-home relativities are the sandbox relativities and the current directory',
                   names(RelNonHdsOptionType) == names(RelSdsOptionType) | {'REL_CWD'}, 'enumeration')
    ctx.obligation('home relativities are exactly HDS_CASE, HDS_ACT; sandbox ones exactly ACT, TMP, RESULT',
                   names(RelHdsOptionType) == {'REL_HDS_CASE', 'REL_HDS_ACT'}
                   and names(RelSdsOptionType) == {'REL_ACT', 'REL_TMP', 'REL_RESULT'}, 'enumeration')
    values = [m.value for m in RelOptionType]
    ctx.obligation('RelOptionType values are pairwise distinct', len(set(values)) == len(values), 'enumeration')
    dd = path_relativity.DEPENDENCY_DICT
    rd = path_relativity.RESOLVING_DEPENDENCY_OF
    HDSP, NON = path_relativity.DirectoryStructurePartition.HDS, path_relativity.DirectoryStructurePartition.NON_HDS
    ctx.obligation('RESOLVING_DEPENDENCY_OF / DEPENDENCY_DICT: home relativities depend on HDS, all others on NON_HDS',
                   set(rd) == set(RelOptionType)
                   and all(rd[r] is (HDSP if r in HDS_RELS else NON) for r in RelOptionType)
                   and all(dd[p] == frozenset(r for r in RelOptionType if rd[r] is p) for p in (HDSP, NON)),
                   'enumeration')


M.contract(P_REL + ':rel_non_hds_from_rel_sds', params=dict(rel_sds=EnumOf(RelSdsOptionType)), inline=True,
           ensures={'same-relativity': lambda rel_sds, result:
           isinstance(result, RelNonHdsOptionType) and result.name == rel_sds.name}, raises_only=())
M.contract(P_REL + ':rel_any_from_rel_sds', params=dict(rel_sds=EnumOf(RelSdsOptionType)), inline=True,
           ensures={'same-relativity': lambda rel_sds, result:
           isinstance(result, RelOptionType) and result.name == rel_sds.name}, raises_only=())
M.contract(P_REL + ':rel_any_from_rel_non_hds', params=dict(rel_sds_or_cwd=EnumOf(RelNonHdsOptionType)), inline=True,
           ensures={'same-relativity': lambda rel_sds_or_cwd, result:
           isinstance(result, RelOptionType) and result.name == rel_sds_or_cwd.name}, raises_only=())
M.contract(P_REL + ':rel_any_from_rel_hds', params=dict(rel_hds=EnumOf(RelHdsOptionType)), inline=True,
           ensures={'same-relativity': lambda rel_hds, result:
           isinstance(result, RelOptionType) and result.name == rel_hds.name}, raises_only=())
M.contract(P_REL + ':rel_hds_from_rel_any', params=dict(rel_any=REL), inline=True,
           ensures={'home-relativity-or-None': lambda rel_any, result:
           (isinstance(result, RelHdsOptionType) and result.name == rel_any.name) if is_hds(rel_any)
           else result is None}, raises_only=())
M.contract(P_REL + ':rel_sds_from_rel_any', params=dict(rel_any=REL), inline=True,
           ensures={'sandbox-relativity-or-None': lambda rel_any, result:
           (isinstance(result, RelSdsOptionType) and result.name == rel_any.name) if rel_any in SDS_RELS
           else result is None}, raises_only=())

# ============================================================================== accepted relativities


def _set_contains(interp, self, args, kwargs):
    """membership in an ARBITRARY set of relativities: one symbolic boolean per member"""
    x = args[0]
    def has(m):
        return interp.getattr(self, 'has_' + m.name)
    if isinstance(x, SOpt):
        x = interp.resolve(x)
    if isinstance(x, SChoice):
        return wrap(z3.Or(*[z3.And(x.idx == i, to_z3(has(alt))) for i, alt in enumerate(x.alts)
                            if isinstance(alt, RelOptionType)]))
    if isinstance(x, RelOptionType):
        return has(x)
    return False


class RelSetI(Interface):
    """Set[RelOptionType] (any subset): the accepted relativity options of an argument"""
    attrs = {('has_' + m.name): Bool for m in RelOptionType}
    methods = {'__contains__': Method(model=_set_contains)}


VARIANTS = Inst(PathRelativityVariants, _tuple=[Iface(RelSetI), Bool])
SPECIFIC = Inst(SpecificPathRelativity, _relative=OPT_REL)


def accepts(variants, r):
    """the documented meaning of a set of accepted relativities (r None: an absolute path)"""
    if r is None:
        return variants.absolute
    return r in variants.rel_option_types


M.contract('exactly_lib.tcfs.relativity_validation:is_satisfied_by',
           params=dict(specific_relativity=SPECIFIC, accepted_relativities=VARIANTS), returns=Bool,
           ensures={'accepted-iff-member': lambda specific_relativity, accepted_relativities, result:
           iff(result, accepts(accepted_relativities, specific_relativity.relativity_type))}, raises_only=())

M.contract(P_REL + ':SpecificPathRelativity.__init__', params=dict(self=Inst(SpecificPathRelativity), relative=OPT_REL),
           inline=True,
           ensures={'view': lambda self, relative: self.relativity_type is relative
                                                    and iff(self.is_absolute, relative is None)
                                                    and iff(self.is_relative, relative is not None)}, raises_only=())
