"""C12 -- paths resolve under their relativity root; home directories are write-protected.
See DESIGN.md section 3 / C12 and notes/C12.md."""
import pathlib

from pyvc.api import (Module, Interface, Method, Iface, Inst, Int, Nat, Bool, Str, Opt, OneOf, EnumOf, Const, Union,
                      ListOf, FixedList, Any_, Custom, new_opaque, assume_pred)
from pyvc.interp import PyRaise
from pyvc.values import SOpt, SChoice, SBool, to_z3, wrap
from contracts.common import implies, iff, is_opaque
from contracts import pathspec
from contracts.pathspec import P, join, is_abs, den, pstr, cwd_now, PATH, PathI

from exactly_lib.tcfs import path_relativity, relativity_root, relative_path_options, relativity_validation
from exactly_lib.tcfs.path_relativity import (RelOptionType, RelSdsOptionType, RelNonHdsOptionType, RelHdsOptionType,
                                              SpecificPathRelativity, PathRelativityVariants)
from exactly_lib.tcfs.hds import HomeDs
from exactly_lib.tcfs import sds as sds_module
from exactly_lib.tcfs.sds import SandboxDs
from exactly_lib.tcfs.tcds import TestCaseDs
from exactly_lib.type_val_deps.types.path import path_ddvs, path_part_ddvs
from exactly_lib.type_val_deps.types.path.path_ddv import PathDdv
from exactly_lib.type_val_deps.types.path.path_part_ddv import PathPartDdv

try:
    import z3
except ImportError:  # replays
    z3 = None

M = Module('C12')
pathspec.install(M)

P_REL = 'exactly_lib.tcfs.path_relativity'
P_ROOT = 'exactly_lib.tcfs.relativity_root'
P_DDVS = 'exactly_lib.type_val_deps.types.path.path_ddvs'
P_BASE = 'exactly_lib.type_val_deps.types.path.impl.path_base'

REL = EnumOf(RelOptionType)
OPT_REL = Opt(REL)

HDS_RELS = (RelOptionType.REL_HDS_CASE, RelOptionType.REL_HDS_ACT)
SDS_RELS = (RelOptionType.REL_ACT, RelOptionType.REL_TMP, RelOptionType.REL_RESULT)


# ============================================================================== the documented root table (oracle)
# Written from the reference manual ("relativity options" / sandbox directory structure), not from the code.

def hds_root(r, hds):
    """root directory of a relativity of the home directory structure"""
    if r is RelOptionType.REL_HDS_CASE:
        return den(hds.case_dir)
    if r is RelOptionType.REL_HDS_ACT:
        return den(hds.act_dir)
    raise ValueError('not a home relativity')


def non_hds_root(r, sds, cwd):
    """root directory of a relativity outside the home directory structure; `cwd` is the
    current directory AT THE TIME THE PATH IS USED"""
    if r is RelOptionType.REL_ACT:
        return join(den(sds.root_dir), P('act'))
    if r is RelOptionType.REL_TMP:
        return join(den(sds.root_dir), P('tmp'))
    if r is RelOptionType.REL_RESULT:
        return join(den(sds.root_dir), P('result'))
    if r is RelOptionType.REL_CWD:
        return cwd
    raise ValueError('not a non-home relativity')


def is_hds(r):
    return r is RelOptionType.REL_HDS_CASE or r is RelOptionType.REL_HDS_ACT


def root_of(r, tcds, cwd):
    if is_hds(r):
        return hds_root(r, tcds.hds)
    return non_hds_root(r, tcds.sds, cwd)


def resolved(r, tail, tcds, cwd):
    """the path denoted by relativity r (None: absolute) and the pure path `tail`"""
    if r is None:
        return tail
    return join(root_of(r, tcds, cwd), tail)


def wf_view(r, tail):
    """a path is absolute exactly when it has no relativity: a relative path has a relative tail
    (so that it lies under its root), an absolute one an absolute tail"""
    return iff(r is None, is_abs(tail))


# ============================================================================== directory structures (inputs)

def _mk_hds(interp, name):
    return HomeDs(PATH.make(interp, name + '.case_dir'), PATH.make(interp, name + '.act_dir'))


HDS = Custom(_mk_hds)


def _mk_sds(interp, name):
    """A SandboxDs as its constructor builds it (contract of SandboxDs.__init__ below): the
    sub directories are root/act, root/tmp, root/result, root/internal."""
    root = PATH.make(interp, name + '.root_dir')
    rp = interp.getattr(root, 'pid')

    def sub(*parts):
        pid = rp
        for p in parts:
            pid = pathspec.mk_join(interp, pid, pathspec.mk_of_str(interp, p))
        return pathspec.new_path(interp, pid, name + '.' + '.'.join(parts))

    o = object.__new__(SandboxDs)
    o._DirWithRoot__root_dir = root
    o._SandboxDs__act_dir = sub('act')
    o._SandboxDs__user_tmp = sub('tmp')
    res = object.__new__(sds_module.Result)
    res._DirWithRoot__root_dir = sub('result')
    res._Result__exitcode_file = sub('result', 'exitcode')
    res._Result__stdout_file = sub('result', 'stdout')
    res._Result__stderr_file = sub('result', 'stderr')
    o._SandboxDs__result = res
    internal = object.__new__(sds_module.Internal)
    internal._DirWithRoot__root_dir = sub('internal')
    internal._Internal__tmp_dir = sub('internal', 'tmp')
    internal._Internal__log_dir = sub('internal', 'log')
    o._SandboxDs__internal = internal
    return o


SDS = Custom(_mk_sds)


def _mk_tcds(interp, name):
    return TestCaseDs(_mk_hds(interp, name + '.hds'), _mk_sds(interp, name + '.sds'))


TCDS = Custom(_mk_tcds)

M.contract('exactly_lib.tcfs.sds:SandboxDs.__init__',
           params=dict(self=Inst(SandboxDs), dir_name=Str),
           ensures={
               'sub-directories-as-documented': lambda self, dir_name:
               den(self.root_dir) == P(dir_name)
               and den(self.act_dir) == join(P(dir_name), P('act'))
               and den(self.user_tmp_dir) == join(P(dir_name), P('tmp'))
               and den(self.result_dir) == join(P(dir_name), P('result'))
               and den(self.result.root_dir) == join(P(dir_name), P('result'))
               and den(self.internal_tmp_dir) == join(join(P(dir_name), P('internal')), P('tmp'))
               and den(self.log_dir) == join(join(P(dir_name), P('internal')), P('log')),
           }, raises_only=())


# ============================================================================== enums: the four families cohere

@M.check('relativity enums')
def _enums(ctx):
    for cls in (RelSdsOptionType, RelNonHdsOptionType, RelHdsOptionType):
        for m in cls:
            ok = m.name in RelOptionType.__members__ and RelOptionType[m.name].value == m.value
            ctx.obligation('Id values match: %s.%s == RelOptionType.%s' % (cls.__name__, m.name, m.name), ok,
                           'enumeration')
    names = lambda cls: {m.name for m in cls}
    ctx.obligation('RelOptionType is the disjoint union of the home and the non-home relativities',
                   names(RelHdsOptionType) | names(RelNonHdsOptionType) == names(RelOptionType)
                   and not (names(RelHdsOptionType) & names(RelNonHdsOptionType)), 'enumeration')
    ctx.obligation('non-home relativities are the sandbox relativities and the current directory',
                   names(RelNonHdsOptionType) == names(RelSdsOptionType) | {'REL_CWD'}, 'enumeration')
    ctx.obligation('home relativities are exactly HDS_CASE, HDS_ACT; sandbox ones exactly ACT, TMP, RESULT',
                   names(RelHdsOptionType) == {'REL_HDS_CASE', 'REL_HDS_ACT'}
                   and names(RelSdsOptionType) == {'REL_ACT', 'REL_TMP', 'REL_RESULT'}, 'enumeration')
    values = [m.value for m in RelOptionType]
    ctx.obligation('RelOptionType values are pairwise distinct', len(set(values)) == len(values), 'enumeration')
    dd = path_relativity.DEPENDENCY_DICT
    rd = path_relativity.RESOLVING_DEPENDENCY_OF
    HDSP, NON = path_relativity.DirectoryStructurePartition.HDS, path_relativity.DirectoryStructurePartition.NON_HDS
    ctx.obligation('RESOLVING_DEPENDENCY_OF / DEPENDENCY_DICT: home relativities depend on HDS, all others on NON_HDS',
                   set(rd) == set(RelOptionType)
                   and all(rd[r] is (HDSP if r in HDS_RELS else NON) for r in RelOptionType)
                   and all(dd[p] == frozenset(r for r in RelOptionType if rd[r] is p) for p in (HDSP, NON)),
                   'enumeration')


M.contract(P_REL + ':rel_non_hds_from_rel_sds', params=dict(rel_sds=EnumOf(RelSdsOptionType)), inline=True,
           ensures={'same-relativity': lambda rel_sds, result:
           isinstance(result, RelNonHdsOptionType) and result.name == rel_sds.name}, raises_only=())
M.contract(P_REL + ':rel_any_from_rel_sds', params=dict(rel_sds=EnumOf(RelSdsOptionType)), inline=True,
           ensures={'same-relativity': lambda rel_sds, result:
           isinstance(result, RelOptionType) and result.name == rel_sds.name}, raises_only=())
M.contract(P_REL + ':rel_any_from_rel_non_hds', params=dict(rel_sds_or_cwd=EnumOf(RelNonHdsOptionType)), inline=True,
           ensures={'same-relativity': lambda rel_sds_or_cwd, result:
           isinstance(result, RelOptionType) and result.name == rel_sds_or_cwd.name}, raises_only=())
M.contract(P_REL + ':rel_any_from_rel_hds', params=dict(rel_hds=EnumOf(RelHdsOptionType)), inline=True,
           ensures={'same-relativity': lambda rel_hds, result:
           isinstance(result, RelOptionType) and result.name == rel_hds.name}, raises_only=())
M.contract(P_REL + ':rel_hds_from_rel_any', params=dict(rel_any=REL), inline=True,
           ensures={'home-relativity-or-None': lambda rel_any, result:
           (isinstance(result, RelHdsOptionType) and result.name == rel_any.name) if is_hds(rel_any)
           else result is None}, raises_only=())
M.contract(P_REL + ':rel_sds_from_rel_any', params=dict(rel_any=REL), inline=True,
           ensures={'sandbox-relativity-or-None': lambda rel_any, result:
           (isinstance(result, RelSdsOptionType) and result.name == rel_any.name) if rel_any in SDS_RELS
           else result is None}, raises_only=())

# ============================================================================== accepted relativities


def _set_contains(interp, self, args, kwargs):
    """membership in an ARBITRARY set of relativities: one symbolic boolean per member"""
    x = args[0]
    def has(m):
        return interp.getattr(self, 'has_' + m.name)
    if isinstance(x, SOpt):
        x = interp.resolve(x)
    if isinstance(x, SChoice):
        return wrap(z3.Or(*[z3.And(x.idx == i, to_z3(has(alt))) for i, alt in enumerate(x.alts)
                            if isinstance(alt, RelOptionType)]))
    if isinstance(x, RelOptionType):
        return has(x)
    return False


class RelSetI(Interface):
    """Set[RelOptionType] (any subset): the accepted relativity options of an argument"""
    attrs = {('has_' + m.name): Bool for m in RelOptionType}
    methods = {'__contains__': Method(model=_set_contains)}


VARIANTS = Inst(PathRelativityVariants, _tuple=[Iface(RelSetI), Bool])
SPECIFIC = Inst(SpecificPathRelativity, _relative=OPT_REL)


def accepts(variants, r):
    """the documented meaning of a set of accepted relativities (r None: an absolute path)"""
    if r is None:
        return variants.absolute
    return r in variants.rel_option_types


M.contract('exactly_lib.tcfs.relativity_validation:is_satisfied_by',
           params=dict(specific_relativity=SPECIFIC, accepted_relativities=VARIANTS), returns=Bool,
           ensures={'accepted-iff-member': lambda specific_relativity, accepted_relativities, result:
           iff(result, accepts(accepted_relativities, specific_relativity.relativity_type))}, raises_only=())

M.contract(P_REL + ':SpecificPathRelativity.__init__', params=dict(self=Inst(SpecificPathRelativity), relative=OPT_REL),
           inline=True,
           ensures={'view': lambda self, relative: self.relativity_type is relative
                                                    and iff(self.is_absolute, relative is None)
                                                    and iff(self.is_relative, relative is not None)}, raises_only=())

# ============================================================================== root resolvers: the root table
# `self` ranges over the REAL resolver objects of the module (read from the imported tree).

SDS_RESOLVER = OneOf(relativity_root.resolver_for_act, relativity_root.resolver_for_tmp_user,
                     relativity_root.resolver_for_result)
CWD_RESOLVER = Const(relativity_root.resolver_for_cwd)
NON_HDS_RESOLVER = OneOf(relativity_root.resolver_for_act, relativity_root.resolver_for_tmp_user,
                         relativity_root.resolver_for_result, relativity_root.resolver_for_cwd)
HDS_RESOLVER = OneOf(relativity_root.resolver_for_hds_case, relativity_root.resolver_for_hds_act)
RESOLVER = OneOf(relativity_root.resolver_for_act, relativity_root.resolver_for_tmp_user,
                 relativity_root.resolver_for_result, relativity_root.resolver_for_cwd,
                 relativity_root.resolver_for_hds_case, relativity_root.resolver_for_hds_act)


def rel_of_resolver(resolver):
    return resolver.relativity_type


M.contract(P_ROOT + ':RelSdsRootResolver.from_non_hds', params=dict(self=SDS_RESOLVER, sds=SDS), inline=True,
           ensures={'documented-root': lambda self, sds, result:
           den(result) == non_hds_root(rel_of_resolver(self), sds, 0)}, raises_only=())
M.contract(P_ROOT + ':RelSdsRootResolver.from_sds', params=dict(self=SDS_RESOLVER, sds=SDS), inline=True,
           ensures={'documented-root': lambda self, sds, result:
           den(result) == non_hds_root(rel_of_resolver(self), sds, 0)}, raises_only=())
M.contract(P_ROOT + ':RelNonHdsRootResolverForCwd.from_non_hds', params=dict(self=CWD_RESOLVER, sds=SDS), inline=True,
           ensures={'current-directory-when-called': lambda self, sds, result, ghost:
           den(result) == cwd_now(ghost) and rel_of_resolver(self) is RelOptionType.REL_CWD}, raises_only=())
M.contract(P_ROOT + ':RelNonHdsRootResolverForCwd.from_cwd', params=dict(self=CWD_RESOLVER), inline=True,
           ensures={'current-directory-when-called': lambda result, ghost: den(result) == cwd_now(ghost)},
           raises_only=())
M.contract(P_ROOT + ':RelHdsRootResolver.from_hds', params=dict(self=HDS_RESOLVER, hds=HDS), inline=True,
           ensures={'documented-root': lambda self, hds, result: den(result) == hds_root(rel_of_resolver(self), hds)},
           raises_only=())
M.contract(P_ROOT + ':RelNonHdsRootResolver.from_tcds', params=dict(self=NON_HDS_RESOLVER, tcds=TCDS), inline=True,
           ensures={'documented-root': lambda self, tcds, result, ghost:
           den(result) == root_of(rel_of_resolver(self), tcds, cwd_now(ghost))}, raises_only=())
M.contract(P_ROOT + ':RelHdsRootResolver.from_tcds', params=dict(self=HDS_RESOLVER, tcds=TCDS), inline=True,
           ensures={'documented-root': lambda self, tcds, result, ghost:
           den(result) == root_of(rel_of_resolver(self), tcds, cwd_now(ghost))}, raises_only=())
# a resolver asked for a root of the other partition refuses
M.contract(P_ROOT + ':RelRootResolver.from_hds', params=dict(self=NON_HDS_RESOLVER, hds=HDS), inline=True,
           raises={ValueError: {'when': lambda self: True}}, raises_only=())
M.contract(P_ROOT + ':RelRootResolver.from_non_hds', params=dict(self=HDS_RESOLVER, sds=SDS), inline=True,
           raises={ValueError: {'when': lambda self: True}}, raises_only=())


@M.check('root table')
def _root_table(ctx):
    """REL_OPTIONS_MAP and its three sub-maps: relativity r |-> the resolver whose relativity_type is r
    (what the resolver of each relativity resolves to is proved above, for the same objects)."""
    rpo = relative_path_options
    rr = relativity_root
    expected = {RelOptionType.REL_ACT: rr.resolver_for_act, RelOptionType.REL_TMP: rr.resolver_for_tmp_user,
                RelOptionType.REL_RESULT: rr.resolver_for_result, RelOptionType.REL_CWD: rr.resolver_for_cwd,
                RelOptionType.REL_HDS_CASE: rr.resolver_for_hds_case, RelOptionType.REL_HDS_ACT: rr.resolver_for_hds_act}
    ctx.obligation('REL_OPTIONS_MAP is total on RelOptionType', set(rpo.REL_OPTIONS_MAP) == set(RelOptionType),
                   'enumeration')
    for r in RelOptionType:
        info = rpo.REL_OPTIONS_MAP.get(r)
        ok = info is not None and info.root_resolver is expected[r] and info.root_resolver.relativity_type is r
        ctx.obligation('REL_OPTIONS_MAP[%s]: the resolver of this relativity, relativity_type == %s' % (r.name, r.name),
                       ok, 'enumeration')
    for sub_map, cls in ((rpo.REL_SDS_OPTIONS_MAP, RelSdsOptionType), (rpo.REL_HDS_OPTIONS_MAP, RelHdsOptionType),
                         (rpo.REL_NON_HDS_OPTIONS_MAP, RelNonHdsOptionType)):
        ok = set(sub_map) == set(cls) and all(sub_map[m] is rpo.REL_OPTIONS_MAP[RelOptionType[m.name]] for m in cls)
        ctx.obligation('%s map agrees with REL_OPTIONS_MAP on every member' % cls.__name__, ok, 'enumeration')
    ctx.obligation('REL_SDS_RESOLVERS: the three sandbox resolvers',
                   rr.REL_SDS_RESOLVERS == {RelSdsOptionType.REL_ACT: rr.resolver_for_act,
                                            RelSdsOptionType.REL_RESULT: rr.resolver_for_result,
                                            RelSdsOptionType.REL_TMP: rr.resolver_for_tmp_user}, 'enumeration')
    names = {r: rpo.REL_OPTIONS_MAP[r].option_name.long for r in RelOptionType}
    ctx.obligation('option names are the documented ones and pairwise distinct',
                   names == {RelOptionType.REL_ACT: 'rel-act', RelOptionType.REL_TMP: 'rel-tmp',
                             RelOptionType.REL_RESULT: 'rel-result', RelOptionType.REL_CWD: 'rel-cd',
                             RelOptionType.REL_HDS_CASE: 'rel-home', RelOptionType.REL_HDS_ACT: 'rel-act-home'},
                   'enumeration', detail={'names': {k.name: v for k, v in names.items()}})


@M.check('pathlib axioms')
def _axioms(ctx):
    pathspec.check_pathlib_axioms(ctx)


# ============================================================================== path values (PathDdv)
# Abstract view of a PathDdv d:   rel(d)  : its relativity (None: absolute)
#                                 tail(d) : the pure path that follows the root
# Every class is proved to behave as this view says (`resolved`), for every tcds and the current
# directory at the time of the call.  An unknown PathDdv (the value of a path symbol) is an opaque
# object that behaves so BY DEFINITION of the interface `PathDdvI` -- the induction hypothesis, which the
# contracts of the four classes and of the PathSdv classes (below) re-establish.

class PartI(Interface):
    """PathPartDdv: the string that follows the root"""
    target_class = PathPartDdv
    methods = {'value': Method(returns=Str, pure=True)}
    # PathPartDdvAsNothing.value() == '' (proved: contract of PathPartDdvAsNothing.value)
    invariant = staticmethod(lambda self: implies(isinstance(self, path_part_ddvs.PathPartDdvAsNothing),
                                                  self.value() == ''))


PART = Iface(PartI)

M.contract('exactly_lib.type_val_deps.types.path.path_part_ddvs:PathPartDdvAsNothing.value',
           params=dict(self=Inst(path_part_ddvs.PathPartDdvAsNothing)), inline=True,
           ensures={'empty': lambda result: result == ''}, raises_only=())
M.contract('exactly_lib.type_val_deps.types.path.path_part_ddvs:PathPartDdvAsFixedPath.value',
           params=dict(self=Inst(path_part_ddvs.PathPartDdvAsFixedPath, _file_name=Str)), inline=True,
           ensures={'the-file-name': lambda self, result: result == self._file_name}, raises_only=())


def rel_view(d):
    if is_opaque(d):
        return d.rel
    if isinstance(d, path_ddvs._StackedPathDdv):
        return rel_view(d.base_path)
    if isinstance(d, path_ddvs._PathDdvFromRelRootResolver):
        return rel_of_resolver(d._rel_root_resolver)
    if isinstance(d, path_ddvs._PathDdvRelHds):
        return RelOptionType[d._rel_option.name]
    if isinstance(d, path_ddvs._PathDdvAbsolute):
        return None
    raise ValueError('rel_view: unexpected PathDdv')


def tail_view(d):
    if is_opaque(d):
        return d.tail
    if isinstance(d, path_ddvs._StackedPathDdv):
        return join(tail_view(d.base_path), P(d._stacked_path_suffix.value()))
    return P(d._path_suffix.value())


def wf(d):
    return wf_view(rel_view(d), tail_view(d))


def value_is(d, path, tcds, cwd):
    return den(path) == resolved(rel_view(d), tail_view(d), tcds, cwd)


def _ddv_relativity(interp, self, args, kwargs):
    r = self._pv_attrs.get('__relativity__')
    if r is None:
        r = object.__new__(SpecificPathRelativity)
        r._relative = interp.getattr(self, 'rel')
        self._pv_attrs['__relativity__'] = r
    return r


def _ddv_value_any(interp, self, args, kwargs):
    (tcds,) = args
    pid = interp.call(resolved, [interp.getattr(self, 'rel'), interp.getattr(self, 'tail'), tcds,
                                 pathspec._m_cwd_now(interp, [], {})])
    return pathspec.new_path(interp, pid, 'value')


def _ddv_value_pre(interp, self, args, kwargs):
    (hds,) = args
    r = interp.resolve(interp.getattr(self, 'rel'))
    tail = interp.getattr(self, 'tail')
    if r is None:
        return pathspec.new_path(interp, tail, 'value')
    if r not in HDS_RELS:
        raise PyRaise(ValueError('PathDdvI: no value before the sandbox exists'))
    return pathspec.new_path(interp, pathspec.mk_join(interp, interp.call(hds_root, [r, hds]), tail), 'value')


def _ddv_value_post(interp, self, args, kwargs):
    (sds,) = args
    r = interp.resolve(interp.getattr(self, 'rel'))
    tail = interp.getattr(self, 'tail')
    if r is None:
        return pathspec.new_path(interp, tail, 'value')
    if r in HDS_RELS:
        raise PyRaise(ValueError('PathDdvI: the value exists before the sandbox'))
    root = interp.call(non_hds_root, [r, sds, pathspec._m_cwd_now(interp, [], {})])
    return pathspec.new_path(interp, pathspec.mk_join(interp, root, tail), 'value')


def _ddv_value_no_dep(interp, self, args, kwargs):
    r = interp.resolve(interp.getattr(self, 'rel'))
    if r is not None:
        raise PyRaise(ValueError('PathDdvI: has dir dependency'))
    return pathspec.new_path(interp, interp.getattr(self, 'tail'), 'value')


def _ddv_has_dep(interp, self, args, kwargs):
    return interp.not_(interp.is_(interp.getattr(self, 'rel'), None))


class PathDdvI(Interface):
    target_class = PathDdv
    attrs = {'rel': OPT_REL, 'tail': Int}
    methods = {
        'relativity': Method(model=_ddv_relativity),
        'value_of_any_dependency': Method(model=_ddv_value_any),
        'value_pre_sds': Method(model=_ddv_value_pre),
        'value_post_sds': Method(model=_ddv_value_post),
        'value_when_no_dir_dependencies': Method(model=_ddv_value_no_dep),
        'has_dir_dependency': Method(model=_ddv_has_dep),
        'path_suffix': Method(returns=PART, pure=True),
    }
    invariant = staticmethod(lambda self: wf_view(self.rel, self.tail))


ANY_DDV = Iface(PathDdvI)


def _rel_suffix(self):
    """class invariant of a relative PathDdv: its suffix is a relative path
    (precondition of the constructors, proved at the construction sites)"""
    return not self._path_suffix.value().startswith('/')


def _abs_suffix(self):
    return self._path_suffix.value().startswith('/')


def _stacked_suffix_rel(self):
    return not self._stacked_path_suffix.value().startswith('/')


REL_ROOT_DDV = Inst(path_ddvs._PathDdvFromRelRootResolver, _invariant=_rel_suffix,
                    _path_suffix=PART, _rel_root_resolver=RESOLVER)
REL_HDS_DDV = Inst(path_ddvs._PathDdvRelHds, _invariant=_rel_suffix,
                   _path_suffix=PART, _rel_option=EnumOf(RelHdsOptionType))
ABS_DDV = Inst(path_ddvs._PathDdvAbsolute, _invariant=_abs_suffix, _path_suffix=PART)
STACKED_DDV = Inst(path_ddvs._StackedPathDdv, _invariant=_stacked_suffix_rel,
                   _stacked_path_suffix=PART, _combined_path_suffix=PART, base_path=ANY_DDV)
CONCRETE_DDV = Union(REL_ROOT_DDV, REL_HDS_DDV, ABS_DDV, STACKED_DDV)

def every_ddv_class_is_well_formed(d):
    return wf(d)


M.contract('contracts.C12_paths:every_ddv_class_is_well_formed', params=dict(d=CONCRETE_DDV),
           ensures={'every PathDdv class is well formed (relative <=> relative tail)': lambda result: result},
           raises_only=())

# ---- relativity()

M.contract(P_BASE + ':PathDdvWithPathSuffixAndIsNotAbsoluteBase.relativity',
           params=dict(self=Union(REL_ROOT_DDV, REL_HDS_DDV)), inline=True,
           ensures={'relativity-of-the-view': lambda self, result: result.relativity_type is rel_view(self)
                                                                   and result.is_relative and not result.is_absolute},
           raises_only=())
M.contract(P_DDVS + ':_PathDdvAbsolute.relativity', params=dict(self=ABS_DDV), inline=True,
           ensures={'absolute': lambda self, result: result.relativity_type is None and result.is_absolute
                                                     and rel_view(self) is None}, raises_only=())
M.contract(P_DDVS + ':_StackedPathDdv.relativity', params=dict(self=STACKED_DDV), inline=True,
           ensures={'relativity-of-the-base-path': lambda self, result:
           result.relativity_type is rel_view(self.base_path) and result.relativity_type is rel_view(self)},
           raises_only=())

# ---- values

M.contract('exactly_lib.type_val_deps.dep_variants.ddv.dir_dependent_value:Max1DependencyDdv.value_of_any_dependency',
           params=dict(self=CONCRETE_DDV, tcds=TCDS), returns=PATH,
           ensures={'root-of-the-relativity-joined-with-the-tail': lambda self, tcds, result, ghost:
           value_is(self, result, tcds, cwd_now(ghost))},
           raises_only=())

for _cls, _shape in (('_PathDdvFromRelRootResolver', REL_ROOT_DDV), ('_PathDdvRelHds', REL_HDS_DDV),
                     ('_PathDdvAbsolute', ABS_DDV), ('_StackedPathDdv', STACKED_DDV)):
    M.contract('%s:%s.value_pre_sds' % (P_DDVS, _cls), params=dict(self=_shape, hds=HDS), inline=True,
               raises={ValueError: {'when': lambda self: rel_view(self) is not None and not is_hds(rel_view(self))}},
               ensures={'home-root-joined-with-the-tail': lambda self, hds, result:
               den(result) == (tail_view(self) if rel_view(self) is None
                               else join(hds_root(rel_view(self), hds), tail_view(self)))},
               raises_only=())
    M.contract('%s:%s.value_post_sds' % (P_DDVS, _cls), params=dict(self=_shape, sds=SDS), inline=True,
               raises={ValueError: {'when': lambda self: rel_view(self) is not None and is_hds(rel_view(self))}},
               ensures={'non-home-root-joined-with-the-tail': lambda self, sds, result, ghost:
               den(result) == (tail_view(self) if rel_view(self) is None
                               else join(non_hds_root(rel_view(self), sds, cwd_now(ghost)), tail_view(self)))},
               raises_only=())

# ---- constructors.  A relative PathDdv requires a RELATIVE suffix (so that root / suffix lies under the
# root: `join(root, '/abs') == '/abs'` in pathlib); the precondition is proved at every call site under contract.


def relative_part(part):
    return not part.value().startswith('/')


M.contract(P_DDVS + ':constant_path_part', params=dict(file_name=Str), inline=True,
           ensures={'value': lambda file_name, result: result.value() == file_name}, raises_only=())
M.contract(P_DDVS + ':empty_path_part', params=dict(), inline=True,
           ensures={'value': lambda result: result.value() == ''
                                            and isinstance(result, path_part_ddvs.PathPartDdvAsNothing)},
           raises_only=())

M.contract(P_DDVS + ':of_rel_root', params=dict(rel_root_resolver=RESOLVER, path_suffix=PART), returns=ANY_DDV,
           requires=lambda path_suffix: relative_part(path_suffix),
           ensures={'relativity-of-the-resolver': lambda rel_root_resolver, result:
           rel_view(result) is rel_of_resolver(rel_root_resolver),
                    'tail-is-the-suffix': lambda path_suffix, result: tail_view(result) == P(path_suffix.value()),
                    'well-formed': lambda result: wf(result)}, raises_only=())

M.contract(P_DDVS + ':of_rel_option', params=dict(rel_option=REL, path_suffix=PART), returns=ANY_DDV,
           requires=lambda path_suffix: relative_part(path_suffix),
           ensures={'relativity-is-the-option': lambda rel_option, result: rel_view(result) is rel_option,
                    'tail-is-the-suffix': lambda path_suffix, result: tail_view(result) == P(path_suffix.value()),
                    'well-formed': lambda result: wf(result)}, raises_only=())

M.contract(P_DDVS + ':simple_of_rel_option', params=dict(rel_option=REL, file_name=Str), returns=ANY_DDV,
           requires=lambda file_name: not file_name.startswith('/'),
           ensures={'relativity-is-the-option': lambda rel_option, result: rel_view(result) is rel_option,
                    'tail-is-the-file-name': lambda file_name, result: tail_view(result) == P(file_name),
                    'well-formed': lambda result: wf(result)}, raises_only=())

M.contract(P_DDVS + ':absolute_file_name', params=dict(file_name=Str), returns=ANY_DDV,
           requires=lambda file_name: file_name.startswith('/'),
           ensures={'absolute': lambda result: rel_view(result) is None,
                    'tail-is-the-file-name': lambda file_name, result: tail_view(result) == P(file_name),
                    'well-formed': lambda result: wf(result)}, raises_only=())

M.contract(P_DDVS + ':absolute_path', params=dict(abs_path=PATH), returns=ANY_DDV,
           requires=lambda abs_path: is_abs(den(abs_path)),
           ensures={'absolute': lambda result: rel_view(result) is None,
                    'tail-is-the-path': lambda abs_path, result: tail_view(result) == den(abs_path),
                    'well-formed': lambda result: wf(result)}, raises_only=())

M.contract(P_DDVS + ':absolute_part', params=dict(abs_path=PART), returns=ANY_DDV,
           requires=lambda abs_path: abs_path.value().startswith('/'),
           ensures={'absolute': lambda result: rel_view(result) is None,
                    'tail-is-the-part': lambda abs_path, result: tail_view(result) == P(abs_path.value()),
                    'well-formed': lambda result: wf(result)}, raises_only=())

M.contract(P_DDVS + ':rel_abs_path', params=dict(abs_path_root=PATH, path_suffix=PART), returns=ANY_DDV,
           requires=lambda abs_path_root: is_abs(den(abs_path_root)),
           ensures={'absolute': lambda result: rel_view(result) is None,
                    'root-joined-with-the-suffix': lambda abs_path_root, path_suffix, result:
                    tail_view(result) == join(den(abs_path_root), P(path_suffix.value())),
                    'well-formed': lambda result: wf(result)}, raises_only=())

M.contract(P_DDVS + ':rel_hds', params=dict(rel_option=EnumOf(RelHdsOptionType), path_suffix=PART), returns=ANY_DDV,
           requires=lambda path_suffix: relative_part(path_suffix),
           ensures={'relativity-is-the-option': lambda rel_option, result: rel_view(result) is RelOptionType[rel_option.name],
                    'tail-is-the-suffix': lambda path_suffix, result: tail_view(result) == P(path_suffix.value()),
                    'well-formed': lambda result: wf(result)}, raises_only=())

for _fn, _rel in (('rel_hds_case', RelOptionType.REL_HDS_CASE), ('rel_hds_act', RelOptionType.REL_HDS_ACT),
                  ('rel_cwd', RelOptionType.REL_CWD), ('rel_act', RelOptionType.REL_ACT),
                  ('rel_tmp_user', RelOptionType.REL_TMP), ('rel_result', RelOptionType.REL_RESULT)):
    M.contract('%s:%s' % (P_DDVS, _fn), params=dict(path_suffix=PART), returns=ANY_DDV, ghosts=dict(rel=Const(_rel)),
               requires=lambda path_suffix: relative_part(path_suffix),
               ensures={'relativity-as-named': lambda rel, result: rel_view(result) is rel,
                        'tail-is-the-suffix': lambda path_suffix, result: tail_view(result) == P(path_suffix.value()),
                        'well-formed': lambda result: wf(result)}, raises_only=())

M.contract(P_DDVS + ':rel_sandbox', params=dict(rel_option=EnumOf(RelSdsOptionType), path_suffix=PART),
           returns=ANY_DDV, requires=lambda path_suffix: relative_part(path_suffix),
           ensures={'relativity-is-the-option': lambda rel_option, result: rel_view(result) is RelOptionType[rel_option.name],
                    'tail-is-the-suffix': lambda path_suffix, result: tail_view(result) == P(path_suffix.value()),
                    'well-formed': lambda result: wf(result)}, raises_only=())

M.contract(P_DDVS + ':stacked', params=dict(base_path=ANY_DDV, path_suffix=PART), returns=ANY_DDV,
           requires=lambda path_suffix: relative_part(path_suffix),
           ensures={'relativity-of-the-base-path': lambda base_path, result: rel_view(result) is rel_view(base_path),
                    'base-tail-joined-with-the-suffix': lambda base_path, path_suffix, result:
                    tail_view(result) == join(tail_view(base_path), P(path_suffix.value())),
                    'well-formed': lambda result: wf(result)}, raises_only=())


# ============================================================================== symbols and path SDVs
# Induction over the order of definition (a symbol refers to earlier symbols only, C08): whatever PathSdv the
# symbol table holds resolves to a well-formed PathDdv (`PathSdvI.resolve` -> `PathDdvI`); every PathSdv class
# of the path parser is proved to resolve to a well-formed PathDdv again -- `however many definitions deep`.

from exactly_lib.symbol.sdv_structure import SymbolContainer, SymbolReference
from exactly_lib.symbol.value_type import ValueType
from exactly_lib.util.symbol_table import SymbolTable
from exactly_lib.type_val_deps.types.path.path_sdv import PathSdv, PathPartSdv
from exactly_lib.type_val_deps.types.path.path_sdv_impls import (constant as sdv_constant, path_rel_symbol,
                                                                 path_from_symbol_reference, path_part_sdvs as part_impl)
from exactly_lib.type_val_deps.types.string_.string_sdv import StringSdv
from exactly_lib.type_val_deps.types.string_.string_ddv import StringDdv
from exactly_lib.type_val_deps.types.list_.list_sdv import ListSdv
from exactly_lib.type_val_deps.types.matcher import MatcherSdv
from exactly_lib.type_val_deps.sym_ref.w_str_rend_restrictions import value_restrictions, reference_restrictions
from exactly_lib.impls.types.path import parse_path, parse_relativity

P_SDV = 'exactly_lib.type_val_deps.types.path.path_sdv_impls'
P_PARSE = 'exactly_lib.impls.types.path.parse_path'


class StringDdvI(Interface):
    target_class = StringDdv
    methods = {'value_when_no_dir_dependencies': Method(returns=Str, pure=True)}


class StringSdvI(Interface):
    target_class = StringSdv
    attrs = {'references': Any_}
    methods = {'resolve': Method(returns=Iface(StringDdvI), pure=True)}


class PathSdvI(Interface):
    """any PathSdv of the symbol table: resolves to a well-formed PathDdv (induction hypothesis)"""
    target_class = PathSdv
    methods = {'resolve': Method(returns=ANY_DDV, pure=True)}


class ListSdvI(Interface):
    target_class = ListSdv


class LogicSdvI(Interface):
    target_class = MatcherSdv


class PartSdvI(Interface):
    """any PathPartSdv: resolves to some string (NOT assumed to be relative)"""
    target_class = PathPartSdv
    methods = {'resolve': Method(returns=PART, pure=True)}


M.assume('a string used as a path component has no directory dependency (value_when_no_dir_dependencies() does not '
         'raise): references inside path arguments carry PATH_COMPONENT_STRING_REFERENCES_RESTRICTION, checked by C08 '
         'before anything is resolved')

_NON_DATA_TYPES = [t for t in ValueType if t not in (ValueType.PATH, ValueType.STRING, ValueType.LIST)]


def _mk_container(interp, name):
    """A symbol-table entry.  value_type and the class of the sdv agree (established by the `def` instruction:
    one parser per type, C08)."""
    k = interp.st.choose(4)
    interp.st.assume(interp.st.fresh_int(name + '.kind') == k)
    if k == 0:
        sdv, vt = Iface(PathSdvI).make(interp, name + '.sdv'), ValueType.PATH
    elif k == 1:
        sdv, vt = Iface(StringSdvI).make(interp, name + '.sdv'), ValueType.STRING
    elif k == 2:
        sdv, vt = Iface(ListSdvI).make(interp, name + '.sdv'), ValueType.LIST
    else:
        sdv, vt = Iface(LogicSdvI).make(interp, name + '.sdv'), OneOf(*_NON_DATA_TYPES).make(interp, name + '.type')
    c = object.__new__(SymbolContainer)
    c._sdv = sdv
    c._value_type = vt
    c._source_location = Any_.make(interp, name + '.source_location')
    return c


CONTAINER = Custom(_mk_container)
M.assume('symbol table entries are coherent: value_type is PATH / STRING / LIST exactly when the sdv is a PathSdv / '
         'StringSdv / ListSdv (one parser per type in the `def` instruction, C08)')


class SymbolTableI(Interface):
    target_class = SymbolTable
    methods = {'lookup': Method(returns=CONTAINER, pure=True)}


SYMBOLS = Iface(SymbolTableI)
SYMBOL_REF = Inst(SymbolReference, _name=Str, _restrictions=Any_)

# ---- path parts

M.contract(P_SDV + '.path_part_sdvs:PathPartSdvAsConstantPath.__init__',
           params=dict(self=Inst(part_impl.PathPartSdvAsConstantPath), file_name=Str), inline=True,
           ensures={'resolves-to-the-file-name': lambda self, file_name: self.resolve(None).value() == file_name},
           raises_only=())
M.contract(P_SDV + '.path_part_sdvs:PathPartSdvAsConstantPath.resolve',
           params=dict(self=Inst(part_impl.PathPartSdvAsConstantPath, _path_part=PART), symbols=SYMBOLS), inline=True,
           ensures={'the-constant': lambda self, result: result is self._path_part}, raises_only=())
M.contract(P_SDV + '.path_part_sdvs:PathPartSdvAsNothing.resolve',
           params=dict(self=Inst(part_impl.PathPartSdvAsNothing), symbols=SYMBOLS), inline=True,
           ensures={'empty': lambda result: result.value() == ''}, raises_only=())
M.contract(P_SDV + '.path_part_sdvs:PathPartSdvAsStringSdv.resolve',
           params=dict(self=Inst(part_impl.PathPartSdvAsStringSdv, _string=Iface(StringSdvI)), symbols=SYMBOLS),
           inline=True,
           ensures={'the-string-value': lambda self, symbols, result:
           result.value() == self._string.resolve(symbols).value_when_no_dir_dependencies()}, raises_only=())

# ---- replay of the one expected refutation (an absolute path SUFFIX escapes the relativity root; doc/BUGS.rst)

_REPLAY_ABS_SUFFIX = '''
import pathlib
from exactly_lib.impls.types.path import parse_path
from exactly_lib.section_document.element_parsers.token_stream import TokenStream
from exactly_lib.symbol.sdv_structure import container_of_builtin
from exactly_lib.symbol.value_type import ValueType
from exactly_lib.tcfs.hds import HomeDs
from exactly_lib.tcfs.path_relativity import RelOptionType, PathRelativityVariants
from exactly_lib.tcfs.relative_path_options import REL_OPTIONS_MAP
from exactly_lib.tcfs.sds import SandboxDs
from exactly_lib.tcfs.tcds import TestCaseDs
from exactly_lib.type_val_deps.types.path import path_sdvs, path_ddvs
from exactly_lib.type_val_deps.types.path.rel_opts_configuration import RelOptionsConfiguration, \\
    RelOptionArgumentConfiguration
from exactly_lib.type_val_deps.types.string_ import string_sdvs
from exactly_lib.util.symbol_table import SymbolTable

FLOW = %(flow)r
suffix = [v for k, v in MODEL.items() if k.endswith('.resolve().value()') and isinstance(v, str)]
suffix = suffix[0] if suffix else '/abs/home/x'
if not suffix.startswith('/'):
    print('counter-model outside the witness class (suffix is not absolute):', repr(suffix)); sys.exit(0)
suffix = suffix + 'abs/home/x' if suffix.endswith('/') else suffix
rel = list(RelOptionType)[MODEL.get('self.relativity.idx', 3)] if FLOW == 'option' else RelOptionType.REL_ACT
conf = RelOptionArgumentConfiguration(
    RelOptionsConfiguration(PathRelativityVariants(set(RelOptionType), True), RelOptionType.REL_CWD), 'PATH', True)
symbols = SymbolTable({
    'S': container_of_builtin(ValueType.STRING, string_sdvs.str_constant(suffix)),
    'B': container_of_builtin(ValueType.PATH, path_sdvs.of_rel_option_with_const_file_name(rel, 'base')),
})
if FLOW == 'option':
    argument = '-' + REL_OPTIONS_MAP[rel].option_name.long + ' @[S]@'
    expected_class = '_PathSdvOfRelativityOptionAndSuffixSdv'
else:
    argument = '-rel B @[S]@'
    expected_class = 'PathSdvRelSymbol'
sdv = parse_path.parse_path(TokenStream(argument), conf)
assert type(sdv).__name__ == expected_class, type(sdv)
for r in sdv.references:       # what C08 checks before anything is resolved: every restriction is satisfied
    assert r.restrictions.is_satisfied_by(symbols, r.name, symbols.lookup(r.name)) is None
ddv = sdv.resolve(symbols)
tcds = TestCaseDs(HomeDs(pathlib.Path('/home/case'), pathlib.Path('/home/act')), SandboxDs('/sandbox'))
value = ddv.value_of_any_dependency(tcds)
claimed = ddv.relativity().relativity_type
root = REL_OPTIONS_MAP[rel].root_resolver.from_tcds(tcds)
under = (value == root) or (root in value.parents)
print('argument          :', argument, '   with S =', repr(suffix))
print('claimed relativity:', claimed)
print('documented root   :', root)
print('resolved value    :', value, '(under the root)' if under else '(NOT under the root)')
sys.exit(1 if (claimed is rel and not under) else 0)
'''


def _replay_abs_suffix(flow):
    return lambda model, rf: _REPLAY_ABS_SUFFIX % {'flow': flow}


# ---- PathSdv classes

M.contract(P_SDV + '.constant:PathConstantSdv.resolve',
           params=dict(self=Inst(sdv_constant.PathConstantSdv, _path=ANY_DDV), symbols=SYMBOLS), inline=True,
           ensures={'the-constant': lambda self, result: result is self._path}, raises_only=())


def base_of_rel_symbol(self, symbols):
    return symbols.lookup(self.relativity.name).sdv.resolve(symbols)


M.contract(P_SDV + '.path_rel_symbol:PathSdvRelSymbol.resolve',
           params=dict(self=Inst(path_rel_symbol.PathSdvRelSymbol, path_suffix=Iface(PartSdvI), relativity=SYMBOL_REF),
                       symbols=SYMBOLS),
           returns=ANY_DDV,
           ensures={
               'relativity-of-the-referenced-path': lambda self, symbols, result:
               rel_view(result) is rel_view(base_of_rel_symbol(self, symbols)),
               'referenced-path-joined-with-the-suffix': lambda self, symbols, result:
               tail_view(result) == (tail_view(base_of_rel_symbol(self, symbols))
                                     if self.path_suffix.resolve(symbols).value() == ''
                                     else join(tail_view(base_of_rel_symbol(self, symbols)),
                                               P(self.path_suffix.resolve(symbols).value()))),
               'well-formed': lambda result: wf(result),
           }, raises_only=(), replay=_replay_abs_suffix('symbol'))

_VISITOR = Inst(path_from_symbol_reference._WStrRenderingValueSymbol2PathResolverVisitor,
                suffix_sdv=Iface(PartSdvI), symbols=SYMBOLS, default_relativity=REL)


def strip_slashes(s):
    return s.lstrip('/')


M.contract(P_SDV + '.path_from_symbol_reference:_WStrRenderingValueSymbol2PathResolverVisitor.visit_path',
           params=dict(self=_VISITOR, value=Iface(PathSdvI)), returns=ANY_DDV,
           ensures={
               'relativity-of-the-referenced-path': lambda self, value, result:
               rel_view(result) is rel_view(value.resolve(self.symbols)),
               'referenced-path-joined-with-the-suffix': lambda self, value, result:
               tail_view(result) == (tail_view(value.resolve(self.symbols))
                                     if self.suffix_sdv.resolve(self.symbols).value() == ''
                                     else join(tail_view(value.resolve(self.symbols)),
                                               P(strip_slashes(self.suffix_sdv.resolve(self.symbols).value())))),
               'well-formed': lambda result: wf(result),
           }, raises_only=())


def string_and_suffix(self, value):
    return value.resolve(self.symbols).value_when_no_dir_dependencies() + \
        self.suffix_sdv.resolve(self.symbols).value()


M.contract(P_SDV + '.path_from_symbol_reference:_WStrRenderingValueSymbol2PathResolverVisitor.visit_string',
           params=dict(self=_VISITOR, value=Iface(StringSdvI)), returns=ANY_DDV,
           ensures={
               'default-relativity-unless-absolute': lambda self, value, result:
               rel_view(result) is (None if string_and_suffix(self, value).startswith('/')
                                    else self.default_relativity),
               'string-and-suffix': lambda self, value, result:
               tail_view(result) == P(string_and_suffix(self, value)),
               'well-formed': lambda result: wf(result),
           }, raises_only=())

M.contract(P_SDV + '.path_from_symbol_reference:_WStrRenderingValueSymbol2PathResolverVisitor.visit_list',
           params=dict(self=_VISITOR, value=Iface(ListSdvI)),
           raises={ValueError: {'when': lambda self: True}}, raises_only=())

def string_of_symbol_and_suffix(self, symbols):
    """(extension M12) the text a leading STRING-symbol reference stands for: its value, then the resolved suffix"""
    return symbols.lookup(self._path_or_string_symbol.name).sdv.resolve(symbols).value_when_no_dir_dependencies() + \
        self._suffix_sdv.resolve(symbols).value()


def path_of_symbol(self, symbols):
    return symbols.lookup(self._path_or_string_symbol.name).sdv.resolve(symbols)


M.contract(P_SDV + '.path_from_symbol_reference:SdvThatIsIdenticalToReferencedPathOrWithStringValueAsSuffix.resolve',
           params=dict(self=Inst(path_from_symbol_reference.SdvThatIsIdenticalToReferencedPathOrWithStringValueAsSuffix,
                                 _path_or_string_symbol=SYMBOL_REF, _suffix_sdv=Iface(PartSdvI),
                                 default_relativity=REL),
                       symbols=SYMBOLS),
           returns=ANY_DDV,
           # the reference is restricted to PATH or STRING symbols (path_or_string_reference_restrictions, proved
           # of the parser below; checked by C08 before anything is resolved)
           requires=lambda self, symbols:
           symbols.lookup(self._path_or_string_symbol.name).value_type in (ValueType.PATH, ValueType.STRING),
           ensures={
               'path-symbol: its relativity': lambda self, symbols, result:
               symbols.lookup(self._path_or_string_symbol.name).value_type is not ValueType.PATH
               or rel_view(result) is rel_view(symbols.lookup(self._path_or_string_symbol.name).sdv.resolve(symbols)),
               'string-symbol: default relativity unless absolute': lambda self, symbols, result:
               implies(symbols.lookup(self._path_or_string_symbol.name).value_type is ValueType.STRING,
                       rel_view(result) is None or rel_view(result) is self.default_relativity),
               # (extension M12) the substitution itself, not only the relativity: nothing of the suffix is dropped
               'string-symbol: the string value followed by the whole suffix': lambda self, symbols, result:
               symbols.lookup(self._path_or_string_symbol.name).value_type is not ValueType.STRING
               or tail_view(result) == P(string_of_symbol_and_suffix(self, symbols)),
               'string-symbol: absolute iff value and suffix form an absolute path': lambda self, symbols, result:
               symbols.lookup(self._path_or_string_symbol.name).value_type is not ValueType.STRING
               or rel_view(result) is (None if string_of_symbol_and_suffix(self, symbols).startswith('/')
                                       else self.default_relativity),
               'path-symbol: the referenced path joined with the suffix': lambda self, symbols, result:
               symbols.lookup(self._path_or_string_symbol.name).value_type is not ValueType.PATH
               or tail_view(result) == (tail_view(path_of_symbol(self, symbols))
                                        if self._suffix_sdv.resolve(symbols).value() == ''
                                        else join(tail_view(path_of_symbol(self, symbols)),
                                                  P(strip_slashes(self._suffix_sdv.resolve(symbols).value())))),
               'well-formed': lambda result: wf(result),
           }, raises_only=())

M.contract(P_PARSE + ':_PathSdvOfRelativityOptionAndSuffixSdv.resolve',
           params=dict(self=Inst(parse_path._PathSdvOfRelativityOptionAndSuffixSdv, relativity=REL,
                                 path_suffix_sdv=Iface(PartSdvI)), symbols=SYMBOLS),
           returns=ANY_DDV,
           ensures={
               'relativity-is-the-option': lambda self, result: rel_view(result) is self.relativity,
               'tail-is-the-suffix': lambda self, symbols, result:
               tail_view(result) == P(self.path_suffix_sdv.resolve(symbols).value()),
               'well-formed': lambda result: wf(result),
           }, raises_only=(), replay=_replay_abs_suffix('option'))

M.contract(P_PARSE + ':_PathSdvOfAbsPathAndSuffixSdv.resolve',
           params=dict(self=Inst(parse_path._PathSdvOfAbsPathAndSuffixSdv, abs_path_root=PATH,
                                 path_suffix_sdv=Iface(PartSdvI),
                                 # established by __init__ (raises ValueError otherwise)
                                 _invariant=lambda self: is_abs(den(self.abs_path_root))),
                       symbols=SYMBOLS),
           returns=ANY_DDV,
           ensures={
               'absolute': lambda result: rel_view(result) is None,
               'root-joined-with-the-suffix': lambda self, symbols, result:
               tail_view(result) == join(den(self.abs_path_root), P(self.path_suffix_sdv.resolve(symbols).value())),
               'well-formed': lambda result: wf(result),
           }, raises_only=())

M.contract(P_PARSE + ':_PathSdvOfAbsPathAndSuffixSdv.__init__',
           params=dict(self=Inst(parse_path._PathSdvOfAbsPathAndSuffixSdv), abs_path_root=PATH,
                       path_suffix_sdv=Iface(PartSdvI)), inline=True,
           raises={ValueError: {'when': lambda abs_path_root: not is_abs(den(abs_path_root))}},
           ensures={'root-is-absolute': lambda self: is_abs(den(self.abs_path_root))}, raises_only=())


# ============================================================================== restrictions on path symbols

from exactly_lib.type_val_deps.types.path import references as path_references
from exactly_lib.type_val_deps.types.path.rel_opts_configuration import (RelOptionsConfiguration,
                                                                         RelOptionArgumentConfiguration)
from exactly_lib.section_document.element_parsers.instruction_parser_exceptions import \
    SingleInstructionInvalidArgumentException
from exactly_lib.section_document.element_parsers.token_stream import TokenStream, TokenSyntaxError, LookAheadState
from exactly_lib.util.parse.token import Token, TokenType

P_VR = 'exactly_lib.type_val_deps.sym_ref.w_str_rend_restrictions.value_restrictions'
P_RR = 'exactly_lib.type_val_deps.sym_ref.w_str_rend_restrictions.reference_restrictions'
P_PR = 'exactly_lib.impls.types.path.parse_relativity'

# rendering of error messages is outside the property: the renderers return some message object
M.contract('exactly_lib.symbol.err_msg.error_messages:invalid_type_msg', trusted=True, returns=Any_,
           params=dict(expected_value_types=Any_, symbol_name=Str, container_of_actual=Any_))
M.contract('exactly_lib.type_val_deps.sym_ref.w_str_rend_restrictions.error_messages:unsatisfied_path_relativity',
           trusted=True, returns=Str,
           params=dict(symbol_name=Str, container=Any_, accepted=Any_, actual_relativity=Any_))
M.contract('exactly_lib.common.report_rendering.text_docs:single_pre_formatted_line_object', trusted=True,
           returns=Any_, params=dict(x=Any_, is_line_ended=Bool))
M.contract(P_PR + ':_valid_options_info_lines', trusted=True, returns=FixedList(), params=dict(options=Any_))
M.trust('error-message renderers (invalid_type_msg, unsatisfied_path_relativity, single_pre_formatted_line_object, '
        '_valid_options_info_lines) return a message object and have no other effect (messages are outside the property)')


def satisfies_path_restriction(accepted, symbols, container):
    """the documented meaning of a path-relativity restriction: the symbol is a path and the relativity of the
    path it RESOLVES to -- through however many definitions -- is accepted"""
    if container.value_type is not ValueType.PATH:
        return False
    return accepts(accepted, rel_view(container.sdv.resolve(symbols)))


PATH_RESTRICTION = Inst(value_restrictions.PathAndRelativityRestriction, _accepted=VARIANTS)

M.contract(P_VR + ':PathAndRelativityRestriction.is_satisfied_by',
           params=dict(self=PATH_RESTRICTION, symbol_table=SYMBOLS, symbol_name=Str, container=CONTAINER),
           returns=Opt(Any_),
           ensures={'satisfied iff a path whose resolved relativity is accepted':
                        lambda self, symbol_table, container, result:
                        iff(result is None, satisfies_path_restriction(self._accepted, symbol_table, container))},
           raises_only=())

M.contract(P_RR + ':ReferenceRestrictionsOnDirectAndIndirect.check_indirect', trusted=True, returns=Opt(Any_),
           params=dict(self=Any_, symbol_table=Any_, references=Any_))
M.trust('ReferenceRestrictionsOnDirectAndIndirect.check_indirect (restrictions on indirectly referenced symbols of a '
        'STRING reference) returns None or a failure: verified by C08, not used for path symbols (indirect is None)')

DIRECT_PATH_RESTRICTIONS = Inst(reference_restrictions.ReferenceRestrictionsOnDirectAndIndirect,
                                _direct=PATH_RESTRICTION, _indirect=Const(None),
                                _meaning_of_failure_of_indirect_reference=Const(None))

M.contract(P_RR + ':ReferenceRestrictionsOnDirectAndIndirect.is_satisfied_by',
           params=dict(self=DIRECT_PATH_RESTRICTIONS, symbol_table=SYMBOLS, symbol_name=Str, container=CONTAINER),
           inline=True,
           # focused second contract (path restrictions have no indirect part; the general case is C08's)
           cover=('return self.check_indirect',),
           ensures={'satisfied iff a path whose resolved relativity is accepted':
                        lambda self, symbol_table, container, result:
                        iff(result is None,
                            satisfies_path_restriction(self._direct._accepted, symbol_table, container))},
           raises_only=())

M.contract(P_PR + ':reference_restrictions_for_path_symbol', params=dict(accepted_relativity_variants=VARIANTS),
           inline=True,
           ensures={'path-restriction-on-the-given-variants': lambda accepted_relativity_variants, result:
           is_path_restriction_on(result, accepted_relativity_variants)}, raises_only=())
M.contract('exactly_lib.type_val_deps.types.path.references:path_relativity_restriction',
           params=dict(accepted_relativity_variants=VARIANTS), inline=True,
           ensures={'path-restriction-on-the-given-variants': lambda accepted_relativity_variants, result:
           is_path_restriction_on(result, accepted_relativity_variants)}, raises_only=())


def is_path_restriction_on(restrictions, variants):
    """the reference restriction that `ReferenceRestrictionsOnDirectAndIndirect.is_satisfied_by` is proved about"""
    return isinstance(restrictions, reference_restrictions.ReferenceRestrictionsOnDirectAndIndirect) \
        and isinstance(restrictions._direct, value_restrictions.PathAndRelativityRestriction) \
        and restrictions._direct._accepted is variants \
        and restrictions._indirect is None


def is_path_or_string_restriction_on(restrictions, variants):
    return isinstance(restrictions, reference_restrictions.OrReferenceRestrictions) \
        and len(restrictions._parts) == 2 \
        and restrictions._parts[0].selector is WithStrRenderingType.PATH \
        and is_path_restriction_on(restrictions._parts[0].restriction, variants) \
        and restrictions._parts[1].selector is WithStrRenderingType.STRING \
        and restrictions._parts[1].restriction is path_references.PATH_COMPONENT_STRING_REFERENCES_RESTRICTION


from exactly_lib.symbol.value_type import WithStrRenderingType

M.contract('exactly_lib.type_val_deps.types.path.references:path_or_string_reference_restrictions',
           params=dict(accepted_relativity_variants=VARIANTS), inline=True,
           ensures={'path: restricted to the variants; string: a path component': lambda accepted_relativity_variants,
                                                                                          result:
           is_path_or_string_restriction_on(result, accepted_relativity_variants)}, raises_only=())


def _mk_or_restrictions(interp, name):
    return interp.call(path_references.path_or_string_reference_restrictions,
                       [VARIANTS.make(interp, name + '.accepted')], {})


def accepted_of_or(restrictions):
    return restrictions._parts[0].restriction._direct._accepted


M.contract(P_RR + ':OrReferenceRestrictions.is_satisfied_by',
           params=dict(self=Custom(_mk_or_restrictions), symbol_table=SYMBOLS, symbol_name=Str, container=CONTAINER),
           returns=Opt(Any_),
           ensures={
               'path symbol: satisfied iff its resolved relativity is accepted':
                   lambda self, symbol_table, container, result:
                   implies(container.value_type is ValueType.PATH,
                           iff(result is None,
                               satisfies_path_restriction(accepted_of_or(self), symbol_table, container))),
               'neither path nor string: rejected': lambda self, container, result:
               implies(container.value_type is not ValueType.PATH and container.value_type is not ValueType.STRING,
                       result is not None),
           }, raises_only=())


# ============================================================================== parsing of the relativity
# TokenStream: n tokens, the first `pos` of which are consumed (pos is concrete: every consume() advances by one);
# after the last token the lexer may report a syntax error.

TOKEN = Inst(Token, _tuple=[EnumOf(TokenType), Str, Str],
             # TokenStream.consume reads s_source[0]: the source string of a token is not empty
             _invariant=lambda self: len(self[2]) > 0)


def _ts_token(interp, o, k):
    toks = o._pv_attrs.setdefault('__tokens__', {})
    if k not in toks:
        toks[k] = TOKEN.make(interp, '%s.token[%d]' % (o._pv_uid, k))
    return toks[k]


def _ts_refresh(interp, o):
    a = o._pv_attrs
    pos = a['pos']
    n = interp.getattr(o, 'n')
    err = interp.getattr(o, 'syntax_error_after_last_token')
    has = to_z3(n) > pos
    a['is_null'] = wrap(z3.Not(has))
    a['head'] = SOpt(z3.Not(has), _ts_token(interp, o, pos))
    a['look_ahead_state'] = SChoice(z3.If(has, 0, z3.If(to_z3(err), 2, 1)),
                                    [LookAheadState.HAS_TOKEN, LookAheadState.NULL, LookAheadState.SYNTAX_ERROR])
    a['remaining_part_of_current_line'] = Str.make(interp, '%s.remaining_line@%d' % (o._pv_uid, pos))
    a['remaining_part_of_current_line_is_empty'] = Bool.make(interp, '%s.remaining_line_is_empty@%d' % (o._pv_uid, pos))
    a['head_syntax_error_description'] = Str.make(interp, '%s.syntax_error' % o._pv_uid)


def _ts_consume(interp, self, args, kwargs):
    a = self._pv_attrs
    n = interp.getattr(self, 'n')
    if interp.branch(wrap(to_z3(n) > a['pos'])):
        tok = _ts_token(interp, self, a['pos'])
        a['pos'] += 1
        _ts_refresh(interp, self)
        return tok
    if interp.branch(interp.getattr(self, 'syntax_error_after_last_token')):
        raise PyRaise(TokenSyntaxError('syntax error'))
    return None


class TokenStreamI(Interface):
    target_class = TokenStream
    attrs = {'n': Nat, 'syntax_error_after_last_token': Bool, 'pos': Const(0)}
    methods = {'consume': Method(model=_ts_consume)}


def _mk_stream(interp, name):
    o = new_opaque(interp, TokenStreamI, name)
    interp.getattr(o, 'pos')
    _ts_refresh(interp, o)
    return o


def _token_at(interp, args, kwargs):
    return _ts_token(interp, args[0], args[1])


def token_at(stream, k):
    """the k-th token of the stream (spec level)"""
    raise NotImplementedError('proof-level only')


M.model(token_at, _token_at)
STREAM = Custom(_mk_stream)
M.trust('TokenStream is seen as a sequence of n tokens with one token of look-ahead and an optional lexing error after '
        'the last token (tokenisation itself: C09)')

# the documented option names (reference manual, "relativity options")
OPTION_OF = {'-rel-act': RelOptionType.REL_ACT, '-rel-tmp': RelOptionType.REL_TMP,
             '-rel-result': RelOptionType.REL_RESULT, '-rel-cd': RelOptionType.REL_CWD,
             '-rel-home': RelOptionType.REL_HDS_CASE, '-rel-act-home': RelOptionType.REL_HDS_ACT}


def named_relativity(s):
    for k, r in OPTION_OF.items():
        if s == k:
            return r
    return None


OPTIONS_CONF = Inst(RelOptionsConfiguration, _tuple=[VARIANTS, REL])

M.contract(P_PR + ':_resolve_relativity_option_type', params=dict(option_argument=Str), returns=REL,
           raises={SingleInstructionInvalidArgumentException: {
               'when': lambda option_argument: named_relativity(option_argument) is None}},
           ensures={'the-documented-option': lambda option_argument, result:
           result is named_relativity(option_argument)}, raises_only=())


def head_is(source, k):
    return source.n > k


M.contract(P_PR + ':_parse_rel_option_type', params=dict(options=OPTIONS_CONF, source=STREAM), returns=REL,
           requires=lambda source: not source.is_null,
           old=lambda source: source.pos,
           raises={SingleInstructionInvalidArgumentException: {
               'when': lambda options, source:
               named_relativity(source.head.string) is None
               or named_relativity(source.head.string) not in options.accepted_options,
               'ensures': lambda source, old: source.pos == old}},
           ensures={
               # at call sites: the callee's effect on the token stream (contracts do not havoc the state of arguments)
               'effect: the option is consumed': (lambda source: source.consume(), 'effect'),
               'the named relativity, which is accepted': lambda options, source, result, old:
               result is named_relativity(token_at(source, old).string) and result in options.accepted_options,
               'option consumed': lambda source, old: source.pos == old + 1,
           }, raises_only=())

M.contract('exactly_lib.symbol.symbol_syntax:is_symbol_name', trusted=True, returns=Bool, params=dict(s=Str))
M.trust('symbol_syntax.is_symbol_name decides the lexical form of a symbol name (C08)')

M.contract(P_PR + ':_try_parse_rel_symbol_option', params=dict(options=OPTIONS_CONF, source=STREAM), inline=True,
           requires=lambda source: not source.is_null,
           old=lambda source: source.pos,
           may_raise=(SingleInstructionInvalidArgumentException,),
           ensures={
               'not -rel: nothing consumed': lambda source, result, old:
               implies(token_at(source, old).string != '-rel', result is None and source.pos == old),
               '-rel SYMBOL: reference restricted to the accepted relativities of the argument':
                   lambda options, source, result, old:
                   token_at(source, old).string != '-rel'
                   or (result is not None and source.pos == old + 2
                       and result.name == token_at(source, old + 1).string
                       and is_path_restriction_on(result.restrictions, options.accepted_relativity_variants)),
           }, raises_only=())

M.contract(P_PR + ':_parse_rel_source_file', params=dict(source=STREAM), returns=Bool, inline=True,
           requires=lambda source: not source.is_null,
           old=lambda source: source.pos,
           ensures={'-rel-here consumed': lambda source, result, old:
           iff(result, token_at(source, old).string == '-rel-here') and source.pos == (old + 1 if result else old)},
           raises_only=())


def _is_rel(x):
    return isinstance(x, RelOptionType)


M.contract(P_PR + ':parse_explicit_relativity_info',
           params=dict(options=OPTIONS_CONF, source_file_location=Opt(PATH), source=STREAM), inline=True,
           old=lambda source: source.pos,
           raises={SingleInstructionInvalidArgumentException: {
               'ensures': lambda source, old:
               # only an option can be refused
               token_at(source, old).source_string[0] == '-'}},
           ensures={
               'no option: None, nothing consumed': lambda source, result, old:
               implies(source.n <= old or token_at(source, old).source_string[0] != '-',
                       result is None and source.pos == old),
               'an option of the documented table: accepted by the argument': lambda options, source, result, old:
               implies(_is_rel(result),
                       result is named_relativity(token_at(source, old).string)
                       and result in options.accepted_options and source.pos == old + 1),
               '-rel SYMBOL: restricted to the accepted relativities of the argument':
                   lambda options, source, result, old:
                   (not isinstance(result, SymbolReference))
                   or (token_at(source, old).string == '-rel' and source.pos == old + 2
                       and result.name == token_at(source, old + 1).string
                       and is_path_restriction_on(result.restrictions, options.accepted_relativity_variants)),
               'nothing else': lambda source_file_location, result:
               result is None or _is_rel(result) or isinstance(result, SymbolReference)
               or (source_file_location is not None and result is source_file_location),
           }, raises_only=())


# ============================================================================== the path parser
# What a path argument with configuration `conf` can be parsed to (`respects`): the relativity is the default or an
# accepted option; every symbol reference carries the restriction to the accepted relativities of THIS argument.

from exactly_lib.symbol import symbol_syntax
from exactly_lib.util import either

ARG_CONF = Inst(RelOptionArgumentConfiguration, _tuple=[OPTIONS_CONF, Str, Bool])


def _mk_abs_path(interp, name):
    p = PATH.make(interp, name)
    assume_pred(interp, lambda p: is_abs(den(p)), p)
    return p


def _mk_location(interp, name):
    loc = Opt(PATH).make(interp, name)
    if not interp.branch(interp.is_(loc, None)):
        assume_pred(interp, lambda p: is_abs(den(p)), interp.resolve(loc))
    return loc


M.assume('the source_file_location given to a path parser is an absolute directory '
         '(FileSystemLocationInfo.current_source_file.abs_path_of_dir_containing_last_file_base_name)')


def _mk_parser(interp, name):
    """a _Parser as _Parser.__init__ builds it (contract below): the reducer shares the configuration"""
    conf = ARG_CONF.make(interp, name + '.conf')
    c = object.__new__(parse_path._Conf)
    c.source_file_location = _mk_location(interp, name + '.source_file_location')
    c.rel_opt_conf = conf
    p = object.__new__(parse_path._Parser)
    p.conf = c
    p.symbol_name_reducer = object.__new__(parse_path.MakePathFromMbSymbolReference)
    p.symbol_name_reducer._rel_opt_conf = conf
    return p


PARSER = Custom(_mk_parser)

M.contract(P_PARSE + ':_Parser.__init__',
           params=dict(self=Inst(parse_path._Parser),
                       conf=Inst(parse_path._Conf, source_file_location=Opt(PATH), rel_opt_conf=ARG_CONF)),
           inline=True,
           ensures={'reducer-shares-the-configuration': lambda self, conf:
           self.conf is conf and self.symbol_name_reducer._rel_opt_conf is conf.rel_opt_conf}, raises_only=())


def accepted_of(conf):
    return conf.options.accepted_relativity_variants


def default_of(conf):
    return conf.options.default_option


def respects(parser, sdv):
    conf = parser.conf.rel_opt_conf
    if isinstance(sdv, sdv_constant.PathConstantSdv):
        # a literal path: the default relativity, or absolute when written as an absolute path
        return wf(sdv._path) and (rel_view(sdv._path) is None or rel_view(sdv._path) is default_of(conf))
    if isinstance(sdv, parse_path._PathSdvOfRelativityOptionAndSuffixSdv):
        return sdv.relativity is default_of(conf) or sdv.relativity in accepted_of(conf).rel_option_types
    if isinstance(sdv, path_rel_symbol.PathSdvRelSymbol):
        return is_path_restriction_on(sdv.relativity.restrictions, accepted_of(conf))
    if isinstance(sdv, path_from_symbol_reference.SdvThatIsIdenticalToReferencedPathOrWithStringValueAsSuffix):
        return is_path_or_string_restriction_on(sdv._path_or_string_symbol.restrictions, accepted_of(conf)) \
            and sdv.default_relativity is default_of(conf)
    if isinstance(sdv, parse_path._PathSdvOfAbsPathAndSuffixSdv):
        return parser.conf.source_file_location is not None and sdv.abs_path_root is parser.conf.source_file_location
    return False


class FragmentI(Interface):
    target_class = symbol_syntax.Fragment
    attrs = {'value': Str, 'is_symbol': Bool, 'is_constant': Bool}
    invariant = staticmethod(lambda self: iff(self.is_constant, not self.is_symbol))


FRAGMENTS = ListOf(Iface(FragmentI))


class ParsedStringSdvI(StringSdvI):
    attrs = {'is_string_constant': Bool, 'string_constant': Str}


# string syntax (C09): how a token is split into constant and symbol-reference fragments
M.contract('exactly_lib.symbol.symbol_syntax:split', trusted=True, params=dict(s=Str), returns=FRAGMENTS,
           ensures={'empty iff empty': lambda s, result: iff(len(result) == 0, s == '')})
M.contract('exactly_lib.impls.types.string_.parse_string:string_sdv_from_fragments', trusted=True,
           params=dict(fragments=Any_, reference_restrictions=Any_), returns=Iface(ParsedStringSdvI))
M.contract('exactly_lib.impls.types.string_.parse_string:parse_string_sdv_from_token', trusted=True,
           params=dict(token=TOKEN, reference_restrictions=Any_), returns=Iface(ParsedStringSdvI),
           ensures={'a constant is the string of the token': lambda token, result:
           implies(result.is_string_constant, result.string_constant == token.string)})
M.trust('string syntax (C09): symbol_syntax.split gives the fragments of a token (no fragment iff the string is empty); '
        'string_sdv_from_fragments / parse_string_sdv_from_token build the StringSdv of them; a StringSdv without '
        'symbol references is the constant string of its token')

M.contract(P_PARSE + ':_Parser._just_string_argument', params=dict(self=PARSER, argument=Str),
           returns=Inst(sdv_constant.PathConstantSdv, _path=ANY_DDV),
           ensures={
               'default relativity (absolute if written as an absolute path), the argument as suffix':
                   lambda self, argument, result:
                   rel_view(result.resolve(None)) is (None if argument.startswith('/')
                                                      else default_of(self.conf.rel_opt_conf))
                   and tail_view(result.resolve(None)) == P(argument) and wf(result.resolve(None)),
           }, raises_only=())

M.contract(P_PARSE + ':_Parser._result_from_no_arguments', params=dict(self=PARSER), inline=True,
           ensures={'the root of the default relativity': lambda self, result:
           result.is_right() and respects(self, result.right())
           and rel_view(result.right().resolve(None)) is default_of(self.conf.rel_opt_conf)
           and tail_view(result.right().resolve(None)) == P('')}, raises_only=())

M.contract(P_PARSE + ':MakePathFromMbSymbolReference.reduce_left',
           params=dict(self=Inst(parse_path.MakePathFromMbSymbolReference, _rel_opt_conf=ARG_CONF), x=Str),
           inline=True,
           ensures={'reference restricted to the accepted relativities; default relativity for a string':
                        lambda self, x, result:
                        isinstance(result,
                                   path_from_symbol_reference.SdvThatIsIdenticalToReferencedPathOrWithStringValueAsSuffix)
                        and result._path_or_string_symbol.name == x
                        and is_path_or_string_restriction_on(result._path_or_string_symbol.restrictions,
                                                             accepted_of(self._rel_opt_conf))
                        and result.default_relativity is default_of(self._rel_opt_conf)}, raises_only=())

_RELATIVITY_INFO = Union(REL, Inst(SymbolReference, _name=Str, _restrictions=DIRECT_PATH_RESTRICTIONS),
                         Custom(lambda interp, name: _mk_abs_path(interp, name)))


def constructed_with(relativity_info, suffix_sdv, sdv):
    if isinstance(relativity_info, RelOptionType):
        return isinstance(sdv, parse_path._PathSdvOfRelativityOptionAndSuffixSdv) \
            and sdv.relativity is relativity_info and sdv.path_suffix_sdv is suffix_sdv
    if isinstance(relativity_info, SymbolReference):
        return isinstance(sdv, path_rel_symbol.PathSdvRelSymbol) \
            and sdv.relativity is relativity_info and sdv.path_suffix is suffix_sdv
    return isinstance(sdv, parse_path._PathSdvOfAbsPathAndSuffixSdv) \
        and sdv.abs_path_root is relativity_info and sdv.path_suffix_sdv is suffix_sdv


def _constructor_applied(relativity_info, suffix_sdv):
    return parse_path._Parser._path_constructor(relativity_info)(suffix_sdv)


M.contract('contracts.C12_paths:_constructor_applied',
           params=dict(relativity_info=_RELATIVITY_INFO, suffix_sdv=Iface(PartSdvI)),
           requires=lambda relativity_info: relativity_info is not None,
           ensures={'_path_constructor: the SDV class of the kind of relativity, holding it and the suffix':
                        lambda relativity_info, suffix_sdv, result:
                        constructed_with(relativity_info, suffix_sdv, result)}, raises_only=())


def _mk_constructor(interp, name):
    info = _RELATIVITY_INFO.make(interp, name + '.relativity_info')
    f = interp.call(parse_path._Parser._path_constructor, [info], {})
    interp.st.ghost['relativity_info'] = info
    return f


def relative_constant_part(part_sdv):
    """a constant suffix, checked by the parser to be a relative path"""
    return isinstance(part_sdv, part_impl.PathPartSdvAsConstantPath) \
        and not part_sdv._path_part.value().startswith('/')


M.contract(P_PARSE + ':_Parser._with_explicit_relativity',
           params=dict(self=PARSER, path_argument=TOKEN, path_part_2_path_sdv=Custom(_mk_constructor)), inline=True,
           ensures={
               'absolute constant: the absolute path itself (the relativity is ignored)':
                   lambda path_argument, result:
                   (not isinstance(result, sdv_constant.PathConstantSdv))
                   or (path_argument.string.startswith('/') and rel_view(result._path) is None
                       and tail_view(result._path) == P(path_argument.string) and wf(result._path)),
               'otherwise: the SDV of the given relativity; a constant suffix is the (relative) string of the token':
                   lambda path_argument, result, ghost:
                   isinstance(result, sdv_constant.PathConstantSdv)
                   or (constructed_with(ghost['relativity_info'], suffix_of(result), result)
                       and (relative_constant_part(suffix_of(result))
                            and suffix_of(result)._path_part.value() == path_argument.string
                            or isinstance(suffix_of(result), part_impl.PathPartSdvAsStringSdv))),
           }, raises_only=())


def suffix_of(sdv):
    if isinstance(sdv, path_rel_symbol.PathSdvRelSymbol):
        return sdv.path_suffix
    return sdv.path_suffix_sdv


M.contract(P_PARSE + ':_Parser._extract_parts_that_can_act_as_path_and_suffix',
           params=dict(self=PARSER, string_fragments=ListOf(Iface(FragmentI), min_len=1)), inline=True,
           ensures={'reference to the first fragment, restricted to the accepted relativities':
                        lambda self, string_fragments, result:
                        result[0].name == string_fragments[0].value
                        and is_path_or_string_restriction_on(result[0].restrictions,
                                                             accepted_of(self.conf.rel_opt_conf))},
           raises_only=())

M.contract(P_PARSE + ':_Parser._just_argument_with_symbol_references',
           params=dict(self=PARSER, string_fragments=ListOf(Iface(FragmentI), min_len=1)), inline=True,
           ensures={
               'leading symbol reference: path-or-string reference restricted to the accepted relativities':
                   lambda self, string_fragments, result:
                   (not isinstance(result,
                                   path_from_symbol_reference.SdvThatIsIdenticalToReferencedPathOrWithStringValueAsSuffix))
                   or (respects(self, result) and result._path_or_string_symbol.name == string_fragments[0].value),
               'otherwise: the default relativity': lambda self, result:
               isinstance(result,
                          path_from_symbol_reference.SdvThatIsIdenticalToReferencedPathOrWithStringValueAsSuffix)
               or (isinstance(result, parse_path._PathSdvOfRelativityOptionAndSuffixSdv)
                   and result.relativity is default_of(self.conf.rel_opt_conf)),
               # `@[S]@` and `@[S]@/suffix`: S may be a path (the root) -- "a leading path-symbol reference resolves to
               # the documented root joined with its suffix".  `@[S]@x`: a concatenation, S is part of a file name
               # and must be a string (a path symbol there is wrongly typed: C08).
               'the leading reference may be a path iff it is the whole argument or is followed by "/"':
                   lambda string_fragments, result:
                   iff(isinstance(result,
                                  path_from_symbol_reference.SdvThatIsIdenticalToReferencedPathOrWithStringValueAsSuffix),
                       (not string_fragments[0].is_constant)
                       and (len(string_fragments) == 1
                            or (string_fragments[1].is_constant and string_fragments[1].value.startswith('/')))),
           }, raises_only=())
M.contracts[-1].props = tuple(sorted(set(M.contracts[-1].props) | {'C08'}))


def _result_respects(self, result):
    """result: Either a symbol name (a plain token that is a single symbol reference) or a PathSdv"""
    if result.is_left():
        return True
    return respects(self, result.right())


M.contract(P_PARSE + ':_Parser._without_explicit_relativity', params=dict(self=PARSER, path_argument=TOKEN),
           inline=True,
           # dead code of the program: parse_sym_ref_or_fragments_from_token gives a symbol name (left) only for a
           # PLAIN token, so `is_left() and not is_plain` never holds
           cover=('symbol_name_reducer.reduce_left',),
           # `file ""`: symbol_syntax.split('') is [] and fragments[0] raises IndexError (reported by the instruction
           # parser as a syntax error with the message 'list index out of range'; see notes/C12.md)
           raises={IndexError: {'when': lambda path_argument:
           path_argument.string == '' and not (path_argument.is_quoted and path_argument.is_hard_quote_type)}},
           ensures={'respects the configuration of the argument': lambda self, result: _result_respects(self, result)},
           raises_only=())

M.contract(P_PARSE + ':_Parser._with_non_empty_token_stream', params=dict(self=PARSER, tokens=STREAM),
           requires=lambda tokens: not tokens.is_null,
           old=lambda tokens: tokens.pos,
           raises={
               SingleInstructionInvalidArgumentException: {},
               IndexError: {}},
           ensures={
               'respects the configuration of the argument': lambda self, result: _result_respects(self, result),
               'a relativity option that the argument does not accept is never passed on':
                   lambda self, tokens, result, old:
                   implies(named_relativity(token_at(tokens, old).string) is not None
                           and token_at(tokens, old).source_string[0] == '-',
                           named_relativity(token_at(tokens, old).string)
                           in accepted_of(self.conf.rel_opt_conf).rel_option_types),
           }, raises_only=())


# ============================================================================== write protection: the composed statement
# A parsed destination argument, resolved against a symbol table that satisfies the restrictions of every reference
# of the argument (C08 checks them -- VALIDATION_ERROR -- before anything is executed, C03), has an ACCEPTED
# relativity.  Contrapositive: a path symbol whose value is relative to a home directory or the result directory,
# or is absolute -- through however many definitions -- is rejected before execution.

def _mk_case(interp, name):
    """(parser, sdv): an SDV as the parser builds it for its configuration (`respects`, proved above)"""
    parser = _mk_parser(interp, name + '.parser')
    conf = parser.conf.rel_opt_conf
    acc = conf.options.accepted_relativity_variants
    k = interp.st.choose(4)
    interp.st.assume(interp.st.fresh_int(name + '.kind') == k)
    if k == 0:
        sdv = Inst(sdv_constant.PathConstantSdv, _path=ANY_DDV).make(interp, name + '.sdv')
    elif k == 1:
        sdv = Inst(parse_path._PathSdvOfRelativityOptionAndSuffixSdv, relativity=REL,
                   path_suffix_sdv=Iface(PartSdvI)).make(interp, name + '.sdv')
    elif k == 2:
        ref = SymbolReference(Str.make(interp, name + '.symbol'),
                              interp.call(parse_relativity.reference_restrictions_for_path_symbol, [acc], {}))
        sdv = path_rel_symbol.PathSdvRelSymbol(Iface(PartSdvI).make(interp, name + '.suffix'), ref)
    else:
        ref = SymbolReference(Str.make(interp, name + '.symbol'),
                              interp.call(path_references.path_or_string_reference_restrictions, [acc], {}))
        sdv = path_from_symbol_reference.SdvThatIsIdenticalToReferencedPathOrWithStringValueAsSuffix(
            ref, Iface(PartSdvI).make(interp, name + '.suffix'), conf.options.default_option)
    return (parser, sdv)


def leading_reference(sdv):
    if isinstance(sdv, path_rel_symbol.PathSdvRelSymbol):
        return sdv.relativity
    if isinstance(sdv, path_from_symbol_reference.SdvThatIsIdenticalToReferencedPathOrWithStringValueAsSuffix):
        return sdv._path_or_string_symbol
    return None


def references_are_satisfied(sdv, symbols):
    ref = leading_reference(sdv)
    if ref is None:
        return True
    return ref.restrictions.is_satisfied_by(symbols, ref.name, symbols.lookup(ref.name)) is None


def destination_ok(parser, sdv, symbols, ddv):
    conf = parser.conf.rel_opt_conf
    acc = accepted_of(conf)
    r = rel_view(ddv)
    if isinstance(sdv, path_rel_symbol.PathSdvRelSymbol):
        # -rel SYMBOL: the relativity of the symbol, which the restriction accepted
        return accepts(acc, r)
    if isinstance(sdv, parse_path._PathSdvOfRelativityOptionAndSuffixSdv):
        return r is default_of(conf) or r in acc.rel_option_types
    if isinstance(sdv, path_from_symbol_reference.SdvThatIsIdenticalToReferencedPathOrWithStringValueAsSuffix):
        if symbols.lookup(sdv._path_or_string_symbol.name).value_type is ValueType.PATH:
            return accepts(acc, r)
        # a STRING symbol is text: the default relativity, or an absolute path if the text is one
        return r is default_of(conf) or r is None
    # a literal path: the default relativity, or an absolute path if written as one
    return r is default_of(conf) or r is None


def resolved_destination(case, symbols):
    """Harness: what a parsed path argument resolves to."""
    parser, sdv = case
    return sdv.resolve(symbols)


M.contract('contracts.C12_paths:resolved_destination',
           params=dict(case=Custom(_mk_case), symbols=SYMBOLS),
           requires=lambda case, symbols: respects(case[0], case[1]) and references_are_satisfied(case[1], symbols),
           ensures={
               'relativity accepted by the argument (a path symbol of another relativity was rejected)':
                   lambda case, symbols, result: destination_ok(case[0], case[1], symbols, result),
               'well-formed': lambda result: wf(result),
           }, raises_only=())


# ============================================================================== the destination arguments of file, dir, copy

@M.check('destination arguments')
def _destinations(ctx):
    """The configurations the REAL parser objects of the writing instructions hold (read from the imported tree)."""
    from exactly_lib.impls.instructions.multi_phase import new_file, new_dir, copy as copy_instr
    from exactly_lib.type_val_deps.types.path import rel_opts_configuration as roc
    from exactly_lib.type_val_deps.types.path import path_relativities
    writable = {RelOptionType.REL_ACT, RelOptionType.REL_TMP, RelOptionType.REL_CWD}

    def is_write_protected(conf):
        v = conf.options.accepted_relativity_variants
        return isinstance(conf, RelOptionArgumentConfiguration) and set(v.rel_option_types) == writable \
            and v.absolute is False and conf.options.default_option in writable \
            and set(conf.options.accepted_options) == writable

    ctx.obligation('RELATIVITY_VARIANTS_FOR_FILE_CREATION == {act, tmp, cd}, not absolute',
                   set(roc.RELATIVITY_VARIANTS_FOR_FILE_CREATION.rel_option_types) == writable
                   and roc.RELATIVITY_VARIANTS_FOR_FILE_CREATION.absolute is False, 'enumeration')
    ctx.obligation('REL_OPTIONS_FOR_FILE_CREATION: those variants, default -rel-cd',
                   roc.REL_OPTIONS_FOR_FILE_CREATION.accepted_relativity_variants
                   is roc.RELATIVITY_VARIANTS_FOR_FILE_CREATION
                   and roc.REL_OPTIONS_FOR_FILE_CREATION.default_option is RelOptionType.REL_CWD, 'enumeration')
    confs = {
        'file (before act)': new_file.EmbryoParser(False)._path_parser._conf,
        'file (after act)': new_file.EmbryoParser(True)._path_parser._conf,
        'dir': new_dir.EmbryoParser()._path_parser._conf,
        'dir (PARTS_PARSER)': new_dir.PARTS_PARSER._embryo_parser._path_parser._conf
        if hasattr(new_dir.PARTS_PARSER, '_embryo_parser') else new_dir.RELATIVITY_VARIANTS,
        'copy destination (before act)': copy_instr.EmbryoParser(False)._dst_path_parser._conf,
        'copy destination (after act)': copy_instr.EmbryoParser(True)._dst_path_parser._conf,
    }
    for name, conf in confs.items():
        v = conf.options.accepted_relativity_variants
        ctx.obligation('destination of %s accepts exactly {act, tmp, cd}, no absolute path, default among them' % name,
                       is_write_protected(conf), 'enumeration',
                       detail={'accepted': sorted(r.name for r in v.rel_option_types), 'absolute': v.absolute,
                               'default': conf.options.default_option.name})
    # the path parser of these instructions is parse_path.PathParser on that configuration, without -rel-here
    import ast
    import inspect
    for mod, cls in ((new_file, new_file.EmbryoParser), (new_dir, new_dir.EmbryoParser),
                     (copy_instr, copy_instr.EmbryoParser)):
        tree = ast.parse(inspect.getsource(cls))
        calls = [n for n in ast.walk(tree) if isinstance(n, ast.Call) and isinstance(n.func, ast.Attribute)
                 and n.func.attr == 'parse_from_token_parser']
        ctx.obligation('%s.EmbryoParser parses its paths with PathParser.parse_from_token_parser(tokens) only '
                       '(no source_file_location: -rel-here is not available)' % mod.__name__.rpartition('.')[2],
                       len(calls) >= 1 and all(len(c.args) == 1 and not c.keywords for c in calls), 'scan',
                       detail={'calls': len(calls)})
    # reading arguments: every relativity except the result directory before the act phase; all of them after it
    before = path_relativities.relativity_variants(False)
    after = path_relativities.relativity_variants(True)
    ctx.obligation('reading arguments accept all relativities but -rel-result before act, all of them after act',
                   set(before.rel_option_types) == set(RelOptionType) - {RelOptionType.REL_RESULT}
                   and set(after.rel_option_types) == set(RelOptionType) and before.absolute and after.absolute,
                   'enumeration')


# ============================================================================== -rel-cd is resolved at the time of use

import os


def cwd_is_read_at_time_of_use(suffix, d1, d2, sds):
    """Harness: a -rel-cd path created in one current directory and used in another one."""
    os.chdir(d1)
    ddv = path_ddvs._PathDdvFromRelRootResolver(relativity_root.resolver_for_cwd,
                                                path_ddvs.constant_path_part(suffix))
    os.chdir(d2)
    return ddv.value_post_sds(sds)


M.contract('contracts.C12_paths:cwd_is_read_at_time_of_use',
           params=dict(suffix=Str, d1=Str, d2=Str, sds=SDS),
           old=lambda ghost: cwd_now(ghost),
           ensures={'the current directory of the time of USE (after the second cd) is the root':
                        lambda suffix, d1, d2, result, old:
                        den(result) == join(join(join(old, P(d1)), P(d2)), P(suffix))},
           raises_only=())

# ---- the restricted reference is among the references of the SDV (so that C08 checks it before execution)

M.contract(P_SDV + '.path_rel_symbol:PathSdvRelSymbol.references',
           params=dict(self=Inst(path_rel_symbol.PathSdvRelSymbol,
                                 path_suffix=Inst(part_impl.PathPartSdvAsNothing), relativity=SYMBOL_REF)),
           inline=True,
           ensures={'the -rel SYMBOL reference comes first': lambda self, result: result[0] is self.relativity},
           raises_only=())
M.contract(P_SDV + '.path_from_symbol_reference:SdvThatIsIdenticalToReferencedPathOrWithStringValueAsSuffix.references',
           params=dict(self=Inst(path_from_symbol_reference.SdvThatIsIdenticalToReferencedPathOrWithStringValueAsSuffix,
                                 _path_or_string_symbol=SYMBOL_REF, _suffix_sdv=Inst(part_impl.PathPartSdvAsNothing),
                                 default_relativity=REL)),
           inline=True,
           ensures={'the leading reference comes first': lambda self, result:
           result[0] is self._path_or_string_symbol}, raises_only=())


# ====================================================================================== symbol usages
# "a path symbol whose value is relative to a home directory or the result directory, or is absolute -- however
# many symbol definitions it is routed through -- is rejected before execution": the restriction classes of this
# module decide a single reference; that EVERY reference of EVERY instruction is put before its restriction (the
# fold over the symbol usages against the growing table) is under contract in C08.  Those clauses carry C12 as
# well: the check of C12 re-proves them on the current tree.  (After the seeded change C12-s2, which checked only
# the first reference to a name within an instruction.)

def _share_symbol_validation():
    from contracts.common import share_contracts
    wanted = (':_validate_reference', ':_validate_symbol_reference', ':_validate_symbol_definition',
              ':validate_symbol_usage', ':validate_symbol_usages',
              ':ReferenceRestrictionsOnDirectAndIndirect._check_indirect',
              ':ReferenceRestrictionsOnDirectAndIndirect.check_indirect',
              ':ReferenceRestrictionsOnDirectAndIndirect.is_satisfied_by',
              ':OrReferenceRestrictions._no_satisfied_restriction', ':OrReferenceRestrictions.is_satisfied_by')
    names = share_contracts('C12', 'contracts.C08_symbols', lambda q: q.endswith(wanted))
    assert len(set(names)) >= len(wanted) - 1, names      # (_no_satisfied_restriction: a helper without contract of its own)


M.after_load = _share_symbol_validation


# Assumed summaries of this module that follow from contracts PROVED for another property (Module.implied_by, ENGINE.md):
# the refinement obligations are generated by this property's check and the proved contract is re-proved here.
M.implied_by('exactly_lib.symbol.symbol_syntax:is_symbol_name', 'C09')
M.implied_by('exactly_lib.impls.types.string_.parse_string:string_sdv_from_fragments', 'C09')
M.implied_by('exactly_lib.type_val_deps.sym_ref.w_str_rend_restrictions.error_messages:unsatisfied_path_relativity', 'C18')
