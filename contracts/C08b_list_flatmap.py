"""C08, "lists by splicing in elements": `ListSdv.resolve` / `ListSdv.references` are FLAT-MAPS over the element
sequence -- `ret_val.extend(element.resolve(symbols))` with pieces of unknown length, for a list of unknown length.

Vocabulary (contracts/common.py, engine: pyvc/flat.py): for a sequence `xs` and a pure module-level function
`piece(x, *extra)` that gives a sequence,
    flat_offset(xs, k, piece, *extra)  = len(piece(xs[0])) + ... + len(piece(xs[k-1]))   (where piece k starts)
    is_flat_concat(out, xs, n, piece, *extra)
        = len(out) == flat_offset(xs, n, ..)  and  for every j < n and every k < len(piece(xs[j])):
          out[flat_offset(xs, j, ..) + k] is piece(xs[j])[k]
i.e. `out` is the in-order concatenation of the pieces of the first n elements: the length is the sum of the lengths,
piece j occupies the positions [offset(j), offset(j+1)) in its own order, pieces follow each other in the order of
their elements (offsets are non-decreasing).

The elements of the list are the environment here (an `ElementSdv` is known through `resolve` / `references`, pure:
a function of the element and the table -- resolving does not change the table, see the frame obligations of the two
element classes); what the two real element classes resolve to is proved in contracts/C08_symbols.py
(`StringElementSdv.resolve`: exactly one item; `SymbolReferenceElementSdv.resolve`: a list symbol is spliced in)."""
from pyvc.api import (Module, Interface, Method, Iface, Inst, Int, Nat, Bool, Str, Opt, ListOf, Any_)
from contracts.common import implies, iff, forall_range, flat_offset, is_flat_concat
from contracts.C08_symbols import P_LSDV, P_LDDV

from exactly_lib.type_val_deps.types.list_ import list_sdv, list_ddv
from exactly_lib.type_val_deps.types.string_ import string_ddv, string_sdv
from exactly_lib.util.symbol_table import SymbolTable
from exactly_lib.symbol.sdv_structure import SymbolReference

M = Module('C08')


class RefI(Interface):
    """a SymbolReference as an object (which one: identity)"""
    by_id = True
    target_class = SymbolReference


class ItemI(Interface):
    """an item of a resolved list: a StringDdv as an object (which one: identity; immutable)"""
    by_id = True
    target_class = string_ddv.StringDdv


class TableI(Interface):
    """the symbol table, passed through to the elements"""
    by_id = True
    target_class = SymbolTable


class ElementSdvI(Interface):
    """an element of a list (environment: any ElementSdv).  `resolve` is a function of the element and the table."""
    target_class = list_sdv.ElementSdv
    attrs = {'references': ListOf(Iface(RefI))}
    methods = {'resolve': Method(returns=ListOf(Iface(ItemI)), pure=True)}


def resolved_piece(element, symbols):
    """what one element contributes to the resolved list"""
    return element.resolve(symbols)


def references_piece(element):
    return element.references


LIST_SDV = Inst(list_sdv.ListSdv, _elements=ListOf(Iface(ElementSdvI)))

M.contract(P_LSDV + ':ListSdv.resolve', params=dict(self=LIST_SDV, symbols=Iface(TableI)),
           returns=Inst(list_ddv.ListDdv, _string_elements=ListOf(Iface(ItemI))),
           ensures={
               'a ListDdv': lambda result: type(result) is list_ddv.ListDdv,
               'lists by splicing in elements: the in-order concatenation of what each element resolves to (against '
               'the given table)': lambda self, symbols, result:
               is_flat_concat(result._string_elements, self._elements, len(self._elements), resolved_piece, symbols),
           }, raises_only=())

M.loop(P_LSDV + ':ListSdv.resolve', 0,
       invariant=lambda _i, self, symbols, value_elements:
       is_flat_concat(value_elements, self._elements, _i, resolved_piece, symbols),
       modifies=dict(value_elements=ListOf(Iface(ItemI)), sdv_element='local'))

M.contract(P_LSDV + ':ListSdv.references', params=dict(self=LIST_SDV),
           ensures={'every reference of every element, in order (elements in order, the references of one element in '
                    'their order)': lambda self, result:
           is_flat_concat(result, self._elements, len(self._elements), references_piece)},
           raises_only=())

M.loop(P_LSDV + ':ListSdv.references', 0,
       invariant=lambda _i, self, ret_val: is_flat_concat(ret_val, self._elements, _i, references_piece),
       modifies=dict(ret_val=ListOf(Iface(RefI)), string_sdv='local'))


# --- what the two real element classes report as `references` (the `references` attribute of ElementSdvI)

class StringSdvRefsI(Interface):
    """the string of a string element: known through the references it reports"""
    target_class = string_sdv.StringSdv
    attrs = {'references': ListOf(Iface(RefI))}


M.contract(P_LSDV + ':StringElementSdv.references',
           params=dict(self=Inst(list_sdv.StringElementSdv, _string_sdv=Iface(StringSdvRefsI))),
           ensures={'the references of its string, in order': lambda self, result:
           len(result) == len(self._string_sdv.references)
           and forall_range(0, len(result), lambda k: result[k] is self._string_sdv.references[k])},
           raises_only=())

M.contract(P_LSDV + ':SymbolReferenceElementSdv.references',
           params=dict(self=Inst(list_sdv.SymbolReferenceElementSdv, _symbol_reference=Iface(RefI))),
           ensures={'exactly its one reference': lambda self, result:
           len(result) == 1 and result[0] is self._symbol_reference},
           raises_only=())

M.contract(P_LSDV + ':SymbolReferenceElementSdv.symbol_reference_if_is_symbol_reference',
           params=dict(self=Inst(list_sdv.SymbolReferenceElementSdv, _symbol_reference=Iface(RefI))),
           ensures={'its reference': lambda self, result: result is self._symbol_reference}, raises_only=())

M.contract(P_LSDV + ':StringElementSdv.symbol_reference_if_is_symbol_reference',
           params=dict(self=Inst(list_sdv.StringElementSdv, _string_sdv=Any_)),
           ensures={'none': lambda result: result is None}, raises_only=())

M.assume('ElementSdv.resolve(symbols) / ElementSdv.references of the elements of a ListSdv (interface ElementSdvI) are '
         'functions of the element (and the table): resolving an element neither changes the element nor the table '
         '(frame obligations of StringElementSdv.resolve / SymbolReferenceElementSdv.resolve in C08_symbols.py; the '
         'classes have no mutators)')
