"""C11 -- settings persist forward: cd, env (act / non-act), timeout.

The state an instruction can change is  (non-act environ, act environ, timeout, cwd):
    non-act environ   InstructionSettings._environ        (dict or None = not yet populated)
    act environ       SetupSettingsBuilder._environ       (dict or None)
    timeout           InstructionSettings._timeout_in_seconds
    cwd               the process' current directory (os.chdir)
Environments are maps str -> str (a real dict natively, SMT arrays in proofs).  Each setting-changing
instruction is proved to implement one transition of that state machine; `_post_sds_environment` is proved to
hand every instruction the settings in force when it is called.  See DESIGN.md / C11."""
import re

import z3

from pyvc.api import (Module, Interface, Method, Iface, Inst, Int, Nat, Bool, Str, Opt, OneOf, Const, Union,
                      ListOf, FixedList, MapOf, Derived, Any_, EnumOf, Custom, new_opaque, assume_pred)
from pyvc.values import SOpt, SInt, SStr, to_z3, wrap
from contracts.common import implies, iff, forall_range, exists_range, is_opaque, recursive_str

from exactly_lib.impls.instructions.multi_phase.environ import impl as env_impl

M = Module('C11')

P_ENV = 'exactly_lib.impls.instructions.multi_phase.environ.impl'

ENVIRON = MapOf(Str, Str)


def _with(d, key, value):
    r = dict(d)
    r[key] = value
    return r


def _without(d, key):
    r = dict(d)
    r.pop(key, None)
    return r


# ------------------------------------------------------------------------------ ${NAME} references

REFERENCE_PATTERN = r'\$\{[a-zA-Z0-9_]+\}'       # the manual: ${NAME}, NAME made of letters, digits and underscore
_NAME_CHARS = 'abcdefghijklmnopqrstuvwxyzABCDEFGHIJKLMNOPQRSTUVWXYZ0123456789_'


class _Match:
    """what the code uses of a re.Match"""

    def __init__(self, start, end):
        self._start = start
        self._end = end

    def start(self):
        return self._start

    def end(self):
        return self._end


def _reference_re():
    name_char = z3.Union(z3.Range('a', 'z'), z3.Range('A', 'Z'), z3.Range('0', '9'), z3.Re('_'))
    return z3.Concat(z3.Re('${'), z3.Plus(name_char), z3.Re('}'))


def _search_model(interp, args, kwargs):
    """Assumed contract of  _ENV_VAR_REFERENCE.search(s)  (re.Pattern.search, leftmost match) in SMT regular
    expression terms.  The result is a function of the string: found(s), start(s), end(s) with
        found(s)  <=>  s in  .* R .*
        found(s)   =>  s == pre . m . post,  |pre| == start(s),  |pre . m| == end(s),  m in R,  pre not in .* R .*
    For this R a match is determined by its start and two matches cannot overlap ('$' occurs only at the start of a
    match), so "no match starts before start(s)" is "pre contains no match".  `search-model` below compares this
    characterisation with re.search on every string up to a bound."""
    from pyvc import strings
    (s,) = args
    st = interp.st
    t = to_z3(s)
    R = _reference_re()
    full = z3.Full(z3.ReSort(z3.StringSort()))
    contains_ref = z3.Concat(full, R, full)
    found = z3.Function('ref.found', z3.StringSort(), z3.BoolSort())(t)
    start = z3.Function('ref.start', z3.StringSort(), z3.IntSort())(t)
    end = z3.Function('ref.end', z3.StringSort(), z3.IntSort())(t)
    key = ('@ref-search', t.get_id())
    if key not in st.ghost:
        st.ghost[key] = t
        st.assume(found == z3.InRe(t, contains_ref))
        st.assume(z3.And(0 <= start, start <= end, end <= z3.Length(t)))
        st.assume(z3.Implies(found, start + 4 <= end))
        pre, mid, post = strings.decompose(interp, s, [start, z3.simplify(end - start), None], 'ref')
        st.assume(z3.Implies(found, z3.And(z3.InRe(mid, R), z3.Not(z3.InRe(pre, contains_ref)))))
    return SOpt(z3.Not(found), _Match(wrap(start), wrap(end)))


M.model(env_impl._ENV_VAR_REFERENCE.search, _search_model)
M.trust('re.Pattern.search for the pattern of ${NAME} references: leftmost match, characterised in SMT regular '
        'expression terms (contracts.C11_settings._search_model; compared with CPython by check `search-model`)')


@M.check('search-model')
def _check_search_model(ctx):
    """The pattern object is the documented one, and the characterisation used by the model agrees with CPython's
    re.search on every string over a 6-letter alphabet up to length 7."""
    import itertools
    pat = env_impl._ENV_VAR_REFERENCE
    ctx.obligation('_ENV_VAR_REFERENCE is the pattern of ${NAME} references',
                   pat.pattern in (r'\${[a-zA-Z0-9_]+}', REFERENCE_PATTERN) and pat.flags == re.compile('x').flags,
                   'enumeration', detail={'pattern': pat.pattern, 'flags': pat.flags})
    ref = re.compile(REFERENCE_PATTERN)
    bad = None
    n = 0
    for k in range(0, 8):
        for tup in itertools.product('${}a_-', repeat=k):
            s = ''.join(tup)
            n += 1
            m = pat.search(s)
            # the characterisation: exists a split pre.m.post with m a full match and no match inside pre
            cands = [(i, j) for i in range(len(s) + 1) for j in range(i, len(s) + 1)
                     if ref.fullmatch(s[i:j]) and not ref.search(s[:i])]
            if (m is None) != (not cands) or (m is not None and cands != [(m.start(), m.end())]):
                bad = s
                break
        if bad is not None:
            break
    ctx.obligation('leftmost-match characterisation == re.search on all strings over "${}a_-" up to length 7',
                   bad is None, 'enumeration', detail={'strings': n, 'first_difference': bad})


@recursive_str
def expand(value, env):
    """Reference semantics of ${NAME} expansion: scan left to right; the leftmost reference is replaced by the
    value of NAME in env ('' if unset); the text before it is copied; expansion continues after it (replaced
    text is not rescanned)."""
    m = env_impl._ENV_VAR_REFERENCE.search(value)
    if not m:
        return value
    return value[:m.start()] + env.get(value[m.start() + 2:m.end() - 1], '') + expand(value[m.end():], env)


def _same_match(match, searched):
    return iff(not match, not searched) and ((not match) or (match.start() == searched.start()
                                                             and match.end() == searched.end()))


M.contract(P_ENV + ':_expand_vars', params=dict(value=Str, environ=ENVIRON), returns=Str,
           ensures={'is the expansion of the value against the given set': lambda value, environ, result:
           result == expand(value, environ)},
           raises_only=())

_MATCH = Custom(lambda interp, name: SOpt(interp.st.fresh_bool(name + '.is_none'),
                                          _Match(SInt(interp.st.fresh_int(name + '.start')),
                                                 SInt(interp.st.fresh_int(name + '.end')))))

M.loop(P_ENV + ':_expand_vars', 0,
       invariant=lambda processed, remaining, match, value, environ:
       _same_match(match, env_impl._ENV_VAR_REFERENCE.search(remaining))
       and processed + expand(remaining, environ) == expand(value, environ),
       modifies=dict(processed=Str, remaining=Str, match=_MATCH),
       decreases=lambda remaining: len(remaining))
