"""C11 -- settings persist forward: cd, env (act / non-act), timeout.

The state an instruction can change is  (non-act environ, act environ, timeout, cwd):
    non-act environ   InstructionSettings._environ        (dict or None = not yet populated)
    act environ       SetupSettingsBuilder._environ       (dict or None)
    timeout           InstructionSettings._timeout_in_seconds
    cwd               the process' current directory (os.chdir)
Environments are maps str -> str (a real dict natively, SMT arrays in proofs).  Each setting-changing
instruction is proved to implement one transition of that state machine; `_post_sds_environment` is proved to
hand every instruction the settings in force when it is called.  See DESIGN.md / C11."""
import re

try:
    import z3
except ImportError:      # replay scripts run under the repository's interpreter, without z3
    z3 = None

from pyvc.api import (Module, Interface, Method, Iface, Inst, Int, Nat, Bool, Str, Opt, OneOf, Const, Union,
                      ListOf, FixedList, MapOf, Derived, Any_, EnumOf, Custom, new_opaque, assume_pred)
from pyvc.values import SOpt, SInt, SStr, to_z3, wrap
from contracts.common import implies, iff, forall_range, exists_range, is_opaque, recursive_str

from exactly_lib.impls.instructions.multi_phase.environ import impl as env_impl

M = Module('C11')

P_ENV = 'exactly_lib.impls.instructions.multi_phase.environ.impl'

ENVIRON = MapOf(Str, Str)


def _with(d, key, value):
    r = dict(d)
    r[key] = value
    return r


def _without(d, key):
    r = dict(d)
    r.pop(key, None)
    return r


# ------------------------------------------------------------------------------ ${NAME} references

REFERENCE_PATTERN = r'\$\{[a-zA-Z0-9_]+\}'       # the manual: ${NAME}, NAME made of letters, digits and underscore
_NAME_CHARS = 'abcdefghijklmnopqrstuvwxyzABCDEFGHIJKLMNOPQRSTUVWXYZ0123456789_'


class _Match:
    """what the code uses of a re.Match"""

    def __init__(self, start, end):
        self._start = start
        self._end = end

    def start(self):
        return self._start

    def end(self):
        return self._end


def _reference_re():
    name_char = z3.Union(z3.Range('a', 'z'), z3.Range('A', 'Z'), z3.Range('0', '9'), z3.Re('_'))
    return z3.Concat(z3.Re('${'), z3.Plus(name_char), z3.Re('}'))


def _search_model(interp, args, kwargs):
    """Assumed contract of  _ENV_VAR_REFERENCE.search(s)  (re.Pattern.search, leftmost match) in SMT regular
    expression terms.  The result is a function of the string: found(s), start(s), end(s) with
        found(s)  <=>  s in  .* R .*
        found(s)   =>  s == pre . m . post,  |pre| == start(s),  |pre . m| == end(s),  m in R,  pre not in .* R .*
    For this R a match is determined by its start and two matches cannot overlap ('$' occurs only at the start of a
    match), so "no match starts before start(s)" is "pre contains no match".  `search-model` below compares this
    characterisation with re.search on every string up to a bound."""
    from pyvc import strings
    (s,) = args
    st = interp.st
    t = to_z3(s)
    R = _reference_re()
    full = z3.Full(z3.ReSort(z3.StringSort()))
    contains_ref = z3.Concat(full, R, full)
    found = z3.Function('ref.found', z3.StringSort(), z3.BoolSort())(t)
    start = z3.Function('ref.start', z3.StringSort(), z3.IntSort())(t)
    end = z3.Function('ref.end', z3.StringSort(), z3.IntSort())(t)
    key = ('@ref-search', t.get_id())
    if key not in st.ghost:
        st.ghost[key] = t
        st.assume(found == z3.InRe(t, contains_ref))
        st.assume(z3.And(0 <= start, start <= end, end <= z3.Length(t)))
        st.assume(z3.Implies(found, start + 4 <= end))
        pre, mid, post = strings.decompose(interp, s, [start, z3.simplify(end - start), None], 'ref')
        st.assume(z3.Implies(found, z3.And(z3.InRe(mid, R), z3.Not(z3.InRe(pre, contains_ref)))))
    return SOpt(z3.Not(found), _Match(wrap(start), wrap(end)))


M.model(env_impl._ENV_VAR_REFERENCE.search, _search_model)
M.trust('re.Pattern.search for the pattern of ${NAME} references: leftmost match, characterised in SMT regular '
        'expression terms (contracts.C11_settings._search_model; compared with CPython by check `search-model`)')


@M.check('search-model')
def _check_search_model(ctx):
    """The pattern object is the documented one, and the characterisation used by the model agrees with CPython's
    re.search on every string over a 6-letter alphabet up to length 7."""
    import itertools
    pat = env_impl._ENV_VAR_REFERENCE
    ctx.obligation('_ENV_VAR_REFERENCE is the pattern of ${NAME} references',
                   pat.pattern in (r'\${[a-zA-Z0-9_]+}', REFERENCE_PATTERN) and pat.flags == re.compile('x').flags,
                   'enumeration', detail={'pattern': pat.pattern, 'flags': pat.flags})
    ref = re.compile(REFERENCE_PATTERN)
    bad = None
    n = 0
    for k in range(0, 8):
        for tup in itertools.product('${}a_-', repeat=k):
            s = ''.join(tup)
            n += 1
            m = pat.search(s)
            # the characterisation: exists a split pre.m.post with m a full match and no match inside pre
            cands = [(i, j) for i in range(len(s) + 1) for j in range(i, len(s) + 1)
                     if ref.fullmatch(s[i:j]) and not ref.search(s[:i])]
            if (m is None) != (not cands) or (m is not None and cands != [(m.start(), m.end())]):
                bad = s
                break
        if bad is not None:
            break
    ctx.obligation('leftmost-match characterisation == re.search on all strings over "${}a_-" up to length 7',
                   bad is None, 'enumeration', detail={'strings': n, 'first_difference': bad})


@recursive_str
def expand(value, env):
    """Reference semantics of ${NAME} expansion: scan left to right; the leftmost reference is replaced by the
    value of NAME in env ('' if unset); the text before it is copied; expansion continues after it (replaced
    text is not rescanned)."""
    m = env_impl._ENV_VAR_REFERENCE.search(value)
    if not m:
        return value
    return value[:m.start()] + env.get(value[m.start() + 2:m.end() - 1], '') + expand(value[m.end():], env)


def _same_match(match, searched):
    return iff(not match, not searched) and ((not match) or (match.start() == searched.start()
                                                             and match.end() == searched.end()))


M.contract(P_ENV + ':_expand_vars', params=dict(value=Str, environ=ENVIRON), returns=Str,
           ensures={'is the expansion of the value against the given set': lambda value, environ, result:
           result == expand(value, environ)},
           raises_only=())

_MATCH = Custom(lambda interp, name: SOpt(interp.st.fresh_bool(name + '.is_none'),
                                          _Match(SInt(interp.st.fresh_int(name + '.start')),
                                                 SInt(interp.st.fresh_int(name + '.end')))))

M.loop(P_ENV + ':_expand_vars', 0,
       invariant=lambda processed, remaining, match, value, environ:
       _same_match(match, env_impl._ENV_VAR_REFERENCE.search(remaining))
       and processed + expand(remaining, environ) == expand(value, environ),
       modifies=dict(processed=Str, remaining=Str, match=_MATCH),
       decreases=lambda remaining: len(remaining))


# ------------------------------------------------------------------------------ the two modifiers

M.contract(P_ENV + ':ModifierOfSet.modify',
           params=dict(self=Inst(env_impl.ModifierOfSet, _name=Str, _value=Str), environ=ENVIRON),
           modifies=('environ',), old=lambda environ: dict(environ),
           ensures={'env[name -> expand(value, env before the change)], other variables unchanged':
                    lambda self, environ, old: environ == _with(old, self._name, expand(self._value, old))},
           raises_only=())

M.contract(P_ENV + ':ModifierUnset.modify',
           params=dict(self=Inst(env_impl.ModifierUnset, name=Str), environ=ENVIRON),
           modifies=('environ',), old=lambda environ: dict(environ),
           ensures={'variable removed if present, other variables unchanged; never an error':
                    lambda self, environ, old: environ == _without(old, self.name)},
           raises_only=())


# ------------------------------------------------------------------------------ environment of the appliers

from exactly_lib.test_case.phases.instruction_settings import InstructionSettings
from exactly_lib.test_case.phases.setup.settings_builder import SetupSettingsBuilder
from exactly_lib.test_case.phases.instruction_environment import InstructionEnvironmentForPostSdsStep
from exactly_lib.util.process_execution.execution_elements import ProcessExecutionSettings


def _default_environ(interp, self, args, kwargs):
    """DefaultEnvironGetter: gives a new dict on every call (cli_default: dict(os.environ)).  The ghost event
    records a snapshot of its contents."""
    d = ENVIRON.make(interp, 'default-environ')
    interp.st.emit('default-environ', d.copy(interp))
    return d


class DefaultEnvironGetterI(Interface):
    methods = {'__call__': Method(model=_default_environ)}


class ContentsI(Interface):
    attrs = {'as_str': Str}


class StringSourceI(Interface):
    methods = {'contents': Method(returns=Iface(ContentsI), event='contents')}


class StringSourceAdvI(Interface):
    """the value of `env NAME = VALUE`: evaluated in an application environment (it may run a program)"""
    methods = {'primitive': Method(returns=Iface(StringSourceI), event='value-source')}


class TmpFileStorageI(Interface):
    attrs = {'paths_access': Any_}


class InstructionEnvironmentI(Interface):
    target_class = InstructionEnvironmentForPostSdsStep
    attrs = {'proc_exe_settings': Inst(ProcessExecutionSettings, _tuple=[Opt(Int), Any_]),
             'tmp_dir__path_access': Iface(TmpFileStorageI), 'mem_buff_size': Int, 'symbols': Any_, 'tcds': Any_}


SETTINGS = Inst(InstructionSettings, _environ=Opt(ENVIRON), _default_environ_getter=Iface(DefaultEnvironGetterI),
                _timeout_in_seconds=Opt(Int))
SETUP_SETTINGS = Inst(SetupSettingsBuilder, _stdin=Any_, _environ=Opt(ENVIRON))
APP_ENV_CONSTRUCTOR = Inst(env_impl._AppEnvConstructor, _environment=Iface(InstructionEnvironmentI), _os_services=Any_)

ADV_SET = Inst(env_impl.ModifierAdvForSet, _name=Str, _value=Iface(StringSourceAdvI))
ADV_UNSET = Inst(env_impl.ModifierAdvForUnset, _name=Str)
ADV = Union(ADV_SET, ADV_UNSET)          # closed world: the two modifier kinds of environ/impl.py (check `modifier-kinds`)


@M.check('modifier-kinds')
def _modifier_kinds(ctx):
    kinds = {k.__name__ for k in env_impl.Modifier.__subclasses__()}
    ctx.obligation('the modifiers are ModifierOfSet and ModifierUnset', kinds == {'ModifierOfSet', 'ModifierUnset'},
                   'enumeration', detail={'subclasses': sorted(kinds)})
    sdvs = {k.__name__ for k in env_impl.ModifierSdv.__subclasses__()}
    ctx.obligation('the modifier SDVs are ModifierSdvOfSet and ModifierSdvOfUnset',
                   sdvs == {'ModifierSdvOfSet', 'ModifierSdvOfUnset'}, 'enumeration', detail={'subclasses': sorted(sdvs)})


M.contract(P_ENV + ':ModifierAdvForSet.primitive', params=dict(self=ADV_SET, environment=Any_), inline=True,
           ensures={'sets the name to the contents of the value, read in the given application environment':
                    lambda self, environment, result, trace:
                    isinstance(result, env_impl.ModifierOfSet) and result._name == self._name
                    and result._value == values_read(trace)[0] and value_sources(trace) == [environment]},
           raises_only=())
M.contract(P_ENV + ':ModifierAdvForUnset.primitive', params=dict(self=ADV_UNSET, environment=Any_), inline=True,
           ensures={'unsets the name': lambda self, result:
           isinstance(result, env_impl.ModifierUnset) and result.name == self._name},
           raises_only=())


def values_read(trace):
    """the value strings read (contents of the value string sources), in order"""
    return [e[2].as_str for e in trace if e[0] == 'contents:returned']


def value_sources(trace):
    """the application environments the value string sources were evaluated in, in order"""
    return [e[2][0] for e in trace if e[0] == 'value-source']


def defaults_taken(trace):
    """snapshots of the default environments obtained from the default-environ getter, in order"""
    return [e[1] for e in trace if e[0] == 'default-environ']


def effect(adv, value, env):
    """the transition of one environment: set NAME to the expanded value / unset NAME"""
    if isinstance(adv, env_impl.ModifierAdvForSet):
        return _with(env, adv._name, expand(value, env))
    return _without(env, adv._name)


def _is_set(adv):
    return isinstance(adv, env_impl.ModifierAdvForSet)


# ------------------------------------------------------------------------------ appliers: which set, populate-if-unset

def _snapshot(optional_environ):
    return None if optional_environ is None else dict(optional_environ)


def _applied(adv, before, now, trace, k_value=0, k_default=0):
    """`now` is `before` (or, if that was None, the default environment just taken) after the transition;
    a set-value was read in an application environment holding the set as it was before the change"""
    e0 = defaults_taken(trace)[k_default] if before is None else before
    v = values_read(trace)[k_value] if _is_set(adv) else ''
    return now is not None and now == effect(adv, v, e0)


M.contract(P_ENV + ':ModifierApplierForNonSetupPhase.apply',
           params=dict(self=Inst(env_impl.ModifierApplierForNonSetupPhase, _instruction_settings=SETTINGS,
                                 _app_env_constructor=APP_ENV_CONSTRUCTOR), modifier=ADV),
           inline=True, modifies=('self._instruction_settings',),
           old=lambda self: (_snapshot(self._instruction_settings.environ()), self._instruction_settings.environ(),
                             self._instruction_settings.timeout_in_seconds()),
           ensures={
               'the non-act set: populated from the default if unset, then modified': lambda self, modifier, old, trace:
               _applied(modifier, old[0], self._instruction_settings.environ(), trace)
               and len(defaults_taken(trace)) == (1 if old[0] is None else 0),
               'value evaluated with the non-act set as it was before the change': lambda self, modifier, old, trace:
               (not _is_set(modifier)) or
               (len(value_sources(trace)) == 1
                and value_sources(trace)[0].process_execution_settings.environ is old[1]),
               'timeout untouched': lambda self, old: self._instruction_settings.timeout_in_seconds() == old[2],
           }, raises_only=())

M.contract(P_ENV + ':ModifierApplierForSetupPhase.apply',
           params=dict(self=Inst(env_impl.ModifierApplierForSetupPhase, _instruction_settings=SETTINGS,
                                 _app_env_constructor=APP_ENV_CONSTRUCTOR, _setup_phase_settings=SETUP_SETTINGS),
                       modifier=ADV),
           inline=True, modifies=('self._setup_phase_settings',),
           old=lambda self: (_snapshot(self._setup_phase_settings.environ), self._setup_phase_settings.environ,
                             self._instruction_settings.environ()),
           ensures={
               'the act set: populated from the default if unset, then modified': lambda self, modifier, old, trace:
               _applied(modifier, old[0], self._setup_phase_settings.environ, trace)
               and len(defaults_taken(trace)) == (1 if old[0] is None else 0),
               'value evaluated with the act set as it was before the change': lambda self, modifier, old, trace:
               (not _is_set(modifier)) or
               (len(value_sources(trace)) == 1
                and value_sources(trace)[0].process_execution_settings.environ is old[1]),
               'the non-act set is the same object (its contents: frame obligation)': lambda self, old:
               self._instruction_settings.environ() is old[2],
           }, raises_only=())


# ------------------------------------------------------------------------------ the env instruction: main

ACT, NON_ACT = env_impl.Phase.ACT, env_impl.Phase.NON_ACT
PHASE_SETS = OneOf(frozenset((ACT,)), frozenset((NON_ACT,)), frozenset((ACT, NON_ACT)), frozenset())


class ModifierDdvI(Interface):
    target_class = env_impl.ModifierDdv
    methods = {'resolve': Method(returns=ADV, event='adv')}


class ModifierSdvI(Interface):
    target_class = env_impl.ModifierSdv
    methods = {'resolve': Method(returns=Iface(ModifierDdvI))}


EMBRYO = Inst(env_impl.TheInstructionEmbryo, _phases=PHASE_SETS, _modifier=Iface(ModifierSdvI))


def the_modifier(trace):
    """the resolved modifier (application-environment dependent value) of this execution of main"""
    return [e[2] for e in trace if e[0] == 'adv:returned'][0]


def _untouched(now, old_object, old_snapshot):
    return now is old_object and (now is None or now == old_snapshot)


def _main_old(settings, setup_phase_settings):
    return (_snapshot(settings.environ()), settings.environ(), settings.timeout_in_seconds(),
            None if setup_phase_settings is None else _snapshot(setup_phase_settings.environ),
            None if setup_phase_settings is None else setup_phase_settings.environ)


def _act_is_changed(self, setup_phase_settings):
    """the act set is changed by `env` only in the setup phase (the only phase before act) and unless -of !act"""
    return setup_phase_settings is not None and ACT in self._phases


def _non_act_is_changed(self):
    return NON_ACT in self._phases


M.contract(P_ENV + ':TheInstructionEmbryo.main',
           params=dict(self=EMBRYO, environment=Iface(InstructionEnvironmentI), settings=SETTINGS,
                       setup_phase_settings=Opt(SETUP_SETTINGS), os_services=Any_),
           modifies=('settings', 'setup_phase_settings'),
           old=lambda settings, setup_phase_settings: _main_old(settings, setup_phase_settings),
           ensures={
               'act set: changed (against itself) in setup unless -of !act; otherwise untouched':
                   lambda self, setup_phase_settings, old, trace:
                   setup_phase_settings is None or (
                       _applied(the_modifier(trace), old[3], setup_phase_settings.environ, trace, 0, 0)
                       if _act_is_changed(self, setup_phase_settings) else
                       _untouched(setup_phase_settings.environ, old[4], old[3])),
               'non-act set: changed (against itself) unless -of act; otherwise untouched':
                   lambda self, settings, setup_phase_settings, old, trace:
                   (_applied(the_modifier(trace), old[0], settings.environ(), trace,
                             1 if (_act_is_changed(self, setup_phase_settings) and _is_set(the_modifier(trace))) else 0,
                             1 if (_act_is_changed(self, setup_phase_settings) and old[3] is None) else 0)
                    if _non_act_is_changed(self) else _untouched(settings.environ(), old[1], old[0])),
               'each value is evaluated with the set it goes into, as that set was before the change':
                   lambda self, setup_phase_settings, old, trace:
                   [s.process_execution_settings.environ for s in value_sources(trace)] ==
                   (([old[4]] if _act_is_changed(self, setup_phase_settings) else [])
                    + ([old[1]] if _non_act_is_changed(self) else []) if _is_set(the_modifier(trace)) else []),
               'timeout untouched': lambda settings, old: settings.timeout_in_seconds() == old[2],
           }, raises_only=())

M.contract(P_ENV + ':TheInstructionEmbryo._resolve_applier_factory',
           params=dict(instruction_settings=SETTINGS, app_env_constructor=APP_ENV_CONSTRUCTOR,
                       setup_phase_settings=Opt(SETUP_SETTINGS)), inline=True,
           ensures={'setup phase (settings builder given): appliers for both sets; otherwise only for the non-act set':
                    lambda instruction_settings, setup_phase_settings, result:
                    (type(result) is env_impl._ApplierFactoryWSupportForNonSetupPhase
                     if setup_phase_settings is None else
                     (type(result) is env_impl._ApplierFactoryWSupportForSetupAndNonSetupPhases
                      and result._setup_phase_settings is setup_phase_settings))
                    and result.instruction_settings is instruction_settings},
           raises_only=())


# ------------------------------------------------------------------------------ which sets: -of act / -of !act / neither

from exactly_lib.impls.instructions.multi_phase.environ import parse as env_parse, defs as env_defs
from exactly_lib.section_document.element_parsers.instruction_parser_exceptions import \
    SingleInstructionInvalidArgumentException
from exactly_lib.section_document.element_parsers.token_stream_parser import TokenParser

P_PARSE = 'exactly_lib.impls.instructions.multi_phase.environ.parse'


def _optional_option(interp, self, args, kwargs):
    """TokenParser.consume_and_handle_optional_option(default, argument_parser, option_name) (token level: C09):
    the head token is the option -> it is consumed and argument_parser(self) decides; otherwise the default."""
    default, argument_parser, option_name = args
    present = interp.st.choose(2)
    interp.st.emit('option', option_name, bool(present))
    if present:
        return interp.call(argument_parser, [self], {})
    return default


def _constant(interp, self, args, kwargs):
    """TokenParser.consume_mandatory_constant_string_that_must_be_unquoted_and_equal(constants, mapper, header):
    the head token is one of the constants -> mapper(constant); anything else is a syntax error."""
    constants, mapper = args[0], args[1]
    k = interp.st.choose(len(constants) + 1)
    if k == len(constants):
        raise __import__('pyvc.interp', fromlist=['PyRaise']).PyRaise(SingleInstructionInvalidArgumentException('x'))
    interp.st.emit('constant', constants[k])
    return interp.call(mapper, [constants[k]], {})


class TokenParserI(Interface):
    target_class = TokenParser
    methods = {'consume_and_handle_optional_option': Method(model=_optional_option),
               'consume_mandatory_constant_string_that_must_be_unquoted_and_equal': Method(model=_constant)}


def _documented_sets(trace):
    """-of act: the act set; -of !act: the non-act set; no option: both"""
    opt = [e for e in trace if e[0] == 'option'][0]
    if not opt[2]:
        return frozenset((ACT, NON_ACT))
    c = [e for e in trace if e[0] == 'constant'][0][1]
    return {'act': frozenset((ACT,)), '!act': frozenset((NON_ACT,))}[c]


M.contract(P_PARSE + ':EmbryoParser._parse_phases', params=dict(token_parser=Iface(TokenParserI)),
           may_raise=(SingleInstructionInvalidArgumentException,),
           ensures={'-of act / -of !act / neither': lambda result, trace:
           result == _documented_sets(trace) and [e for e in trace if e[0] == 'option'][0][1].long == 'of'},
           raises_only=())


# ------------------------------------------------------------------------------ the settings objects

P_IS = 'exactly_lib.test_case.phases.instruction_settings'
P_SSB = 'exactly_lib.test_case.phases.setup.settings_builder'

M.contract(P_IS + ':InstructionSettings.set_timeout', params=dict(self=SETTINGS, seconds=Opt(Int)), inline=True,
           modifies=('self',), old=lambda self: self.environ(),
           ensures={'timeout set, environ untouched': lambda self, seconds, old:
           self.timeout_in_seconds() == seconds and self.environ() is old}, raises_only=())
M.contract(P_IS + ':InstructionSettings.set_environ', params=dict(self=SETTINGS, x=Opt(ENVIRON)), inline=True,
           modifies=('self',), old=lambda self: self.timeout_in_seconds(),
           ensures={'environ set, timeout untouched': lambda self, x, old:
           self.environ() is x and self.timeout_in_seconds() == old}, raises_only=())
M.contract(P_IS + ':InstructionSettings.__init__',
           params=dict(self=Inst(InstructionSettings), environ=Opt(ENVIRON),
                       default_environ_getter=Iface(DefaultEnvironGetterI), timeout_in_seconds=Opt(Int)), inline=True,
           ensures={'holds what it is given': lambda self, environ, default_environ_getter, timeout_in_seconds:
           self.environ() is environ and self.default_environ_getter is default_environ_getter
           and self.timeout_in_seconds() == timeout_in_seconds}, raises_only=())
M.contract(P_SSB + ':SetupSettingsBuilder.environ', params=dict(self=SETUP_SETTINGS), inline=True,
           ensures={'the act set': lambda self, result: result is self._environ}, raises_only=())


# ------------------------------------------------------------------------------ timeout

from exactly_lib.impls.instructions.multi_phase.timeout import impl as timeout_impl


class IntegerDdvI(Interface):
    methods = {'value_of_any_dependency': Method(returns=Int, event='timeout-value')}


class IntegerSdvI(Interface):
    methods = {'resolve': Method(returns=Iface(IntegerDdvI))}


M.contract('exactly_lib.impls.instructions.multi_phase.timeout.impl:TheInstructionEmbryo.main',
           params=dict(self=Inst(timeout_impl.TheInstructionEmbryo, _value=Opt(Iface(IntegerSdvI))),
                       environment=Iface(InstructionEnvironmentI), settings=SETTINGS, os_services=Any_),
           modifies=('settings',), old=lambda settings: (settings.environ(), _snapshot(settings.environ())),
           ensures={
               'timeout := the resolved value; `none` => no timeout': lambda self, settings, trace:
               settings.timeout_in_seconds() == (None if self._value is None else
                                                 [e[2] for e in trace if e[0] == 'timeout-value:returned'][0]),
               'environment untouched': lambda settings, old: _untouched(settings.environ(), old[0], old[1]),
           }, raises_only=())


# ------------------------------------------------------------------------------ cd

import os
from exactly_lib.impls.instructions.multi_phase import change_dir


# os.chdir / os.getcwd: the ghost file system of the engine (pyvc/fsmodel.py): chdir(p) sets the current directory
# (ghost `cwd`, event ('chdir', p)) or raises FileNotFoundError / NotADirectoryError and leaves it unchanged.
M.trust('os.chdir(p) sets the current directory of this process to p, or raises OSError and leaves it unchanged '
        '(pyvc/fsmodel.py)')
M.assume('a child process has its own current directory: nothing a child does changes the cwd of Exactly '
         '(operating system semantics); the cwd of Exactly changes only through os.chdir (check `chdir-call-sites`)')


class PrimitivePathI(Interface):
    methods = {'__str__': Method(returns=Str, pure=True)}


class DescribedPathI(Interface):
    attrs = {'primitive': Iface(PrimitivePathI), 'describer': Any_}


class PathDdvI(Interface):
    methods = {'value_post_sds__d': Method(returns=Iface(DescribedPathI), event='path')}


class PathSdvI(Interface):
    methods = {'resolve': Method(returns=Iface(PathDdvI))}


class PathResolvingEnvI(Interface):
    attrs = {'symbols': Any_, 'sds': Any_}


M.contract('exactly_lib.impls.types.path.path_err_msgs:line_header__primitive', trusted=True,
           params=dict(header=Str, path=Any_), returns=Any_)
M.trust('impls.types.path.path_err_msgs.line_header__primitive only builds an error message (never None)')


def _resolved_dir(trace):
    return str([e[2] for e in trace if e[0] == 'path:returned'][0].primitive)


M.contract('exactly_lib.impls.instructions.multi_phase.change_dir:InstructionEmbryo.custom_main',
           params=dict(self=Inst(change_dir.InstructionEmbryo, destination=Iface(PathSdvI)),
                       environment=Iface(PathResolvingEnvI)),
           old=lambda: os.getcwd(),
           ensures={
               'success: the current directory is the resolved destination': lambda result, trace:
               implies(result is None, os.getcwd() == _resolved_dir(trace)
                       and [e[1] for e in trace if e[0] == 'chdir'] == [_resolved_dir(trace)]),
               'error message: the current directory is unchanged': lambda result, trace, old:
               implies(result is not None, os.getcwd() == old and [e for e in trace if e[0] == 'chdir'] == []),
           }, raises_only=())


# The DIR argument of `cd`: a path without relativity option is relative to the CURRENT directory -- the
# directory an earlier `cd` has put in force ("takes effect for every later instruction"; -rel-cd itself is
# resolved at the time of use: C12) --, and only directories inside the sandbox have an option.
from exactly_lib.tcfs.path_relativity import RelOptionType

M.contract('exactly_lib.impls.instructions.multi_phase.change_dir:relativity_options',
           params=dict(is_after_act_phase=Bool),
           ensures={
               'a DIR without option is relative to the current directory (the one the last cd put in force)':
                   lambda result: result.options.default_option is RelOptionType.REL_CWD,
               'options: act, tmp, cd -- and result once it exists': lambda is_after_act_phase, result:
               set(result.options.accepted_relativity_variants.rel_option_types)
               == ({RelOptionType.REL_ACT, RelOptionType.REL_TMP, RelOptionType.REL_CWD, RelOptionType.REL_RESULT}
                   if is_after_act_phase else {RelOptionType.REL_ACT, RelOptionType.REL_TMP, RelOptionType.REL_CWD}),
           }, raises_only=())


@M.check('cd-argument')
def _cd_argument(ctx):
    """the configuration the REAL parser objects of `cd` hold (read from the imported tree), and that the embryo
    parses DIR with exactly that parser"""
    import ast, inspect
    for after in (False, True):
        conf = change_dir.EmbryoParser(after)._path_parser._conf
        ctx.obligation('cd (%s act): DIR without option is relative to the current directory'
                       % ('after' if after else 'before'),
                       conf.options.default_option is RelOptionType.REL_CWD, 'enumeration',
                       detail={'default': conf.options.default_option.name})
    tree = ast.parse(inspect.getsource(change_dir.EmbryoParser))
    calls = [n for n in ast.walk(tree) if isinstance(n, ast.Call) and isinstance(n.func, ast.Attribute)
             and n.func.attr == 'parse_from_token_parser']
    ctx.obligation('cd parses DIR with its PathParser on relativity_options(is_after_act_phase)',
                   len(calls) == 1 and 'relativity_options(is_after_act_phase)' in inspect.getsource(change_dir.EmbryoParser),
                   'scan')


@M.check('chdir-call-sites')
def _chdir_call_sites(ctx):
    """Frame: the current directory of Exactly is changed by exactly three call sites."""
    import ast, pathlib
    import exactly_lib
    root = pathlib.Path(exactly_lib.__file__).parent
    sites = []
    for f in sorted(root.rglob('*.py')):
        src = f.read_text()
        if 'chdir' not in src:
            continue
        for n in ast.walk(ast.parse(src)):
            if isinstance(n, ast.Attribute) and n.attr in ('chdir', 'fchdir'):
                sites.append('%s:%d' % (f.relative_to(root), n.lineno))
            elif isinstance(n, ast.Name) and n.id in ('chdir', 'fchdir'):
                sites.append('%s:%d' % (f.relative_to(root), n.lineno))
    files = sorted({s.rpartition(':')[0] for s in sites})
    ctx.obligation('os.chdir is referenced only by: the cd instruction, the executor (cd to act dir when the sandbox '
                   'is set up), preserved_cwd (restores the cwd after the execution)',
                   files == ['execution/partial_execution/impl/executor.py',
                             'impls/instructions/multi_phase/change_dir.py', 'util/file_utils/misc_utils.py']
                   and len(sites) == 3, 'enumeration', detail={'sites': sites})


# ------------------------------------------------------------------------------ every instruction sees the current settings
# _PartialExecutor: ONE InstructionSettings object and ONE setup settings builder live through the whole
# execution; the environment handed to an instruction is computed when the instruction is about to run.

import types as _types

from exactly_lib.execution.partial_execution.impl import executor as pexe
from exactly_lib.execution.partial_execution.configuration import ConfPhaseValues
from exactly_lib.execution.partial_execution.setup_settings_handler import (StandardSetupSettingsHandler,
                                                                           AtcExecutionInputAdv)
from exactly_lib.execution.impl import phase_step_executors as pse
from exactly_lib.test_case import phase_identifier
from exactly_lib.test_case.phases.act.execution_input import AtcExecutionInput
from exactly_lib.impls.actors.util import atc_proc_exe_settings

P_EXE = 'exactly_lib.execution.partial_execution.impl.executor'
P_SSH = 'exactly_lib.execution.partial_execution.setup_settings_handler'


class TmpSpaceFactoryI(Interface):
    methods = {'instruction__main': Method(returns=Any_, event='tmp-space'),
               'instruction__validation': Method(returns=Any_),
               'for_phase__main': Method(returns=Any_), 'for_phase__validation': Method(returns=Any_)}


class ExeConfI(Interface):
    """ExecutionConfiguration (a tuple with read-only properties)"""
    attrs = {'mem_buff_size': Int, 'environ': Opt(ENVIRON), 'timeout_in_seconds': Opt(Int),
             'default_environ_getter': Iface(DefaultEnvironGetterI), 'os_services': Any_,
             'predefined_symbols': Any_, 'exe_atc_and_skip_assertions': Any_}


class PreSdsEnvironmentI(Interface):
    attrs = {'symbols': Any_}


def _mk_executor(interp, name):
    ex = object.__new__(pexe._PartialExecutor)
    ex._instruction_settings = SETTINGS.make(interp, name + '._instruction_settings')
    ex._setup_settings_handler = Inst(StandardSetupSettingsHandler, _builder=SETUP_SETTINGS) \
        .make(interp, name + '._setup_settings_handler')
    ex.conf_values = Inst(ConfPhaseValues, _tuple=[Any_, Any_]).make(interp, name + '.conf_values')
    ex.exe_conf = Iface(ExeConfI).make(interp, name + '.exe_conf')
    ex._PartialExecutor__sandbox_directory_structure = Any_.make(interp, name + '.sds')
    ex._PartialExecutor__post_sds_symbol_table = Any_.make(interp, name + '.post_sds_symbol_table')
    ex._phase_tmp_space_factory = Iface(TmpSpaceFactoryI).make(interp, name + '._phase_tmp_space_factory')
    ex._action_to_check = Any_.make(interp, name + '._action_to_check')
    ex._os_services = Any_.make(interp, name + '._os_services')
    ex._instruction_environment_pre_sds = Iface(PreSdsEnvironmentI).make(interp, name + '.env_pre_sds')
    return ex


EXECUTOR = Custom(_mk_executor)


def _is_current_view(proc_exe_settings, settings):
    """(timeout, environ) == the settings now; the environ is a read-only view of the non-act set (None if unset)"""
    e = proc_exe_settings.environ
    return proc_exe_settings.timeout_in_seconds == settings.timeout_in_seconds() \
        and (e is None if settings.environ() is None
             else (e is not None and isinstance(e, _types.MappingProxyType) and e == settings.environ()))


from pyvc import models as _engine_models

# MappingProxyType over a symbolic map: the engine's live read-only view (this module's functions see this model)
M.model(_types.MappingProxyType, _engine_models.m_mappingproxy)

M.contract(P_EXE + ':_PartialExecutor._env_vars__read_only', params=dict(self=EXECUTOR), inline=True,
           ensures={'a read-only view of the current non-act set': lambda self, result:
           (result is None if self._instruction_settings.environ() is None else
            (result is not None and isinstance(result, _types.MappingProxyType)
             and result == self._instruction_settings.environ()))},
           raises_only=())

M.contract(P_EXE + ':_PartialExecutor._post_sds_environment',
           params=dict(self=EXECUTOR, tmp_file_storage=Any_, symbols=Any_), inline=True,
           ensures={
               'process settings = the timeout and non-act set in force at the call': lambda self, result:
               _is_current_view(result.proc_exe_settings, self._instruction_settings),
               'the given symbol table and tmp space': lambda self, tmp_file_storage, symbols, result:
               result.symbols is symbols and result.tmp_dir__path_access is tmp_file_storage,
           }, raises_only=())


def two_instructions(executor, phase, seconds, name, value):
    """Harness: the environments of two consecutive instructions of a phase, the first of which changes the
    timeout and an environment variable (through the shared InstructionSettings, as `timeout` / `env` do)."""
    environments = executor._post_sds_main_environments(phase)
    first = next(environments)
    seen_by_first = (first.proc_exe_settings.timeout_in_seconds,
                     None if first.proc_exe_settings.environ is None else dict(first.proc_exe_settings.environ))
    settings = executor._instruction_settings
    settings.set_timeout(seconds)
    if settings.environ() is None:
        settings.set_environ(settings.default_environ_getter())
    settings.environ()[name] = value
    second = next(environments)
    return seen_by_first, second


M.contract('contracts.C11_settings:two_instructions',
           params=dict(executor=EXECUTOR, phase=Any_, seconds=Opt(Int), name=Str, value=Str),
           modifies=('executor._instruction_settings',),
           old=lambda executor: (executor._instruction_settings.timeout_in_seconds(),
                                 _snapshot(executor._instruction_settings.environ())),
           ensures={
               'the first instruction saw the settings before its own change (no effect backwards)':
                   lambda result, old: result[0][0] == old[0] and (result[0][1] is None if old[1] is None
                                                                   else result[0][1] == old[1]),
               'the next instruction sees the changed timeout and environment (effect forwards)':
                   lambda seconds, name, value, result:
                   result[1].proc_exe_settings.timeout_in_seconds == seconds
                   and result[1].proc_exe_settings.environ is not None
                   and result[1].proc_exe_settings.environ[name] == value,
               'both get the execution-time symbol table; tmp spaces numbered 1, 2': lambda executor, result, trace:
               result[1].symbols is executor._PartialExecutor__post_sds_symbol_table
               and [e[2][1] for e in trace if e[0] == 'tmp-space'] == [1, 2],
           }, raises_only=())


# --- which symbol table a step sees (C08: "visible to exactly the instructions that follow its definition in execution
# order" and, in an accepted case, "each reference evaluates to the defined value")
# Two tables: the VALIDATION-time table -- filled by the validation of the symbol usages of all five phases, it holds
# every symbol of an accepted case -- is what the validate-post-setup steps resolve against (an instruction of
# [assert] may refer to a symbol that [before-assert] defines: it is validated before that definition executes);
# the EXECUTION-time table starts as a copy of the predefined symbols and grows as definitions execute: it is what
# the main steps see.  (After the seeded change C08-s4, which gave the execution-time table to the validation steps.)

def validation_and_main_environment(executor, phase):
    """Harness: the environment of the first validate-post-setup step and of the first main step of a phase"""
    return next(executor._post_setup_validation_environments(phase)), next(executor._post_sds_main_environments(phase))


M.contract('contracts.C11_settings:validation_and_main_environment', props=('C08',),
           params=dict(executor=EXECUTOR, phase=Any_),
           ensures={
               'validation after setup resolves against the validation-time table (every symbol of the case)':
                   lambda executor, result: result[0].symbols is executor._instruction_environment_pre_sds.symbols,
               'main steps see the execution-time table (what has been defined so far)':
                   lambda executor, result: result[1].symbols is executor._PartialExecutor__post_sds_symbol_table,
           }, raises_only=())


# --- the main-step executors: next() immediately before main, the shared settings objects as arguments

class EnvironmentsI(Interface):
    methods = {'__next__': Method(returns=Iface(InstructionEnvironmentI), event='next-environment')}


class MainResultI(Interface):
    attrs = {'is_success': Bool, 'failure_message': Any_, 'status': Any_}


class InstructionI(Interface):
    methods = {'main': Method(returns=Iface(MainResultI), event='main')}


from exactly_lib.test_case.result import pfh


class AssertResultI(Interface):
    attrs = {'status': EnumOf(pfh.PassOrFailOrHardErrorEnum), 'failure_message': Any_}


class AssertInstructionI(Interface):
    methods = {'main': Method(returns=Iface(AssertResultI), event='main')}


def _main_got_current(self, trace, settings_position, extra=()):
    """one environment was taken, and main then got exactly it, the shared settings (and builder)"""
    nexts = [(i, e) for i, e in enumerate(trace) if e[0] == 'next-environment:returned']
    mains = [(i, e) for i, e in enumerate(trace) if e[0] == 'main']
    ok = len(nexts) == 1 and len(mains) == 1 and nexts[0][0] < mains[0][0]
    args = mains[0][1][2]
    ok = ok and args[0] is nexts[0][1][2] and args[settings_position] is self._instruction_settings
    for (pos, obj) in extra:
        ok = ok and args[pos] is obj
    return ok


M.contract('exactly_lib.execution.impl.phase_step_executors:SetupMainExecutor.apply',
           params=dict(self=Inst(pse.SetupMainExecutor, _instruction_settings=SETTINGS, _os_services=Any_,
                                 _instruction_environments=Iface(EnvironmentsI), _settings_builder=SETUP_SETTINGS),
                       instruction=Iface(InstructionI)),
           ensures={'main gets the environment computed just before it, the shared settings and the builder':
                    lambda self, trace: _main_got_current(self, trace, 1, ((3, self._settings_builder),))},
           raises_only=())

for _cls, _instr in (('BeforeAssertMainExecutor', InstructionI), ('AssertMainExecutor', AssertInstructionI)):
    M.contract('exactly_lib.execution.impl.phase_step_executors:%s.apply' % _cls,
               params=dict(self=Inst(getattr(pse, _cls), _instruction_settings=SETTINGS, _os_services=Any_,
                                     _instruction_environments=Iface(EnvironmentsI)),
                           instruction=Iface(_instr)),
               ensures={'main gets the environment computed just before it and the shared settings':
                        lambda self, trace: _main_got_current(self, trace, 1)},
               raises_only=())

M.contract('exactly_lib.execution.impl.phase_step_executors:CleanupMainExecutor.apply',
           params=dict(self=Inst(pse.CleanupMainExecutor, _instruction_settings=SETTINGS, _os_services=Any_,
                                 _instruction_environments=Iface(EnvironmentsI), _previous_phase=Any_),
                       instruction=Iface(InstructionI)),
           ensures={'main gets the environment computed just before it and the shared settings':
                    lambda self, trace: _main_got_current(self, trace, 1)},
           raises_only=())


# --- the act phase gets the act set and the current timeout

M.contract(P_SSH + ':StandardSetupSettingsHandler.as_atc_execution_input',
           params=dict(self=Inst(StandardSetupSettingsHandler, _builder=SETUP_SETTINGS)), inline=True,
           ensures={'the act set (the dict itself, as it is now)': lambda self, result:
           result.environ is self._builder.environ}, raises_only=())

M.contract(P_SSH + ':AtcExecutionInputAdv.resolve',
           params=dict(self=Inst(AtcExecutionInputAdv, _stdin=Const(None), _environ=Opt(ENVIRON)), environment=Any_),
           inline=True,
           ensures={'the act set': lambda self, result: result.environ is self._environ}, raises_only=())

M.contract('exactly_lib.impls.actors.util.atc_proc_exe_settings:for_atc',
           params=dict(environment=Iface(InstructionEnvironmentI),
                       execution_input=Inst(AtcExecutionInput, _tuple=[Any_, Opt(ENVIRON)])),
           inline=True,
           ensures={'the act process gets (timeout of its environment, the act set)':
                    lambda environment, execution_input, result:
                    result.timeout_in_seconds == environment.proc_exe_settings.timeout_in_seconds
                    and result.environ is execution_input.environ},
           raises_only=())


# --- both sets start as the environment Exactly was started with; they are independent copies

from exactly_lib.execution.partial_execution.impl.act_helper import ActHelper
from exactly_lib.execution import predefined_properties

M.contract('exactly_lib.execution.partial_execution.impl.act_helper:ActHelper.__init__', trusted=True,
           params=dict(self=Inst(ActHelper), actor_name=Any_, act_phase=Any_))
M.trust('ActHelper.__init__ (source of the act phase: C01/C10) does not touch the settings')


class ActorNameAndValueI(Interface):
    attrs = {'name': Any_, 'value': Any_}


_CONFIGURATION = Inst(pexe.Configuration,
                      _tuple=[Iface(ExeConfI),
                              Inst(ConfPhaseValues, _tuple=[Iface(ActorNameAndValueI), Any_]),
                              # what full_execution.execute passes (check `setup-settings-handler`)
                              Const(StandardSetupSettingsHandler.new_from_environ)])


@M.check('setup-settings-handler')
def _setup_settings_handler(ctx):
    import ast, inspect
    from exactly_lib.execution.full_execution import execution as full
    src = inspect.getsource(full.execute)
    calls = [n for n in ast.walk(ast.parse(src)) if isinstance(n, ast.Call)
             and ast.unparse(n.func) == 'execution.execute']
    ok = len(calls) == 1 and len(calls[0].args) == 5 and \
        ast.unparse(calls[0].args[3]) == 'StandardSetupSettingsHandler.new_from_environ'
    ctx.obligation('full execution makes the setup settings handler with StandardSetupSettingsHandler.new_from_environ',
                   ok, 'enumeration')


class TestCaseI(Interface):
    attrs = {'act_phase': Any_}


M.contract(P_EXE + ':_PartialExecutor.__init__',
           params=dict(self=Inst(pexe._PartialExecutor), conf=_CONFIGURATION, test_case=Iface(TestCaseI)),
           ensures={
               'non-act set and act set start equal to the configured environment (None = inherit = default)':
                   lambda self, conf:
                   (self._instruction_settings.environ() is None and self._setup_settings_handler.builder.environ is None)
                   if conf.exe_conf.environ is None else
                   (self._instruction_settings.environ() == conf.exe_conf.environ
                    and self._setup_settings_handler.builder.environ == conf.exe_conf.environ),
               'they are independent copies': lambda self, conf:
               conf.exe_conf.environ is None or (
                       self._instruction_settings.environ() is not self._setup_settings_handler.builder.environ
                       and self._instruction_settings.environ() is not conf.exe_conf.environ
                       and self._setup_settings_handler.builder.environ is not conf.exe_conf.environ),
               'timeout and default getter as configured': lambda self, conf:
               self._instruction_settings.timeout_in_seconds() == conf.exe_conf.timeout_in_seconds
               and self._instruction_settings.default_environ_getter is conf.exe_conf.default_environ_getter,
           }, raises_only=())


@M.check('default-environ')
def _default_environ_check(ctx):
    """The default environment is a new dict(os.environ) on every call."""
    import ast, inspect
    from exactly_lib.definitions import os_proc_env
    src = inspect.getsource(predefined_properties.os_environ_getter)
    body = ast.parse(src).body[0].body
    ctx.obligation('os_environ_getter returns dict(os.environ)',
                   len(body) == 1 and isinstance(body[0], ast.Return)
                   and ast.unparse(body[0].value) == 'dict(os.environ)', 'enumeration')
    ctx.obligation('the default getter of the program is os_environ_getter',
                   os_proc_env.ENV_VARS_GETTER__DEFAULT is predefined_properties.os_environ_getter, 'enumeration')
    a, b = predefined_properties.os_environ_getter(), predefined_properties.os_environ_getter()
    ctx.obligation('two calls give equal, distinct dicts equal to os.environ',
                   a == b == dict(os.environ) and a is not b, 'enumeration')


# --- the act phase executor: built after setup-main; gets the act set, the current timeout and (C08) the
# execution-time symbol table

from exactly_lib.execution.partial_execution.impl.atc_execution import ActionToCheckExecutor

M.contract(P_EXE + ':_PartialExecutor._construct_act_phase_executor', params=dict(self=EXECUTOR),
           props=('C08', 'C11'), inline=True,
           ensures={
               'the act set, as the setup phase left it': lambda self, result:
               result.atc_input.environ is self._setup_settings_handler.builder.environ,
               'the timeout and non-act set now in force': lambda self, result:
               _is_current_view(result.environment_for_other_steps.proc_exe_settings, self._instruction_settings)
               and _is_current_view(result.environment_for_validate_post_setup.proc_exe_settings,
                                    self._instruction_settings),
               'C08: the act phase executes with the execution-time symbol table, validates with the validated one':
                   lambda self, result:
                   result.environment_for_other_steps.symbols is self._PartialExecutor__post_sds_symbol_table
                   and result.environment_for_validate_post_setup.symbols is self._instruction_environment_pre_sds.symbols,
           }, raises_only=())


# --- set up after validation: cwd := act dir; (C08) the execution-time table := a copy of the predefined symbols

from contracts.C08_symbols import TABLE as SYMBOL_TABLE, view as table_view


class SdsI(Interface):
    attrs = {'act_dir': Iface(PrimitivePathI), 'internal_tmp_dir': Any_}


M.contract(P_EXE + ':_PartialExecutor._construct_and_set_sds', trusted=True,
           params=dict(self=Any_), event='sds-constructed',
           modifies={'self._PartialExecutor__sandbox_directory_structure': Iface(SdsI)})
M.trust('_PartialExecutor._construct_and_set_sds creates the sandbox and stores it in the executor (C04); it does '
        'not touch settings, symbols or the current directory')


class ExeConfWithSymbolsI(ExeConfI):
    attrs = {'predefined_symbols': SYMBOL_TABLE}


def _mk_executor_before_sds(interp, name):
    ex = _mk_executor(interp, name)
    ex.exe_conf = Iface(ExeConfWithSymbolsI).make(interp, name + '.exe_conf')
    ex.conf = Inst(pexe.Configuration, _tuple=[Const(ex.exe_conf), Any_, Any_]).make(interp, name + '.conf')
    ex._PartialExecutor__sandbox_directory_structure = None
    del ex._PartialExecutor__post_sds_symbol_table
    return ex


M.contract(P_EXE + ':_PartialExecutor._setup_post_sds_environment', params=dict(self=Custom(_mk_executor_before_sds)),
           props=('C08', 'C11'), inline=True,
           ensures={
               'C08: the execution-time table starts as a copy of the predefined symbols': lambda self:
               table_view(self._PartialExecutor__post_sds_symbol_table) == table_view(self.exe_conf.predefined_symbols)
               and self._PartialExecutor__post_sds_symbol_table is not self.exe_conf.predefined_symbols
               and table_view(self._PartialExecutor__post_sds_symbol_table)
               is not table_view(self.exe_conf.predefined_symbols),
               'C11: the current directory is the act directory of the new sandbox': lambda self, trace:
               [e[0] for e in trace if e[0] in ('sds-constructed', 'chdir')] == ['sds-constructed', 'chdir']
               and os.getcwd() == str(self._PartialExecutor__sandbox_directory_structure.act_dir),
           }, may_raise=(OSError,), raises_only=())


# --- from the parsed instruction to the modifier: the variable name is the resolved name string

class NameDdvI(Interface):
    methods = {'value_of_any_dependency': Method(returns=Str, pure=True)}


class NameSdvI(Interface):
    attrs = {'references': Any_}
    methods = {'resolve': Method(returns=Iface(NameDdvI), event='name-resolved')}


class ValueDdvI(Interface):
    attrs = {'validator': Any_}
    methods = {'value_of_any_dependency': Method(returns=Iface(StringSourceAdvI), event='value-adv')}


class ValueSdvI(Interface):
    attrs = {'references': Any_}
    methods = {'resolve': Method(returns=Iface(ValueDdvI), event='value-resolved')}


class TcdsI(Interface):
    by_id = True


M.contract(P_ENV + ':ModifierDdvForSet.resolve',
           params=dict(self=Inst(env_impl.ModifierDdvForSet, _name=Iface(NameDdvI), _value=Iface(ValueDdvI)),
                       tcds=Iface(TcdsI)), inline=True,
           ensures={'set <resolved name> to <resolved value source>': lambda self, tcds, result, trace:
           isinstance(result, env_impl.ModifierAdvForSet) and result._name == self._name.value_of_any_dependency(tcds)
           and result._value is [e[2] for e in trace if e[0] == 'value-adv:returned'][0]},
           raises_only=())
M.contract(P_ENV + ':ModifierDdvForUnset.resolve',
           params=dict(self=Inst(env_impl.ModifierDdvForUnset, _name=Iface(NameDdvI)), tcds=Iface(TcdsI)),
           inline=True,
           ensures={'unset <resolved name>': lambda self, tcds, result:
           isinstance(result, env_impl.ModifierAdvForUnset) and result._name == self._name.value_of_any_dependency(tcds)},
           raises_only=())
M.contract(P_ENV + ':ModifierSdvOfSet.resolve',
           params=dict(self=Inst(env_impl.ModifierSdvOfSet, _var_name=Iface(NameSdvI), _var_value=Iface(ValueSdvI),
                                 _references=Any_), symbols=Any_), inline=True,
           ensures={'name and value resolved against the given symbols': lambda self, symbols, result, trace:
           isinstance(result, env_impl.ModifierDdvForSet)
           and result._name is [e[2] for e in trace if e[0] == 'name-resolved:returned'][0]
           and result._value is [e[2] for e in trace if e[0] == 'value-resolved:returned'][0]
           and all(e[2][0] is symbols for e in trace if e[0] in ('name-resolved', 'value-resolved'))},
           raises_only=())
M.contract(P_ENV + ':ModifierSdvOfUnset.resolve',
           params=dict(self=Inst(env_impl.ModifierSdvOfUnset, _var_name=Iface(NameSdvI)), symbols=Any_), inline=True,
           ensures={'name resolved against the given symbols': lambda self, symbols, result, trace:
           isinstance(result, env_impl.ModifierDdvForUnset)
           and result._name is [e[2] for e in trace if e[0] == 'name-resolved:returned'][0]
           and all(e[2][0] is symbols for e in trace if e[0] == 'name-resolved')},
           raises_only=())


# --- the current directory of the process that runs Exactly is restored after the execution

from exactly_lib.util.file_utils.misc_utils import preserved_cwd


def cwd_is_preserved(directory):
    """Harness: an execution that changes directory, inside preserved_cwd()."""
    before = os.getcwd()
    with preserved_cwd():
        os.chdir(directory)
        inside = os.getcwd()
    return before, inside, os.getcwd()


M.contract('contracts.C11_settings:cwd_is_preserved', params=dict(directory=Str),
           ensures={'cd takes effect inside; the directory is restored afterwards (unless chdir itself fails)':
                    lambda directory, result: result[1] == directory and result[2] == result[0]},
           may_raise=(OSError,), raises_only=())


# the settings travel in tuple-backed records (ProcessExecutionSettings, instruction environments, execution
# configuration): C19's scan of their accessors carries C11 too
M.shared_checks = list(getattr(M, 'shared_checks', [])) + [('C19', 'record-accessors')]
