"""C11 -- settings persist forward: cd, env (act / non-act), timeout.

The state an instruction can change is  (non-act environ, act environ, timeout, cwd):
    non-act environ   InstructionSettings._environ        (dict or None = not yet populated)
    act environ       SetupSettingsBuilder._environ       (dict or None)
    timeout           InstructionSettings._timeout_in_seconds
    cwd               the process' current directory (os.chdir)
Environments are maps str -> str (a real dict natively, SMT arrays in proofs).  Each setting-changing
instruction is proved to implement one transition of that state machine; `_post_sds_environment` is proved to
hand every instruction the settings in force when it is called.  See DESIGN.md / C11."""
import re

import z3

from pyvc.api import (Module, Interface, Method, Iface, Inst, Int, Nat, Bool, Str, Opt, OneOf, Const, Union,
                      ListOf, FixedList, MapOf, Derived, Any_, EnumOf, Custom, new_opaque, assume_pred)
from pyvc.values import SOpt, SInt, SStr, to_z3, wrap
from contracts.common import implies, iff, forall_range, exists_range, is_opaque, recursive_str

from exactly_lib.impls.instructions.multi_phase.environ import impl as env_impl

M = Module('C11')

P_ENV = 'exactly_lib.impls.instructions.multi_phase.environ.impl'

ENVIRON = MapOf(Str, Str)


def _with(d, key, value):
    r = dict(d)
    r[key] = value
    return r


def _without(d, key):
    r = dict(d)
    r.pop(key, None)
    return r


# ------------------------------------------------------------------------------ ${NAME} references

REFERENCE_PATTERN = r'\$\{[a-zA-Z0-9_]+\}'       # the manual: ${NAME}, NAME made of letters, digits and underscore
_NAME_CHARS = 'abcdefghijklmnopqrstuvwxyzABCDEFGHIJKLMNOPQRSTUVWXYZ0123456789_'


class _Match:
    """what the code uses of a re.Match"""

    def __init__(self, start, end):
        self._start = start
        self._end = end

    def start(self):
        return self._start

    def end(self):
        return self._end


def _reference_re():
    name_char = z3.Union(z3.Range('a', 'z'), z3.Range('A', 'Z'), z3.Range('0', '9'), z3.Re('_'))
    return z3.Concat(z3.Re('${'), z3.Plus(name_char), z3.Re('}'))


def _search_model(interp, args, kwargs):
    """Assumed contract of  _ENV_VAR_REFERENCE.search(s)  (re.Pattern.search, leftmost match) in SMT regular
    expression terms.  The result is a function of the string: found(s), start(s), end(s) with
        found(s)  <=>  s in  .* R .*
        found(s)   =>  s == pre . m . post,  |pre| == start(s),  |pre . m| == end(s),  m in R,  pre not in .* R .*
    For this R a match is determined by its start and two matches cannot overlap ('$' occurs only at the start of a
    match), so "no match starts before start(s)" is "pre contains no match".  `search-model` below compares this
    characterisation with re.search on every string up to a bound."""
    from pyvc import strings
    (s,) = args
    st = interp.st
    t = to_z3(s)
    R = _reference_re()
    full = z3.Full(z3.ReSort(z3.StringSort()))
    contains_ref = z3.Concat(full, R, full)
    found = z3.Function('ref.found', z3.StringSort(), z3.BoolSort())(t)
    start = z3.Function('ref.start', z3.StringSort(), z3.IntSort())(t)
    end = z3.Function('ref.end', z3.StringSort(), z3.IntSort())(t)
    key = ('@ref-search', t.get_id())
    if key not in st.ghost:
        st.ghost[key] = t
        st.assume(found == z3.InRe(t, contains_ref))
        st.assume(z3.And(0 <= start, start <= end, end <= z3.Length(t)))
        st.assume(z3.Implies(found, start + 4 <= end))
        pre, mid, post = strings.decompose(interp, s, [start, z3.simplify(end - start), None], 'ref')
        st.assume(z3.Implies(found, z3.And(z3.InRe(mid, R), z3.Not(z3.InRe(pre, contains_ref)))))
    return SOpt(z3.Not(found), _Match(wrap(start), wrap(end)))


M.model(env_impl._ENV_VAR_REFERENCE.search, _search_model)
M.trust('re.Pattern.search for the pattern of ${NAME} references: leftmost match, characterised in SMT regular '
        'expression terms (contracts.C11_settings._search_model; compared with CPython by check `search-model`)')


@M.check('search-model')
def _check_search_model(ctx):
    """The pattern object is the documented one, and the characterisation used by the model agrees with CPython's
    re.search on every string over a 6-letter alphabet up to length 7."""
    import itertools
    pat = env_impl._ENV_VAR_REFERENCE
    ctx.obligation('_ENV_VAR_REFERENCE is the pattern of ${NAME} references',
                   pat.pattern in (r'\${[a-zA-Z0-9_]+}', REFERENCE_PATTERN) and pat.flags == re.compile('x').flags,
                   'enumeration', detail={'pattern': pat.pattern, 'flags': pat.flags})
    ref = re.compile(REFERENCE_PATTERN)
    bad = None
    n = 0
    for k in range(0, 8):
        for tup in itertools.product('${}a_-', repeat=k):
            s = ''.join(tup)
            n += 1
            m = pat.search(s)
            # the characterisation: exists a split pre.m.post with m a full match and no match inside pre
            cands = [(i, j) for i in range(len(s) + 1) for j in range(i, len(s) + 1)
                     if ref.fullmatch(s[i:j]) and not ref.search(s[:i])]
            if (m is None) != (not cands) or (m is not None and cands != [(m.start(), m.end())]):
                bad = s
                break
        if bad is not None:
            break
    ctx.obligation('leftmost-match characterisation == re.search on all strings over "${}a_-" up to length 7',
                   bad is None, 'enumeration', detail={'strings': n, 'first_difference': bad})


@recursive_str
def expand(value, env):
    """Reference semantics of ${NAME} expansion: scan left to right; the leftmost reference is replaced by the
    value of NAME in env ('' if unset); the text before it is copied; expansion continues after it (replaced
    text is not rescanned)."""
    m = env_impl._ENV_VAR_REFERENCE.search(value)
    if not m:
        return value
    return value[:m.start()] + env.get(value[m.start() + 2:m.end() - 1], '') + expand(value[m.end():], env)


def _same_match(match, searched):
    return iff(not match, not searched) and ((not match) or (match.start() == searched.start()
                                                             and match.end() == searched.end()))


M.contract(P_ENV + ':_expand_vars', params=dict(value=Str, environ=ENVIRON), returns=Str,
           ensures={'is the expansion of the value against the given set': lambda value, environ, result:
           result == expand(value, environ)},
           raises_only=())

_MATCH = Custom(lambda interp, name: SOpt(interp.st.fresh_bool(name + '.is_none'),
                                          _Match(SInt(interp.st.fresh_int(name + '.start')),
                                                 SInt(interp.st.fresh_int(name + '.end')))))

M.loop(P_ENV + ':_expand_vars', 0,
       invariant=lambda processed, remaining, match, value, environ:
       _same_match(match, env_impl._ENV_VAR_REFERENCE.search(remaining))
       and processed + expand(remaining, environ) == expand(value, environ),
       modifies=dict(processed=Str, remaining=Str, match=_MATCH),
       decreases=lambda remaining: len(remaining))


# ------------------------------------------------------------------------------ the two modifiers

M.contract(P_ENV + ':ModifierOfSet.modify',
           params=dict(self=Inst(env_impl.ModifierOfSet, _name=Str, _value=Str), environ=ENVIRON),
           modifies=('environ',), old=lambda environ: dict(environ),
           ensures={'env[name -> expand(value, env before the change)], other variables unchanged':
                    lambda self, environ, old: environ == _with(old, self._name, expand(self._value, old))},
           raises_only=())

M.contract(P_ENV + ':ModifierUnset.modify',
           params=dict(self=Inst(env_impl.ModifierUnset, name=Str), environ=ENVIRON),
           modifies=('environ',), old=lambda environ: dict(environ),
           ensures={'variable removed if present, other variables unchanged; never an error':
                    lambda self, environ, old: environ == _without(old, self.name)},
           raises_only=())


# ------------------------------------------------------------------------------ environment of the appliers

from exactly_lib.test_case.phases.instruction_settings import InstructionSettings
from exactly_lib.test_case.phases.setup.settings_builder import SetupSettingsBuilder
from exactly_lib.test_case.phases.instruction_environment import InstructionEnvironmentForPostSdsStep
from exactly_lib.util.process_execution.execution_elements import ProcessExecutionSettings


def _default_environ(interp, self, args, kwargs):
    """DefaultEnvironGetter: gives a new dict on every call (cli_default: dict(os.environ)).  The ghost event
    records a snapshot of its contents."""
    d = ENVIRON.make(interp, 'default-environ')
    interp.st.emit('default-environ', d.copy(interp))
    return d


class DefaultEnvironGetterI(Interface):
    methods = {'__call__': Method(model=_default_environ)}


class ContentsI(Interface):
    attrs = {'as_str': Str}


class StringSourceI(Interface):
    methods = {'contents': Method(returns=Iface(ContentsI), event='contents')}


class StringSourceAdvI(Interface):
    """the value of `env NAME = VALUE`: evaluated in an application environment (it may run a program)"""
    methods = {'primitive': Method(returns=Iface(StringSourceI), event='value-source')}


class TmpFileStorageI(Interface):
    attrs = {'paths_access': Any_}


class InstructionEnvironmentI(Interface):
    target_class = InstructionEnvironmentForPostSdsStep
    attrs = {'proc_exe_settings': Inst(ProcessExecutionSettings, _tuple=[Opt(Int), Any_]),
             'tmp_dir__path_access': Iface(TmpFileStorageI), 'mem_buff_size': Int, 'symbols': Any_, 'tcds': Any_}


SETTINGS = Inst(InstructionSettings, _environ=Opt(ENVIRON), _default_environ_getter=Iface(DefaultEnvironGetterI),
                _timeout_in_seconds=Opt(Int))
SETUP_SETTINGS = Inst(SetupSettingsBuilder, _stdin=Any_, _environ=Opt(ENVIRON))
APP_ENV_CONSTRUCTOR = Inst(env_impl._AppEnvConstructor, _environment=Iface(InstructionEnvironmentI), _os_services=Any_)

ADV_SET = Inst(env_impl.ModifierAdvForSet, _name=Str, _value=Iface(StringSourceAdvI))
ADV_UNSET = Inst(env_impl.ModifierAdvForUnset, _name=Str)
ADV = Union(ADV_SET, ADV_UNSET)          # closed world: the two modifier kinds of environ/impl.py (check `modifier-kinds`)


@M.check('modifier-kinds')
def _modifier_kinds(ctx):
    kinds = {k.__name__ for k in env_impl.Modifier.__subclasses__()}
    ctx.obligation('the modifiers are ModifierOfSet and ModifierUnset', kinds == {'ModifierOfSet', 'ModifierUnset'},
                   'enumeration', detail={'subclasses': sorted(kinds)})
    sdvs = {k.__name__ for k in env_impl.ModifierSdv.__subclasses__()}
    ctx.obligation('the modifier SDVs are ModifierSdvOfSet and ModifierSdvOfUnset',
                   sdvs == {'ModifierSdvOfSet', 'ModifierSdvOfUnset'}, 'enumeration', detail={'subclasses': sorted(sdvs)})


M.contract(P_ENV + ':ModifierAdvForSet.primitive', params=dict(self=ADV_SET, environment=Any_), inline=True,
           ensures={'sets the name to the contents of the value, read in the given application environment':
                    lambda self, environment, result, trace:
                    isinstance(result, env_impl.ModifierOfSet) and result._name == self._name
                    and result._value == values_read(trace)[0] and value_sources(trace) == [environment]},
           raises_only=())
M.contract(P_ENV + ':ModifierAdvForUnset.primitive', params=dict(self=ADV_UNSET, environment=Any_), inline=True,
           ensures={'unsets the name': lambda self, result:
           isinstance(result, env_impl.ModifierUnset) and result.name == self._name},
           raises_only=())


def values_read(trace):
    """the value strings read (contents of the value string sources), in order"""
    return [e[2].as_str for e in trace if e[0] == 'contents:returned']


def value_sources(trace):
    """the application environments the value string sources were evaluated in, in order"""
    return [e[2][0] for e in trace if e[0] == 'value-source']


def defaults_taken(trace):
    """snapshots of the default environments obtained from the default-environ getter, in order"""
    return [e[1] for e in trace if e[0] == 'default-environ']


def effect(adv, value, env):
    """the transition of one environment: set NAME to the expanded value / unset NAME"""
    if isinstance(adv, env_impl.ModifierAdvForSet):
        return _with(env, adv._name, expand(value, env))
    return _without(env, adv._name)


def _is_set(adv):
    return isinstance(adv, env_impl.ModifierAdvForSet)


# ------------------------------------------------------------------------------ appliers: which set, populate-if-unset

def _snapshot(optional_environ):
    return None if optional_environ is None else dict(optional_environ)


def _applied(adv, before, now, trace, k_value=0, k_default=0):
    """`now` is `before` (or, if that was None, the default environment just taken) after the transition;
    a set-value was read in an application environment holding the set as it was before the change"""
    e0 = defaults_taken(trace)[k_default] if before is None else before
    v = values_read(trace)[k_value] if _is_set(adv) else ''
    return now is not None and now == effect(adv, v, e0)


M.contract(P_ENV + ':ModifierApplierForNonSetupPhase.apply',
           params=dict(self=Inst(env_impl.ModifierApplierForNonSetupPhase, _instruction_settings=SETTINGS,
                                 _app_env_constructor=APP_ENV_CONSTRUCTOR), modifier=ADV),
           inline=True, modifies=('self._instruction_settings',),
           old=lambda self: (_snapshot(self._instruction_settings.environ()), self._instruction_settings.environ(),
                             self._instruction_settings.timeout_in_seconds()),
           ensures={
               'the non-act set: populated from the default if unset, then modified': lambda self, modifier, old, trace:
               _applied(modifier, old[0], self._instruction_settings.environ(), trace)
               and len(defaults_taken(trace)) == (1 if old[0] is None else 0),
               'value evaluated with the non-act set as it was before the change': lambda self, modifier, old, trace:
               (not _is_set(modifier)) or
               (len(value_sources(trace)) == 1
                and value_sources(trace)[0].process_execution_settings.environ is old[1]),
               'timeout untouched': lambda self, old: self._instruction_settings.timeout_in_seconds() == old[2],
           }, raises_only=())

M.contract(P_ENV + ':ModifierApplierForSetupPhase.apply',
           params=dict(self=Inst(env_impl.ModifierApplierForSetupPhase, _instruction_settings=SETTINGS,
                                 _app_env_constructor=APP_ENV_CONSTRUCTOR, _setup_phase_settings=SETUP_SETTINGS),
                       modifier=ADV),
           inline=True, modifies=('self._setup_phase_settings',),
           old=lambda self: (_snapshot(self._setup_phase_settings.environ), self._setup_phase_settings.environ,
                             self._instruction_settings.environ()),
           ensures={
               'the act set: populated from the default if unset, then modified': lambda self, modifier, old, trace:
               _applied(modifier, old[0], self._setup_phase_settings.environ, trace)
               and len(defaults_taken(trace)) == (1 if old[0] is None else 0),
               'value evaluated with the act set as it was before the change': lambda self, modifier, old, trace:
               (not _is_set(modifier)) or
               (len(value_sources(trace)) == 1
                and value_sources(trace)[0].process_execution_settings.environ is old[1]),
               'the non-act set is the same object (its contents: frame obligation)': lambda self, old:
               self._instruction_settings.environ() is old[2],
           }, raises_only=())


# ------------------------------------------------------------------------------ the env instruction: main

ACT, NON_ACT = env_impl.Phase.ACT, env_impl.Phase.NON_ACT
PHASE_SETS = OneOf(frozenset((ACT,)), frozenset((NON_ACT,)), frozenset((ACT, NON_ACT)), frozenset())


class ModifierDdvI(Interface):
    target_class = env_impl.ModifierDdv
    methods = {'resolve': Method(returns=ADV, event='adv')}


class ModifierSdvI(Interface):
    target_class = env_impl.ModifierSdv
    methods = {'resolve': Method(returns=Iface(ModifierDdvI))}


EMBRYO = Inst(env_impl.TheInstructionEmbryo, _phases=PHASE_SETS, _modifier=Iface(ModifierSdvI))


def the_modifier(trace):
    """the resolved modifier (application-environment dependent value) of this execution of main"""
    return [e[2] for e in trace if e[0] == 'adv:returned'][0]


def _untouched(now, old_object, old_snapshot):
    return now is old_object and (now is None or now == old_snapshot)


def _main_old(settings, setup_phase_settings):
    return (_snapshot(settings.environ()), settings.environ(), settings.timeout_in_seconds(),
            None if setup_phase_settings is None else _snapshot(setup_phase_settings.environ),
            None if setup_phase_settings is None else setup_phase_settings.environ)


def _act_is_changed(self, setup_phase_settings):
    """the act set is changed by `env` only in the setup phase (the only phase before act) and unless -of !act"""
    return setup_phase_settings is not None and ACT in self._phases


def _non_act_is_changed(self):
    return NON_ACT in self._phases


M.contract(P_ENV + ':TheInstructionEmbryo.main',
           params=dict(self=EMBRYO, environment=Iface(InstructionEnvironmentI), settings=SETTINGS,
                       setup_phase_settings=Opt(SETUP_SETTINGS), os_services=Any_),
           modifies=('settings', 'setup_phase_settings'),
           old=lambda settings, setup_phase_settings: _main_old(settings, setup_phase_settings),
           ensures={
               'act set: changed (against itself) in setup unless -of !act; otherwise untouched':
                   lambda self, setup_phase_settings, old, trace:
                   setup_phase_settings is None or (
                       _applied(the_modifier(trace), old[3], setup_phase_settings.environ, trace, 0, 0)
                       if _act_is_changed(self, setup_phase_settings) else
                       _untouched(setup_phase_settings.environ, old[4], old[3])),
               'non-act set: changed (against itself) unless -of act; otherwise untouched':
                   lambda self, settings, setup_phase_settings, old, trace:
                   (_applied(the_modifier(trace), old[0], settings.environ(), trace,
                             1 if (_act_is_changed(self, setup_phase_settings) and _is_set(the_modifier(trace))) else 0,
                             1 if (_act_is_changed(self, setup_phase_settings) and old[3] is None) else 0)
                    if _non_act_is_changed(self) else _untouched(settings.environ(), old[1], old[0])),
               'each value is evaluated with the set it goes into, as that set was before the change':
                   lambda self, setup_phase_settings, old, trace:
                   [s.process_execution_settings.environ for s in value_sources(trace)] ==
                   (([old[4]] if _act_is_changed(self, setup_phase_settings) else [])
                    + ([old[1]] if _non_act_is_changed(self) else []) if _is_set(the_modifier(trace)) else []),
               'timeout untouched': lambda settings, old: settings.timeout_in_seconds() == old[2],
           }, raises_only=())

M.contract(P_ENV + ':TheInstructionEmbryo._resolve_applier_factory',
           params=dict(instruction_settings=SETTINGS, app_env_constructor=APP_ENV_CONSTRUCTOR,
                       setup_phase_settings=Opt(SETUP_SETTINGS)), inline=True,
           ensures={'setup phase (settings builder given): appliers for both sets; otherwise only for the non-act set':
                    lambda instruction_settings, setup_phase_settings, result:
                    (type(result) is env_impl._ApplierFactoryWSupportForNonSetupPhase
                     if setup_phase_settings is None else
                     (type(result) is env_impl._ApplierFactoryWSupportForSetupAndNonSetupPhases
                      and result._setup_phase_settings is setup_phase_settings))
                    and result.instruction_settings is instruction_settings},
           raises_only=())
