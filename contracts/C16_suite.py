"""C16 -- suite run: every case once, verdict OK iff all succeed, reporters agree.  See DESIGN.md section 3 / C16."""
from pyvc.api import (Module, Interface, Method, Iface, Inst, Int, Nat, Bool, Str, Opt, OneOf, Const, Union,
                      ListOf, FixedList, FixedDict, Any_, EnumOf, Custom, new_opaque, assume_pred)
from contracts.common import implies, iff, forall_range, exists_range, is_opaque

from exactly_lib.common.exit_value import ExitValue
from exactly_lib.execution.full_execution.result import FullExeResultStatus, FullExeResult
from exactly_lib.processing import test_case_processing as tcp
from exactly_lib.test_suite import exit_values, reporting, structure
from exactly_lib.test_suite.reporters import simple_progress_reporter as spr
from exactly_lib.test_suite.reporters import junit
from exactly_lib.util.ansi_terminal_color import ForegroundColor

from contracts import C02_outcome  # noqa: F401  (exit_values.from_result is used through its C02 contract)

M = Module('C16')

P_SPR = 'exactly_lib.test_suite.reporters.simple_progress_reporter'
P_JUNIT = 'exactly_lib.test_suite.reporters.junit'

# ------------------------------------------------------------------------------ oracle (from the property statement)

SUCCESSFUL = ('PASS', 'SKIPPED', 'XFAIL')


def successful(r):
    """the case ended PASS, SKIPPED or XFAIL"""
    return r.status is tcp.Status.EXECUTED and r.execution_result.status.name in SUCCESSFUL


def entry_successful(entry):
    """entry: (case, processing info) as recorded by SubSuiteReporter.case_end"""
    return successful(entry[1].result)


def all_successful(rep):
    return forall_range(0, len(rep._result), lambda b: entry_successful(rep._result[b]))


# ------------------------------------------------------------------------------ shapes

def result_is_well_formed(result):
    """error_type is given iff ACCESS_ERROR, execution_result iff EXECUTED (docstring of Result; the three
    constructors establish it: proved in C02 `well-formed`)."""
    return iff(result.status is tcp.Status.ACCESS_ERROR, result.access_error_type is not None) \
        and iff(result.status is tcp.Status.EXECUTED, result.execution_result is not None)


FULL_EXE_RESULT = Inst(FullExeResult,
                       _FullExeResult__status=EnumOf(FullExeResultStatus),
                       _ResultBase__sds=Any_,
                       _ResultBase__action_to_check_outcome=Any_,
                       _ResultBase__failure_info=Any_)

RESULT = Inst(tcp.Result, _invariant=result_is_well_formed,
              _tuple=[EnumOf(tcp.Status), Any_, Opt(EnumOf(tcp.AccessErrorType)), Opt(FULL_EXE_RESULT)])

M.assume('every test_case_processing.Result handed to a reporter is well formed (access_error_type iff ACCESS_ERROR, '
         'execution_result iff EXECUTED): results are built by new_internal_error/new_access_error/new_executed only '
         '(C02 proves `well-formed` of the three constructors)')


class PathI(Interface):
    """pathlib.Path as far as the reporters use it (presentation of file names)"""
    methods = {
        'relative_to': Method(returns=Iface(lambda: PathI), may_raise=(ValueError,)),
        '__str__': Method(returns=Str),
        'resolve': Method(returns=Iface(lambda: ResolvedPathI), pure=True),
        # os.stat: FileNotFoundError, or another OSError (a component of the path is not a directory, no
        # permission to search a directory, too many symbolic links, ...)
        'stat': Method(returns=Iface(lambda: StatResultI), pure=True,
                       may_raise=(FileNotFoundError, NotADirectoryError, PermissionError)),
        'is_file': Method(returns=Bool, pure=True),
        'glob': Method(returns=ListOf(Iface(lambda: PathI)), pure=True),
        '__truediv__': Method(returns=Iface(lambda: PathI), pure=True),
    }
    attrs = {'parent': Iface(lambda: PathI), 'name': Str, 'parts': ListOf(Str), 'as_str': Str}
    sort_key = 'as_str'      # paths are ordered like their (case-folded, on Windows) parts


class StatResultI(Interface):
    attrs = {'st_mode': Int}


class ResolvedPathI(PathI):
    """an absolute, resolved path: two of them are equal (and hash alike) iff their `ident` is the same"""
    map_key = 'ident'
    attrs = {'ident': Int}


class DurationI(Interface):
    """datetime.timedelta"""
    methods = {
        '__add__': Method(returns=Iface(lambda: DurationI)),
        '__radd__': Method(returns=Iface(lambda: DurationI)),
        'total_seconds': Method(returns=Any_),
    }


class DateTimeI(Interface):
    methods = {'replace': Method(returns=Iface(lambda: DateTimeI)), 'isoformat': Method(returns=Str)}


class CaseI(Interface):
    """TestCaseFileReference; `ident` is a ghost name for the identity of the listed case."""
    target_class = tcp.TestCaseFileReference
    attrs = {'ident': Int, 'file_path': Iface(PathI), 'path_relativity_root_dir': Iface(PathI)}


CASE = Iface(CaseI)
INFO = Inst(reporting.TestCaseProcessingInfo, _tuple=[RESULT, Iface(DurationI)])
ENTRY = FixedList(CASE, INFO, as_tuple=True)

SUB_REPORTER = Inst(reporting.SubSuiteReporter, _suite=Any_, _listener=Any_, _result=ListOf(ENTRY),
                    _start_time=Iface(DateTimeI))

SUITE_EXIT_VALUE = OneOf(exit_values.ALL_PASS, exit_values.FAILED_TESTS)


# ------------------------------------------------------------------------------ progress reporter: the verdict

class _ErrListI(Interface):
    """the list of cases per exit identifier (only appended to)"""
    methods = {'append': Method()}


class _ErrorsI(Interface):
    """`errors`: exit identifier -> cases, used for the listing on stderr only (contents not specified here)"""
    methods = {'setdefault': Method(returns=Iface(_ErrListI))}


def _n_results(rep):
    return len(rep._result)


PROGRESS_ROOT = Inst(spr.SimpleProgressRootSuiteReporter,
                     _std_output_files=Any_, _output_file=Any_, _error_file=Any_,
                     _sub_reporters=ListOf(SUB_REPORTER), _start_time=Any_, _total_time_timedelta=Any_,
                     _root_suite_dir_abs_path=Any_)

from contracts.common import sum_prefix, count_prefix

M.contract(P_SPR + ':SimpleProgressRootSuiteReporter._valid_suite_exit_value',
           params=dict(self=PROGRESS_ROOT),
           returns=FixedList(Int, Any_, SUITE_EXIT_VALUE, as_tuple=True),
           ensures={
               'OK iff every case ended PASS, SKIPPED or XFAIL, else ERROR': lambda self, result:
               (result[2] is exit_values.ALL_PASS) == forall_range(0, len(self._sub_reporters),
                                                                    lambda a: all_successful(self._sub_reporters[a]))
               and (result[2] is exit_values.ALL_PASS or result[2] is exit_values.FAILED_TESTS),
               'number of tests is the number of recorded cases': lambda self, result:
               result[0] == sum_prefix(self._sub_reporters, len(self._sub_reporters), _n_results),
           },
           raises_only=())

M.loop(P_SPR + ':SimpleProgressRootSuiteReporter._valid_suite_exit_value', 0,
       invariant=lambda self, _i, num_tests, exit_value:
       (exit_value is exit_values.ALL_PASS) == forall_range(0, _i, lambda a: all_successful(self._sub_reporters[a]))
       and num_tests == sum_prefix(self._sub_reporters, _i, _n_results),
       modifies=dict(num_tests=Int, exit_value=SUITE_EXIT_VALUE, errors=Iface(_ErrorsI),
                     suite_reporter='local', case_setup='local', processing_info='local', result='local',
                     case_exit_value='local'))

M.loop(P_SPR + ':SimpleProgressRootSuiteReporter._valid_suite_exit_value', 1,
       invariant=lambda self, _i, _i_0, num_tests, exit_value, suite_reporter:
       (exit_value is exit_values.ALL_PASS) == (
               forall_range(0, _i_0, lambda a: all_successful(self._sub_reporters[a]))
               and forall_range(0, _i, lambda b: entry_successful(suite_reporter._result[b])))
       and num_tests == sum_prefix(self._sub_reporters, _i_0, _n_results) + _i,
       modifies=dict(num_tests=Int, exit_value=SUITE_EXIT_VALUE, errors=Iface(_ErrorsI),
                     case_setup='local', processing_info='local', result='local', case_exit_value='local'))


# ------------------------------------------------------------------------------ JUnit reporter
from pyvc.pymodels import etree_model
from contracts.common import nat_of_str

M.trust('xml.etree.ElementTree.Element/SubElement store the tag, attributes, text and sub-elements they are given, '
        'in order (pyvc/pymodels/etree_model.py)')


def entry_unsuccessful(entry):
    return not entry_successful(entry)


def has_problem_child(e):
    """the testcase element carries a failure or error element (and nothing else)"""
    return len(e.children) == 1 and e.children[0].tag in ('failure', 'error')


def case_element_ok(e, entry):
    return e.tag == 'testcase' and has_problem_child(e) == (not entry_successful(entry))


XML_LEAF = Inst(etree_model.Element, tag=Str, attrib=Any_, children=Any_, text=Any_, tail=Any_)
XML_CASE = Inst(etree_model.Element, tag=Str, attrib=Any_, children=ListOf(XML_LEAF), text=Any_, tail=Any_)
XML_SUITE = Inst(etree_model.Element, tag=Str, attrib=FixedDict(tests=Str, failures=Str, errors=Str),
                 children=ListOf(XML_CASE), text=Any_, tail=Any_)

JUNIT_ROOT = Inst(junit.JUnitRootSuiteReporter,
                  _root_suite=Any_, _std_output_files=Any_, _output_file=Any_, _error_file=Any_,
                  _sub_reporters=ListOf(SUB_REPORTER), _start_time=Any_, _total_time_timedelta=Any_,
                  _root_suite_dir_abs_path=Iface(PathI), _host_name=Str)

# rendering of error messages is outside this property (C18: total on every failure shape)
M.contract('exactly_lib.common.result_reporting:error_message_for_full_result', trusted=True,
           params=dict(the_full_result=Any_), returns=Str)
M.contract('exactly_lib.common.result_reporting:error_message_for_error_info', trusted=True,
           params=dict(error_info=Any_), returns=Str)
M.trust('common.result_reporting.error_message_for_full_result / error_message_for_error_info return a string '
        '(rendering of error messages: C18)')

M.contract(P_JUNIT + ':JUnitRootSuiteReporter._file_path_pres', params=dict(self=JUNIT_ROOT, file=Iface(PathI)),
           returns=Str, ensures={'a string': lambda result: isinstance(result, str)}, raises_only=())


def verdict_name(result):
    if result.status is tcp.Status.EXECUTED:
        return result.execution_result.status.name
    if result.status is tcp.Status.ACCESS_ERROR:
        return result.access_error_type.name
    return 'INTERNAL_ERROR'


M.contract(P_JUNIT + ':_error_type', params=dict(result=RESULT), inline=True,
           ensures={'the verdict of the case': lambda result, ret: ret == verdict_name(result)}, raises_only=())

def _statuses_of_model(model):
    """candidate execution statuses of the counter-model (scalar or per-index values of `...status.idx`)"""
    import re
    all_statuses = list(FullExeResultStatus)
    out = []
    for k, v in model.items():
        if k.endswith('_FullExeResult__status.idx'):
            for n in ([v] if isinstance(v, int) else [int(x) for x in re.findall(r'-> (\d+)', str(v))]):
                if 0 <= n < len(all_statuses) and all_statuses[n].name not in out:
                    out.append(all_statuses[n].name)
    return out or [x.name for x in all_statuses]


def _junit_replay(model, rf):
    return _JUNIT_REPLAY % (_statuses_of_model(model),)


_JUNIT_REPLAY = '''
import io, datetime, pathlib
from exactly_lib.execution.full_execution.result import FullExeResultStatus, FullExeResult
from exactly_lib.processing import test_case_processing as tcp
from exactly_lib.test_suite import reporting, structure
from exactly_lib.test_suite.reporters import junit
from exactly_lib.util.file_utils.std import StdOutputFiles
SUCCESSFUL = ('PASS', 'SKIPPED', 'XFAIL')
root = pathlib.Path('/suite-dir')
suite = structure.TestSuiteHierarchy(root / 'a.suite', [], None, [], [])
case = tcp.test_case_reference_of_source_file(root / 'a.case')
bad = []
for name in %r:
    status = FullExeResultStatus[name]
    info = reporting.TestCaseProcessingInfo(tcp.new_executed(FullExeResult(status, None, None, None)),
                                            datetime.timedelta(0))
    reporter = junit.JUnitRootSuiteReporter(suite, StdOutputFiles(io.StringIO(), io.StringIO()), root)
    sub = reporter.new_sub_suite_reporter(suite)
    sub.case_end(case, info)
    try:
        xml = reporter._xml_for_suite(sub, 'a.suite')
        counted = int(xml.get('failures')) + int(xml.get('errors'))
        children = [c.tag for tc in xml.iter('testcase') for c in tc]
    except Exception as e:
        print(name, ': junit reporter raised', repr(e)); bad.append(name); continue
    unsuccessful = 0 if name in SUCCESSFUL else 1
    print('executed case with status', name, ': tests =', xml.get('tests'), ' failures+errors =', counted,
          ' children of <testcase>:', children, ' expected unsuccessful =', unsuccessful)
    if xml.get('tests') != '1' or counted != unsuccessful or len(children) != unsuccessful \\
            or any(c not in ('failure', 'error') for c in children):
        bad.append(name)
print('violating statuses:', bad)
sys.exit(1 if bad else 0)
'''

M.contract(P_JUNIT + ':JUnitRootSuiteReporter._xml_for_case',
           params=dict(self=JUNIT_ROOT, test_case_reference=CASE, processing_info=INFO), returns=XML_CASE,
           ensures={
               'a testcase element': lambda result: result.tag == 'testcase',
               'carries a failure or error element iff the case is unsuccessful':
                   lambda processing_info, result:
                   has_problem_child(result) == (not successful(processing_info.result)),
               'no other children': lambda result: len(result.children) <= 1,
           }, raises_only=(), replay=_junit_replay)


def _mk_additional_attributes(interp, name):
    return {'id': Str.make(interp, name + '.id'), 'package': Str.make(interp, name + '.package')}


M.contract(P_JUNIT + ':JUnitRootSuiteReporter._xml_for_suite',
           params=dict(self=JUNIT_ROOT, suite_reporter=SUB_REPORTER, name=Str,
                       additional_attributes=Union(Const(None), Custom(_mk_additional_attributes))),
           returns=XML_SUITE,
           ensures={
               'tests = number of cases': lambda suite_reporter, result:
               result.attrib['tests'] == str(len(suite_reporter._result)),
               'failures + errors = number of unsuccessful cases': lambda suite_reporter, result:
               nat_of_str(result.attrib['failures']) + nat_of_str(result.attrib['errors'])
               == count_prefix(suite_reporter._result, len(suite_reporter._result), entry_unsuccessful),
               'one testcase element per case, in order; failure/error child iff unsuccessful':
                   lambda suite_reporter, result:
                   len(result.children) == len(suite_reporter._result) + 3
                   and forall_range(0, len(suite_reporter._result),
                                    lambda j: case_element_ok(result.children[1 + j], suite_reporter._result[j])),
           }, raises_only=(), replay=_junit_replay)

M.loop(P_JUNIT + ':JUnitRootSuiteReporter._xml_for_suite', 0,
       invariant=lambda _i, suite_reporter, root, num_errors, num_failures:
       num_errors >= 0 and num_failures >= 0
       and num_failures + num_errors == count_prefix(suite_reporter._result, _i, entry_unsuccessful)
       and len(root.children) == 1 + _i
       and forall_range(0, _i, lambda j: case_element_ok(root.children[1 + j], suite_reporter._result[j])),
       modifies={'num_errors': Int, 'num_failures': Int, 'sum_of_time_for_cases': Iface(DurationI),
                 '@root': None, 'root.children': ListOf(XML_CASE),
                 'test_case_setup': 'local', 'processing_info': 'local', 'result': 'local'})

# ------------------------------------------------------------------------------ order of the suites
from exactly_lib.test_suite import enumeration


class SuiteI(Interface):
    """TestSuiteHierarchy (read-only properties) with ghost attributes for the specification:
    `ident` names the identity of the suite, `po_len` / `po(k)` are its post-order enumeration
    (length and ident of the k-th suite), defined by `_po_def`."""
    target_class = structure.TestSuiteHierarchy
    attrs = {
        'sub_test_suites': ListOf(Iface(lambda: SuiteI)),
        'test_cases': ListOf(CASE),
        'source_file': Iface(PathI),
        'test_case_handling_setup': Any_,
        'suite_file_inclusions_leading_to_this_file': Any_,
        'ident': Int,
        'po_len': Int,
    }
    methods = {'po': Method(returns=Int, pure=True)}


SUITE = Iface(SuiteI)


def _po_len(s):
    return s.po_len


def _po_def(s):
    """Post-order, by structural recursion over the hierarchy: po(s) = po(c_0) ++ ... ++ po(c_n-1) ++ [s]
    (sub-suites, in listing order, before the suite that lists them)."""
    cs = s.sub_test_suites
    return s.po_len == 1 + sum_prefix(cs, len(cs), _po_len) \
        and s.po(s.po_len - 1) == s.ident \
        and forall_range(0, len(cs), lambda j:
                         cs[j].po_len >= 1 and
                         forall_range(0, cs[j].po_len, lambda m: s.po(sum_prefix(cs, j, _po_len) + m) == cs[j].po(m)))


def _assume_po_def(interp, args, ghosts):
    assume_pred(interp, _po_def, args['suite'])


M.assume('post-order `po` of a suite hierarchy is defined by structural recursion (`_po_def`: the enumerations of the '
         'sub-suites in listing order, then the suite itself); the definition is unfolded for the root of the '
         'hierarchy under verification; hierarchies are finite trees (built by _SingleFileReader, which rejects '
         'repeated and cyclic inclusion)')

M.contract('exactly_lib.test_suite.enumeration:DepthFirstEnumerator.apply',
           params=dict(self=Inst(enumeration.DepthFirstEnumerator), suite=SUITE), returns=ListOf(SUITE),
           setup=_assume_po_def,
           ensures={
               'as many suites as the hierarchy has': lambda suite, result: len(result) == suite.po_len,
               'post-order: sub-suites (in listing order) before the suite that lists them': lambda suite, result:
               forall_range(0, len(result), lambda k: result[k].ident == suite.po(k)),
           }, raises_only=())

M.loop('exactly_lib.test_suite.enumeration:DepthFirstEnumerator.apply', 0,
       invariant=lambda _i, suite, ret_val:
       len(ret_val) == sum_prefix(suite.sub_test_suites, _i, _po_len)
       and forall_range(0, len(ret_val), lambda k: ret_val[k].ident == suite.po(k)),
       modifies=dict(ret_val=ListOf(SUITE), sub_suite='local'))

# ------------------------------------------------------------------------------ running the suites
# The environment (the reporter of the run, the test-case processors) is opaque; a ghost MONITOR in
# `ghost` follows the protocol of the calls made on it.  Outer monitor (the run): root_phase
# (0 not begun, 1 begun, 2 ended, 3 final result reported), suites_done, suites_ok.  Inner monitor (the
# suite in progress, reset by new_sub_suite_reporter): cases (the listed cases), k (cases completed),
# phase (0 idle, 1 after progress.case_begin, 2 after processor.apply, 3 after progress.case_end), ok;
# cases_ok accumulates the verdict of the completed suites at suite_end.
import ast

from pyvc.interp import PyRaise, ArbitraryException
from exactly_lib.test_suite import processing
from exactly_lib.processing import processors as case_processing

P_PROC = 'exactly_lib.test_suite.processing'


def _mon_root_begin(ghost):
    ghost['suites_ok'] = ghost['suites_ok'] and ghost['root_phase'] == 0
    ghost['root_phase'] = 1


def _mon_root_end(ghost):
    ghost['suites_ok'] = ghost['suites_ok'] and ghost['root_phase'] == 1 \
                         and ghost['suites_done'] == len(ghost['suites'])
    ghost['root_phase'] = 2


def _mon_final(ghost):
    ghost['suites_ok'] = ghost['suites_ok'] and ghost['root_phase'] == 2
    ghost['root_phase'] = 3


def _mon_new_sub_suite(ghost, suite, sub_reporter):
    n = ghost['suites_done']
    ghost['suites_ok'] = ghost['suites_ok'] and ghost['root_phase'] == 1 and 0 <= n and n < len(ghost['suites']) \
                         and suite.ident == ghost['suites'][n].ident
    ghost['suites_done'] = n + 1
    # the inner monitor now follows this suite
    ghost['cur_suite'] = suite
    ghost['cur_sub'] = sub_reporter
    ghost['cases'] = suite.test_cases
    ghost['k'] = 0
    ghost['phase'] = 0
    ghost['ok'] = True
    ghost['begun'] = False
    ghost['ended'] = False
    ghost['cur_processor'] = None


def _mon_suite_begin(ghost, progress):
    ghost['ok'] = ghost['ok'] and progress is ghost['cur_sub'].progress_reporter \
                  and (not ghost['begun']) and ghost['k'] == 0 and ghost['phase'] == 0
    ghost['begun'] = True


def _at_case(ghost, case, phase):
    k = ghost['k']
    return ghost['begun'] and (not ghost['ended']) and ghost['phase'] == phase and 0 <= k and k < len(ghost['cases']) \
        and case.ident == ghost['cases'][k].ident


def _mon_case_begin(ghost, progress, case):
    ghost['ok'] = ghost['ok'] and progress is ghost['cur_sub'].progress_reporter and _at_case(ghost, case, 0)
    ghost['phase'] = 1


def _mon_new_processor(ghost, configuration, processor):
    ghost['cur_processor'] = processor
    ghost['cur_processor_setup'] = configuration.default_handling_setup


def _mon_apply(ghost, processor, case):
    # the processor of this suite: made from the handling setup of the suite that lists the case
    ghost['ok'] = ghost['ok'] and processor is ghost['cur_processor'] \
                  and ghost['cur_processor_setup'] is ghost['cur_suite'].test_case_handling_setup \
                  and _at_case(ghost, case, 1)
    ghost['phase'] = 2


def _is_the_outcome(ghost, info):
    """the reported result is the one the processor returned, or INTERNAL_ERROR if it raised"""
    if ghost['raised']:
        return info.result.status is tcp.Status.INTERNAL_ERROR
    return info.result is ghost['last_result']


def _mon_progress_case_end(ghost, progress, case, info):
    ghost['ok'] = ghost['ok'] and progress is ghost['cur_sub'].progress_reporter and _at_case(ghost, case, 2) \
                  and _is_the_outcome(ghost, info)
    ghost['phase'] = 3


def _mon_sub_case_end(ghost, sub_reporter, case, info):
    ghost['ok'] = ghost['ok'] and sub_reporter is ghost['cur_sub'] and _at_case(ghost, case, 3) \
                  and _is_the_outcome(ghost, info)
    ghost['phase'] = 0
    ghost['k'] = ghost['k'] + 1


def _mon_suite_end(ghost, progress):
    ghost['cases_ok'] = ghost['cases_ok'] and ghost['ok'] and progress is ghost['cur_sub'].progress_reporter \
                        and ghost['begun'] and (not ghost['ended']) and ghost['phase'] == 0 \
                        and ghost['k'] == len(ghost['cases'])
    ghost['ended'] = True


def _monitored(fn, with_self=True):
    def model(interp, self, args, kwargs):
        interp.call(fn, [interp.st.ghost] + ([self] if with_self else []) + list(args), kwargs)
        return None

    return Method(model=model)


class ProgressI(Interface):
    target_class = reporting.SubSuiteProgressReporter
    methods = {
        'suite_begin': _monitored(_mon_suite_begin),
        'suite_end': _monitored(_mon_suite_end),
        'case_begin': _monitored(_mon_case_begin),
        'case_end': _monitored(_mon_progress_case_end),
    }


class SubSuiteReporterI(Interface):
    """reporting.SubSuiteReporter as the suite executor uses it.  The real class records every case_end
    (`SubSuiteReporter.case_end` below): result() is the list of the reported (case, info), in order."""
    target_class = reporting.SubSuiteReporter
    attrs = {'progress_reporter': Iface(ProgressI)}
    methods = {'case_end': _monitored(_mon_sub_case_end)}


def _new_sub_suite_reporter(interp, self, args, kwargs):
    (suite,) = args
    sub = new_opaque(interp, SubSuiteReporterI, 'sub_suite_reporter')
    interp.call(_mon_new_sub_suite, [interp.st.ghost, suite, sub], {})
    return sub


def _report_final_results(interp, self, args, kwargs):
    interp.call(_mon_final, [interp.st.ghost], {})
    r = Int.make(interp, 'final_exit_code')
    interp.st.ghost['final'] = r
    return r


class RootReporterI(Interface):
    target_class = reporting.RootSuiteReporter
    methods = {
        'root_suite_begin': _monitored(_mon_root_begin, with_self=False),
        'root_suite_end': _monitored(_mon_root_end, with_self=False),
        'new_sub_suite_reporter': Method(model=_new_sub_suite_reporter),
        'report_final_results': Method(model=_report_final_results),
    }


def _apply(interp, self, args, kwargs):
    """A test-case processor: returns a (well formed) Result or raises any Exception."""
    (case,) = args
    st = interp.st
    interp.call(_mon_apply, [st.ghost, self, case], {})
    st.ghost['n_applied'] = interp.binop(ast.Add, st.ghost['n_applied'], 1)      # cases executed in this run
    st.emit('apply', self, case)
    if st.choose(2) == 1:
        st.ghost['raised'] = True
        raise PyRaise(ArbitraryException('raised by the test-case processor'))
    r = RESULT.make(interp, 'apply()')
    st.ghost['raised'] = False
    st.ghost['last_result'] = r
    return r


class ProcessorI(Interface):
    target_class = tcp.Processor
    methods = {'apply': Method(model=_apply)}


M.assume('a test_case_processing.Processor returns a well formed Result or raises an Exception '
         '(ProcessorFromAccessorAndExecutor.apply: C18 proves it never raises and builds its result with the '
         'three constructors)')


def _new_processor(interp, self, args, kwargs):
    (configuration,) = args
    p = new_opaque(interp, ProcessorI, 'case_processor')
    interp.call(_mon_new_processor, [interp.st.ghost, configuration, p], {})
    return p


class ProcessorConstructorI(Interface):
    methods = {'__call__': Method(model=_new_processor)}


class DefaultConfI(Interface):
    target_class = case_processing.Configuration
    attrs = {'test_case_definition': Any_, 'os_services': Any_, 'mem_buff_size': Any_, 'is_keep_sandbox': Any_,
             'sandbox_root_dir_resolver': Any_, 'default_handling_setup': Any_}


EXECUTOR = Inst(processing.SuitesExecutor, _reporter=Iface(RootReporterI),
                _default_case_configuration=Iface(DefaultConfI),
                _test_case_processor_constructor=Iface(ProcessorConstructorI))

_INNER = {'ghost:cur_suite': Any_, 'ghost:cur_sub': Any_, 'ghost:cases': ListOf(CASE), 'ghost:k': Int,
          'ghost:phase': Int, 'ghost:ok': Bool, 'ghost:begun': Bool, 'ghost:ended': Bool, 'ghost:cases_ok': Bool,
          'ghost:raised': Bool, 'ghost:last_result': Any_, 'ghost:cur_processor': Any_,
          'ghost:cur_processor_setup': Any_, 'ghost:n_applied': Int}
_OUTER = {'ghost:root_phase': Int, 'ghost:suites_done': Int, 'ghost:suites_ok': Bool, 'ghost:final': Int}


def _set_suites(interp, args, ghosts):
    if 'suits_in_processing_order' in args:
        interp.st.ghost['suites'] = args['suits_in_processing_order']
    else:
        interp.st.ghost['suites'] = ListOf(SUITE).make(interp, 'ghost.suites')


def _effect_set_suites(ghost, suits_in_processing_order):
    ghost['suites'] = suits_in_processing_order


M.contract(P_PROC + ':_process_case', props=('C16', 'C18'),
           params=dict(case_processor=Iface(ProcessorI), case=CASE), inline=True,
           modifies=dict(_INNER),
           ensures={
               'the processor is applied exactly once, to this case': lambda case_processor, case, trace:
               [e for e in trace if e[0] == 'apply'] == [('apply', case_processor, case)],
               'its result, or INTERNAL_ERROR if it raised': lambda ret, ghost:
               (ret.status is tcp.Status.INTERNAL_ERROR) if ghost['raised'] else (ret is ghost['last_result']),
               'well formed': lambda ret: result_is_well_formed(ret),
           },
           raises_only=())

M.contract(P_PROC + ':_process_and_time', params=dict(case_processor=Iface(ProcessorI), case=CASE), inline=True,
           modifies=dict(_INNER),
           ensures={
               'the processor is applied exactly once, to this case': lambda case_processor, case, trace:
               [e for e in trace if e[0] == 'apply'] == [('apply', case_processor, case)],
               'info carries its result, or INTERNAL_ERROR if it raised': lambda ret, ghost:
               (ret.result.status is tcp.Status.INTERNAL_ERROR) if ghost['raised']
               else (ret.result is ghost['last_result']),
           },
           raises_only=())

M.contract(P_PROC + ':SuitesExecutor._configuration_for_cases_in_suite', params=dict(self=EXECUTOR, suite=SUITE),
           inline=True,
           ensures={
               'the handling setup of the suite that lists the cases; the rest from the default configuration':
                   lambda self, suite, ret:
                   ret.default_handling_setup is suite.test_case_handling_setup
                   and ret.test_case_definition is self._default_case_configuration.test_case_definition
                   and ret.os_services is self._default_case_configuration.os_services
                   and ret.mem_buff_size is self._default_case_configuration.mem_buff_size
                   and ret.is_keep_sandbox is self._default_case_configuration.is_keep_sandbox
                   and ret.sandbox_root_dir_resolver is self._default_case_configuration.sandbox_root_dir_resolver,
           }, raises_only=())

M.contract(P_PROC + ':SuitesExecutor._process_single_sub_suite', params=dict(self=EXECUTOR, suite=SUITE),
           setup=_set_suites, modifies=dict(_INNER, **_OUTER), old=lambda ghost: dict(ghost),
           ensures={
               'one sub-suite reporter, for this suite (outer protocol)': lambda suite, ghost, old:
               ghost['suites_done'] == old['suites_done'] + 1 and ghost['root_phase'] == old['root_phase']
               and ghost['suites_ok'] == (old['suites_ok'] and old['root_phase'] == 1
                                          and 0 <= old['suites_done'] and old['suites_done'] < len(ghost['suites'])
                                          and suite.ident == ghost['suites'][old['suites_done']].ident),
               'every listed case exactly once, in listing order: begin, process, end, record': lambda ghost, old:
               ghost['ended'] and ghost['cases_ok'] == old['cases_ok'],
           },
           raises_only=())

M.loop(P_PROC + ':SuitesExecutor._process_single_sub_suite', 0,
       invariant=lambda _i, ghost, suite, sub_suite_reporter, case_processor:
       ghost['ok'] and ghost['phase'] == 0 and ghost['k'] == _i and ghost['begun'] and not ghost['ended']
       and ghost['cur_sub'] is sub_suite_reporter and ghost['cases'] is suite.test_cases
       and ghost['cur_suite'] is suite and ghost['cur_processor'] is case_processor
       and ghost['cur_processor_setup'] is suite.test_case_handling_setup,
       modifies={'ghost:k': Int, 'ghost:phase': Int, 'ghost:ok': Bool, 'ghost:raised': Bool,
                 'ghost:last_result': Any_, 'ghost:n_applied': Int, 'case': 'local', 'processing_info': 'local'})

M.contract(P_PROC + ':SuitesExecutor.execute_and_report',
           params=dict(self=EXECUTOR, suits_in_processing_order=ListOf(SUITE)), returns=Int,
           setup=_set_suites, modifies=dict(_INNER, **dict(_OUTER, **{'ghost:suites': ListOf(SUITE)})),
           requires=lambda ghost: ghost['root_phase'] == 0 and ghost['suites_done'] == 0 and ghost['suites_ok']
                                  and ghost['cases_ok'],
           ensures={
               # at call sites the expectation of the monitor is set to the given list (then the clauses below
               # are assumed); when the function is verified `_set_suites` does the same and the next clause
               # checks that the function leaves it alone
               'monitor := the given suites': (_effect_set_suites, 'effect'),
               'the monitor expects the given suites': lambda ghost, suits_in_processing_order:
               ghost['suites'] is suits_in_processing_order,
               'begin, every suite once in the given order, end, final result': lambda ghost:
               ghost['suites_ok'] and ghost['root_phase'] == 3,
               'in every suite every listed case exactly once, in listing order': lambda ghost: ghost['cases_ok'],
               'exit code is the reporter\'s final result': lambda ghost, ret: ret == ghost['final'],
           },
           raises_only=())

M.loop(P_PROC + ':SuitesExecutor.execute_and_report', 0,
       invariant=lambda _i, ghost:
       ghost['suites_ok'] and ghost['cases_ok'] and ghost['root_phase'] == 1 and ghost['suites_done'] == _i,
       modifies=dict({k: v for k, v in list(_INNER.items()) + list(_OUTER.items()) if k != 'ghost:final'},
                     suite='local'))

# ------------------------------------------------------------------------------ reading fails / succeeds
from exactly_lib.common import process_result_reporter
from exactly_lib.test_suite import result_reporters
from exactly_lib.test_suite.file_reading import exception as suite_exception
from exactly_lib.test_suite.file_reading.suite_hierarchy_reading import SuiteHierarchyReader
from exactly_lib.util.file_printer import FilePrinter
from exactly_lib.util.file_utils.std import StdOutputFiles

_READ_ERRORS = (suite_exception.SuiteParseError, suite_exception.SuiteDoubleInclusion,
                suite_exception.SuiteFileReferenceError)


def _read(interp, self, args, kwargs):
    """SuiteHierarchyReader.apply: the hierarchy, or one of the three kinds of SuiteReadError (its docstring)"""
    st = interp.st
    k = st.choose(1 + len(_READ_ERRORS))
    if k == 0:
        suite = new_opaque(interp, SuiteI, 'root_suite')
        assume_pred(interp, _po_def, suite)
        st.ghost['read_failed'] = False
        st.ghost['read_suite'] = suite
        return suite
    exc = _READ_ERRORS[k - 1].__new__(_READ_ERRORS[k - 1])
    st.ghost['read_failed'] = True
    st.ghost['read_suite'] = None
    raise PyRaise(exc)


class ReaderI(Interface):
    target_class = SuiteHierarchyReader
    methods = {'apply': Method(model=_read)}


def _mon_invalid_suite(ghost, exit_value, environment):
    ghost['invalid_reported'] = ghost['invalid_reported'] + 1
    ghost['invalid_exit_value'] = exit_value


def _execution_reporter(interp, self, args, kwargs):
    """a new reporter for the run: nothing has happened on it yet"""
    g = interp.st.ghost
    g['execution_reporters'] = interp.binop(ast.Add, g['execution_reporters'], 1)
    g['root_phase'] = 0
    g['suites_done'] = 0
    g['suites_ok'] = True
    g['cases_ok'] = True
    return new_opaque(interp, RootReporterI, 'root_suite_reporter')


class RootProcessingReporterI(Interface):
    target_class = reporting.RootSuiteProcessingReporter
    methods = {
        'report_invalid_suite': _monitored(_mon_invalid_suite, with_self=False),
        'execution_reporter': Method(model=_execution_reporter),
    }


class FileI(Interface):
    """a text file (stdout / stderr)"""
    methods = {'flush': Method(event='flush'), 'write': Method(event='file-write')}


class PrinterI(Interface):
    target_class = FilePrinter
    methods = {
        'write_colored_line': Method(event='line', params=['line', 'color']),
        'write_line': Method(event='line', params=['line', 'indent']),
        'write': Method(event='write'),
        'flush': Method(event='flush'),
    }


def lines_on(trace, printer):
    """the lines written to `printer`, in order"""
    return [e[2][0] for e in trace if e[0] == 'line' and e[1] is printer]


def _mk_env(interp, name):
    files = StdOutputFiles(Iface(FileI).make(interp, name + '.stdout'), Iface(FileI).make(interp, name + '.stderr'))
    printers = process_result_reporter.StdOutputFilePrinters(Iface(PrinterI).make(interp, name + '.out'),
                                                             Iface(PrinterI).make(interp, name + '.err'))
    return process_result_reporter.Environment(files, printers)


ENVIRONMENT = Custom(_mk_env)

# assumed: rendering of the error message writes to the printer it is given (and does nothing else)
M.contract('exactly_lib.test_suite.error_reporting:print_suite_read_error', trusted=True, modifies={},
           params=dict(ex=Any_, printer=Iface(PrinterI)), event='print-suite-read-error')
M.trust('test_suite.error_reporting.print_suite_read_error renders the read error on the printer it is given and '
        'does nothing else (rendering of error messages is outside the property)')

PROCESSOR = Inst(processing.Processor,
                 _default_case_configuration=Iface(DefaultConfI), _suite_hierarchy_reader=Iface(ReaderI),
                 _suite_enumerator=Inst(enumeration.DepthFirstEnumerator), _reporter=Iface(RootProcessingReporterI),
                 _test_case_processor_constructor=Iface(ProcessorConstructorI))

_READ = {'ghost:read_failed': Bool, 'ghost:read_suite': Any_}
_INVALID = {'ghost:invalid_reported': Int, 'ghost:invalid_exit_value': Any_}
_RUN = dict(_INNER, **dict(_OUTER, **{'ghost:suites': ListOf(SUITE), 'ghost:execution_reporters': Int}))

M.contract(P_PROC + ':Processor.process_reporter', params=dict(self=PROCESSOR, suite_root_file_path=Iface(PathI)),
           inline=True, modifies=dict(_READ),
           ensures={
               'a read error gives the reporter of the read error': lambda self, ghost, ret:
               implies(ghost['read_failed'],
                       isinstance(ret, result_reporters.SuiteReadErrorReporter)
                       and ret._suite_processing_reporter is self._reporter),
               'otherwise the reporter that runs the hierarchy that was read': lambda self, ghost, ret:
               ghost['read_failed'] or (isinstance(ret, processing._SuiteExecutionReporter)
                                        and ret._root_suite is ghost['read_suite']
                                        and ret._suite_processing_reporter is self._reporter
                                        and ret._suite_enumerator is self._suite_enumerator
                                        and ret._test_case_processor_constructor
                                        is self._test_case_processor_constructor
                                        and ret._default_case_configuration is self._default_case_configuration),
           }, raises_only=())

READ_ERROR_REPORTER = Inst(result_reporters.SuiteReadErrorReporter, _ex=Any_,
                           _suite_processing_reporter=Iface(RootProcessingReporterI))

M.contract('exactly_lib.test_suite.result_reporters:SuiteReadErrorReporter.report',
           params=dict(self=READ_ERROR_REPORTER, environment=ENVIRONMENT), inline=True,
           modifies=dict(_INVALID), old=lambda ghost: dict(ghost),
           ensures={
               'INVALID_SUITE is reported (once) and its exit code 3 returned': lambda ghost, old, ret:
               ret == 3 and ghost['invalid_reported'] == old['invalid_reported'] + 1
               and ghost['invalid_exit_value'] is exit_values.INVALID_SUITE,
               'the error is rendered on stderr': lambda self, environment, trace:
               [e[1]['printer'] for e in trace if e[0] == 'print-suite-read-error']
               == [environment.std_file_printers.err],
               # frame (checked): no reporter of an execution is created, no case is processed
           }, raises_only=())

EXECUTION_REPORTER = Inst(processing._SuiteExecutionReporter,
                          _root_suite=SUITE, _suite_root_file_path=Iface(PathI),
                          _suite_processing_reporter=Iface(RootProcessingReporterI),
                          _suite_enumerator=Inst(enumeration.DepthFirstEnumerator),
                          _default_case_configuration=Iface(DefaultConfI),
                          _test_case_processor_constructor=Iface(ProcessorConstructorI))


def _runs_in_post_order(ghost, root):
    """the suites given to the executor are the hierarchy in post-order; the monitor accepted the run"""
    return ghost['suites_ok'] and ghost['cases_ok'] and ghost['root_phase'] == 3 \
        and len(ghost['suites']) == root.po_len \
        and forall_range(0, len(ghost['suites']), lambda k: ghost['suites'][k].ident == root.po(k))


def _assume_po_def_of_root(interp, args, ghosts):
    assume_pred(interp, _po_def, args['self']._root_suite)


M.contract(P_PROC + ':_SuiteExecutionReporter.report', params=dict(self=EXECUTION_REPORTER, environment=ENVIRONMENT),
           inline=True, setup=_assume_po_def_of_root, modifies=dict(_RUN), old=lambda ghost: dict(ghost),
           ensures={
               'one execution reporter': lambda ghost, old:
               ghost['execution_reporters'] == old['execution_reporters'] + 1,
               'every suite of the hierarchy once, sub-suites first; in each, every listed case once in order':
                   lambda self, ghost: _runs_in_post_order(ghost, self._root_suite),
               'exit code is the final result of the reporter': lambda ghost, ret: ret == ghost['final'],
           }, raises_only=())

M.contract(P_PROC + ':Processor.process',
           params=dict(self=PROCESSOR, suite_root_file_path=Iface(PathI), reporting_environment=ENVIRONMENT),
           returns=Int, modifies=dict(_RUN, **dict(_READ, **_INVALID)), old=lambda ghost: dict(ghost),
           ensures={
               'a suite that cannot be read: INVALID_SUITE, exit 3, no case executed': lambda ghost, old, ret:
               implies(ghost['read_failed'],
                       ret == 3 and ghost['invalid_reported'] == old['invalid_reported'] + 1
                       and ghost['invalid_exit_value'] is exit_values.INVALID_SUITE
                       and ghost['n_applied'] == old['n_applied']
                       and ghost['execution_reporters'] == old['execution_reporters']),
               'otherwise every suite once, sub-suites first; every listed case once in order': lambda ghost, old, ret:
               ghost['read_failed'] or (_runs_in_post_order(ghost, ghost['read_suite']) and ret == ghost['final']
                                        and ghost['invalid_reported'] == old['invalid_reported']),
           }, raises_only=())

# the real SubSuiteReporter records what it is told, in order (what SubSuiteReporterI.case_end stands for)
M.contract('exactly_lib.test_suite.reporting:SubSuiteReporter.case_end',
           params=dict(self=SUB_REPORTER, case=CASE, execution_info=INFO), inline=True,
           old=lambda self: len(self._result),
           ensures={
               'appends (case, info)': lambda self, case, execution_info, old:
               len(self._result) == old + 1 and self._result[old][0] is case
               and self._result[old][1] is execution_info and self.result() is self._result,
           }, raises_only=())

# ------------------------------------------------------------------------------ reading the hierarchy
from contracts.common import keys_subset
from pyvc.api import MapOf
from exactly_lib.section_document.model import ElementType
from exactly_lib.test_suite.file_reading import suite_hierarchy_reading
from exactly_lib.test_suite.instruction_set import instruction as suite_instruction

P_READ = 'exactly_lib.test_suite.file_reading.suite_hierarchy_reading'


def _mk_not_accessible(interp, o):
    e = suite_instruction.FileNotAccessibleSimpleError.__new__(suite_instruction.FileNotAccessibleSimpleError)
    e._file_path = Iface(PathI).make(interp, 'inaccessible_file')
    e._error_message_header = Str.make(interp, 'error_message_header')
    return e


class FileRefInstructionI(Interface):
    """TestSuiteFileReferencesInstruction: the paths it resolves to (a function of the instruction), or
    FileNotAccessibleSimpleError (its docstring)"""
    target_class = suite_instruction.TestSuiteFileReferencesInstruction
    methods = {'resolve_paths': Method(returns=ListOf(Iface(PathI)), pure=True, may_raise=(_mk_not_accessible,))}


class InstructionInfoI(Interface):
    attrs = {'instruction': Iface(FileRefInstructionI)}


class ElementI(Interface):
    attrs = {'element_type': EnumOf(ElementType), 'instruction_info': Iface(InstructionInfoI), 'source': Any_}


class SectionContentsI(Interface):
    attrs = {'elements': ListOf(Iface(ElementI))}


class SuiteDocumentI(Interface):
    attrs = {'suites_section': Iface(SectionContentsI), 'cases_section': Iface(SectionContentsI)}


def key(path):
    """what decides whether two references lead to the same suite file: the resolved path"""
    return path.resolve().ident


def _new_and_distinct(paths, n, before, now):
    """the first n paths were not in `before`, are pairwise different, and are in `now`"""
    return forall_range(0, n, lambda k: key(paths[k]) in now and key(paths[k]) not in before
                        and forall_range(0, k, lambda k2: key(paths[k2]) != key(paths[k])))


def _grown_by(x, paths, n, before, now):
    """as far as the (arbitrary, fixed) resolved path x goes: now = before + the first n paths"""
    return (x in now) == (x in before or exists_range(0, n, lambda k: key(paths[k]) == x))


SINGLE_FILE_READER = Inst(suite_hierarchy_reading._SingleFileReader, environment=Any_,
                          _root_suite_file_path=Iface(PathI), _visited=MapOf(Int, Any_))

M.contract(P_READ + ':_SingleFileReader.__init__',
           params=dict(self=Inst(suite_hierarchy_reading._SingleFileReader), environment=Any_,
                       root_suite_file_path=Iface(PathI)),
           ghosts=dict(x=Int), inline=True,
           ensures={
               'visited = {the root suite file}': lambda self, root_suite_file_path, x:
               (x in self._visited) == (x == key(root_suite_file_path)),
           }, raises_only=())

M.contract(P_READ + ':_SingleFileReader._resolve_paths',
           params=dict(self=SINGLE_FILE_READER, test_suite=Iface(SuiteDocumentI), suite_file_path=Iface(PathI)),
           ghosts=dict(x=Int), old=lambda self: self._visited.copy(),
           returns=FixedList(ListOf(Iface(PathI)), ListOf(Iface(PathI)), as_tuple=True),
           ensures={
               'accepted suite files were not visited before and are pairwise different (by resolved path)':
                   lambda self, result, old: _new_and_distinct(result[0], len(result[0]), old, self._visited),
               'visited grows by exactly the accepted suite files': lambda self, result, old, x:
               _grown_by(x, result[0], len(result[0]), old, self._visited) and keys_subset(old, self._visited),
           },
           raises={
               suite_exception.SuiteDoubleInclusion: {},      # a suite file referenced twice / cyclically
               suite_exception.SuiteFileReferenceError: {},   # a referenced file is not accessible
           },
           raises_only=())

_PFI = P_READ + ':_SingleFileReader._resolve_paths.<locals>.paths_for_instructions'
_CHK = P_READ + ':_SingleFileReader._resolve_paths.<locals>.check_suite_paths_for_double_inclusion'

M.loop(_PFI, 0, entry=lambda self: self._visited.copy(),
       invariant=lambda _entry, self, ret_val, paths_checker, no_check, x:
       keys_subset(_entry, self._visited)
       and (((x in self._visited) == (x in _entry)) if paths_checker is no_check else
            (_new_and_distinct(ret_val, len(ret_val), _entry, self._visited)
             and _grown_by(x, ret_val, len(ret_val), _entry, self._visited))),
       modifies={'ret_val': ListOf(Iface(PathI)), 'self._visited': MapOf(Int, Any_), 'element': 'local',
                 'path_instruction': 'local', 'paths': 'local', 'ex': 'local'})

M.loop(_CHK, 0, entry=lambda self: self._visited.copy(),
       invariant=lambda _i, _entry, self, paths_from_instruction, x:
       keys_subset(_entry, self._visited)
       and _new_and_distinct(paths_from_instruction, _i, _entry, self._visited)
       and _grown_by(x, paths_from_instruction, _i, _entry, self._visited),
       modifies={'self._visited': MapOf(Int, Any_), 'path': 'local', 'resolved_path': 'local'})

# --- one suite file and, recursively, the suite files it includes
from exactly_lib.section_document import exceptions as document_exceptions
from exactly_lib.test_suite.file_reading import suite_file_reading

P_SFR = 'exactly_lib.test_suite.file_reading.suite_file_reading'


class ReaderEnvironmentI(Interface):
    target_class = suite_hierarchy_reading.Environment
    attrs = {'configuration_section_parser': Any_, 'test_case_parsing_setup': Any_,
             'default_test_case_handling_setup': Any_}


def _mk_parse_error(interp, o):
    """some ParseError of the document parser (FileSourceError / FileAccessError): C07"""
    if interp.st.choose(2) == 0:
        e = document_exceptions.FileAccessError.__new__(document_exceptions.FileAccessError)
        e._erroneous_path = Any_.make(interp, 'erroneous_path')
        e._section_name = Opt(Str).make(interp, 'section_name')
    else:
        e = document_exceptions.FileSourceError.__new__(document_exceptions.FileSourceError)
        e._maybe_section_name = Opt(Str).make(interp, 'section_name')
        e._source_location_info = Any_.make(interp, 'source_location_info')
        e._source = Any_.make(interp, 'source')
    e._message = Str.make(interp, 'message')
    e._location_path = Any_.make(interp, 'location_path')
    return e


class SuiteFileParserI(Interface):
    """suite_file_reading._Parser: the parsed document, or a ParseError of the section document parser"""
    methods = {'apply': Method(returns=Iface(SuiteDocumentI), may_raise=(_mk_parse_error,))}


M.model(suite_file_reading._Parser, lambda interp, args, kwargs: new_opaque(interp, SuiteFileParserI, 'suite_parser'))
M.assume('the parser of a suite file (suite_file_reading._Parser.apply, i.e. the section document parser) returns the '
         'document or raises a section_document ParseError (syntax error, inaccessible file): C07')

M.contract(P_SFR + ':read_suite_document',
           params=dict(suite_file_path=Iface(PathI), configuration_section_parser=Any_, test_case_parsing_setup=Any_),
           returns=Iface(SuiteDocumentI), modifies={},
           raises={suite_exception.SuiteParseError: {}},      # a syntax error / unreadable suite file
           raises_only=())

# which handling setup a suite file gives its cases is C17
M.contract(P_SFR + ':resolve_test_case_handling_setup', trusted=True, modifies={},
           params=dict(test_suite=Any_, default_handling_setup=Any_), returns=Any_)
M.trust('suite_file_reading.resolve_test_case_handling_setup returns the handling setup of the suite (C17) and does '
        'not raise')

READER_IN_PROGRESS = Inst(suite_hierarchy_reading._SingleFileReader, environment=Iface(ReaderEnvironmentI),
                          _root_suite_file_path=Iface(PathI), _visited=MapOf(Int, Any_))

_READ_OUTCOMES = {suite_exception.SuiteParseError: {}, suite_exception.SuiteDoubleInclusion: {},
                  suite_exception.SuiteFileReferenceError: {}}

M.contract(P_READ + ':_SingleFileReader.__call__',
           params=dict(self=READER_IN_PROGRESS, inclusions=ListOf(Iface(PathI)), suite_file_path=Iface(PathI)),
           returns=Inst(structure.TestSuiteHierarchy,
                        _TestSuiteHierarchy__source_file=Iface(PathI),
                        _TestSuiteHierarchy__suite_file_inclusions_leading_to_this_file=Any_,
                        _TestSuiteHierarchy__test_case_handling_setup=Any_,
                        _TestSuiteHierarchy__sub_test_suites=ListOf(Any_),
                        _TestSuiteHierarchy__test_cases=ListOf(Any_)),
           # (the map of visited files is changed: declared, so that call sites forget what they knew about it and
           # learn only what the clause says -- found by the object-field frame check)
           old=lambda self: self._visited.copy(), modifies={'self._visited': MapOf(Int, Any_)},
           ensures={
               'suite files once visited stay visited': lambda self, old: keys_subset(old, self._visited),
           },
           raises=dict(_READ_OUTCOMES),     # nothing but the three kinds of SuiteReadError
           raises_only=())

M.loop(P_READ + ':_SingleFileReader.__call__', 'map#0', entry=lambda self: self._visited.copy(),
       invariant=lambda _i, _entry, self, out: keys_subset(_entry, self._visited) and len(out) == _i,
       modifies={'out': ListOf(Any_), 'self._visited': MapOf(Int, Any_), 'element': 'local'})
M.loop(P_READ + ':_SingleFileReader.__call__', 'map#1',
       invariant=lambda _i, out: len(out) == _i,
       modifies={'out': ListOf(Any_), 'element': 'local'})

M.contract(P_READ + ':_SingleFileReader.apply', params=dict(self=READER_IN_PROGRESS), inline=True,
           modifies={'self._visited': MapOf(Int, Any_)},
           old=lambda self: self._visited.copy(),
           ensures={'suite files once visited stay visited': lambda self, old: keys_subset(old, self._visited)},
           raises=dict(_READ_OUTCOMES), raises_only=())

M.contract(P_READ + ':Reader.apply',
           params=dict(self=Inst(suite_hierarchy_reading.Reader, _environment=Iface(ReaderEnvironmentI)),
                       suite_file_path=Iface(PathI)), modifies={},
           raises=dict(_READ_OUTCOMES),     # SuiteHierarchyReader.apply: ":raises SuiteReadError", nothing else
           raises_only=())

# ------------------------------------------------------------------------------ file names of an instruction
import stat as _stat

from exactly_lib.test_suite.instruction_set import utils as suite_utils
from exactly_lib.test_suite.instruction_set.sections import suites as suites_section, cases as cases_section
from exactly_lib.definitions.test_suite import file_names

P_UTILS = 'exactly_lib.test_suite.instruction_set.utils'
NOT_ACCESSIBLE = suite_instruction.FileNotAccessibleSimpleError

M.assume('Path.stat() returns a stat result or raises FileNotFoundError / NotADirectoryError / PermissionError '
         '(os.stat: OSError); Path.glob lists the matches in arbitrary order; paths are totally ordered')

def _stat_replay(qualified):
    def replay(model, rf):
        return _STAT_REPLAY % qualified

    return replay


_STAT_REPLAY = '''
import importlib, pathlib, tempfile
from exactly_lib.test_suite.instruction_set.instruction import FileNotAccessibleSimpleError
module, name = %r
resolver = getattr(importlib.import_module(module), name)
d = pathlib.Path(tempfile.mkdtemp())
(d / 'a-regular-file').write_text('')
reference = d / 'a-regular-file' / 'sub.suite'      # a missing file, below something that is not a directory
try:
    print('returned', resolver(reference)); sys.exit(0)
except FileNotAccessibleSimpleError as e:
    print('FileNotAccessibleSimpleError (reported as a suite read error)'); sys.exit(0)
except Exception as e:
    print('escapes as', repr(e), '-- not a FileNotAccessibleSimpleError: the suite run ends with a traceback '
          'instead of INVALID_SUITE'); sys.exit(1)
'''

M.contract(P_UTILS + ':single_regular_file_resolver', params=dict(path=Iface(PathI)), returns=Iface(PathI),
           replay=_stat_replay(('exactly_lib.test_suite.instruction_set.utils', 'single_regular_file_resolver')),
           ensures={'the path itself, which is a regular file': lambda path, result:
           result is path and _stat.S_ISREG(path.stat().st_mode)},
           raises={NOT_ACCESSIBLE: {}},       # missing, or not a regular file: reported as a suite read error
           raises_only=())

M.contract('exactly_lib.test_suite.instruction_set.sections.suites:regular_file_or_default_suite_file',
           params=dict(path=Iface(PathI)), returns=Iface(PathI),
           replay=_stat_replay(('exactly_lib.test_suite.instruction_set.sections.suites',
                                'regular_file_or_default_suite_file')),
           ensures={'the regular file, or the default suite file of the directory': lambda path, result:
           (result is path and _stat.S_ISREG(path.stat().st_mode))
           or (result is path / file_names.DEFAULT_SUITE_FILE and _stat.S_ISDIR(path.stat().st_mode)
               and result.is_file())},
           raises={NOT_ACCESSIBLE: {}},
           raises_only=())

M.contract(P_UTILS + ':is_wildcard_pattern', params=dict(instruction_text=Str), inline=True,
           ensures={'contains * ? or [': lambda instruction_text, result:
           result == ('*' in instruction_text or '?' in instruction_text or '[' in instruction_text)},
           raises_only=())


def _resolve_one(interp, self, args, kwargs):
    (path,) = args
    if not interp.branch(interp.reg.call_opaque(interp, self, 'accessible', [path], {})):
        raise PyRaise(_mk_not_accessible(interp, self))
    return interp.reg.call_opaque(interp, self, 'resolved', [path], {})


class PathResolverI(Interface):
    """SinglePathResolver: a function of the path -- the accessible file the path stands for (`resolved`), or
    FileNotAccessibleSimpleError when there is none (`accessible`).  single_regular_file_resolver and
    regular_file_or_default_suite_file are the two resolvers in use (contracts above)."""
    methods = {
        'accessible': Method(returns=Bool, pure=True),
        'resolved': Method(returns=Iface(PathI), pure=True),
        '__call__': Method(model=_resolve_one),
    }


def resolved(resolver, path):
    """the file `path` stands for (for an accessible path)"""
    return resolver.resolved(path) if is_opaque(resolver) else resolver(path)


class InstructionEnvI(Interface):
    target_class = suite_instruction.Environment
    attrs = {'suite_file_dir_path': Iface(PathI)}


M.contract(P_UTILS + ':FileNamesResolverForPlainFileName.resolve',
           params=dict(self=Inst(suite_utils.FileNamesResolverForPlainFileName, path_resolver=Iface(PathResolverI),
                                 file_name=Str), environment=Iface(InstructionEnvI)),
           returns=ListOf(Iface(PathI)),
           ensures={'the one file the name stands for, relative to the directory of the suite file':
                    lambda self, environment, result:
                    len(result) == 1
                    and result[0] is resolved(self.path_resolver, environment.suite_file_dir_path / self.file_name)},
           raises={NOT_ACCESSIBLE: {}}, raises_only=())

M.contract(P_UTILS + ':FileNamesResolverForGlobPattern.resolve',
           params=dict(self=Inst(suite_utils.FileNamesResolverForGlobPattern, path_resolver=Iface(PathResolverI),
                                 pattern=Str), environment=Iface(InstructionEnvI)),
           returns=ListOf(Iface(PathI)),
           ensures={
               'one file per match of the pattern': lambda self, environment, result:
               len(result) == len(environment.suite_file_dir_path.glob(self.pattern)),
               'sorted': lambda result: forall_range(0, len(result) - 1, lambda k: result[k] <= result[k + 1]),
               'each is the file a match stands for': lambda self, environment, result:
               forall_range(0, len(result), lambda k: exists_range(
                   0, len(result),
                   lambda i: result[k] is resolved(self.path_resolver,
                                                   environment.suite_file_dir_path.glob(self.pattern)[i]))),
           },
           raises={NOT_ACCESSIBLE: {}}, raises_only=())

# ------------------------------------------------------------------------------ final results of the two reporters

class StdFilesI(Interface):
    target_class = StdOutputFiles
    attrs = {'out': Iface(FileI), 'err': Iface(FileI)}


PROGRESS_ROOT_IO = Inst(spr.SimpleProgressRootSuiteReporter,
                        _std_output_files=Iface(StdFilesI), _output_file=Iface(PrinterI),
                        _error_file=Iface(PrinterI), _sub_reporters=ListOf(SUB_REPORTER), _start_time=Any_,
                        _total_time_timedelta=Any_, _root_suite_dir_abs_path=Any_)

# assumed: the summary on stderr is rendering only (number of tests, time, the failing cases by identifier)
M.contract(P_SPR + ':format_final_result_for_valid_suite', trusted=True, modifies={},
           params=dict(num_cases=Int, elapsed_time=Any_, relativity_root_abs_path=Any_, errors=Any_),
           returns=FixedList(Str))
M.trust('simple_progress_reporter.format_final_result_for_valid_suite returns lines of text (the summary on stderr: '
        'rendering only)')


def _every_case_successful(reporter):
    return forall_range(0, len(reporter._sub_reporters), lambda a: all_successful(reporter._sub_reporters[a]))


M.contract(P_SPR + ':SimpleProgressRootSuiteReporter.report_final_results', params=dict(self=PROGRESS_ROOT_IO),
           returns=Int,
           ensures={
               'exit code 0 iff every case ended PASS, SKIPPED or XFAIL, else 4': lambda self, ret:
               (ret == 0) == _every_case_successful(self) and (ret == 0 or ret == 4),
               'the identifier OK / ERROR, accordingly, is the last (and only) line on stdout': lambda self, ret, trace:
               lines_on(trace, self._output_file) == ['OK' if ret == 0 else 'ERROR']
               and [e for e in trace if e[0] == 'write' and e[1] is self._output_file] == [],
           }, raises_only=())

M.contract(P_SPR + ':SimpleProgressRootSuiteProcessingReporter.report_invalid_suite',
           params=dict(self=Inst(spr.SimpleProgressRootSuiteProcessingReporter),
                       exit_value=Const(exit_values.INVALID_SUITE), reporting_environment=ENVIRONMENT),
           inline=True,
           ensures={'prints INVALID_SUITE on stdout': lambda reporting_environment, trace:
           lines_on(trace, reporting_environment.std_file_printers.out) == ['INVALID_SUITE']},
           raises_only=())


# --- JUnit: the document

class JSuiteI(Interface):
    """TestSuiteHierarchy as the JUnit reporter reads it"""
    target_class = structure.TestSuiteHierarchy
    attrs = {'test_cases': ListOf(CASE), 'source_file': Iface(PathI)}


J_SUB_REPORTER = Inst(reporting.SubSuiteReporter, _suite=Iface(JSuiteI), _listener=Any_, _result=ListOf(ENTRY),
                      _start_time=Iface(DateTimeI))


def suite_element_ok(e, reporter):
    """the counts `_xml_for_suite` promises of the element of one suite (its testcase children: see there)"""
    results = reporter._result
    return e.attrib['tests'] == str(len(results)) \
        and nat_of_str(e.attrib['failures']) + nat_of_str(e.attrib['errors']) \
        == count_prefix(results, len(results), entry_unsuccessful) \
        and len(e.children) == len(results) + 3


def _mk_junit_with_root_among_the_reporters(interp, name):
    """the reporter of the root suite is one of the sub-suite reporters (the executor makes one for every
    suite of the hierarchy), or -- more generally -- none of them is"""
    r = object.__new__(junit.JUnitRootSuiteReporter)
    reporters = ListOf(J_SUB_REPORTER).make(interp, name + '._sub_reporters')
    r._sub_reporters = reporters
    st = interp.st
    if st.choose(2) == 0:
        from pyvc import models as _models
        k = st.fresh_int(name + '.index_of_root')
        st.assume(k >= 0)
        st.assume(k < reporters.length)
        r._root_suite = _models.slist_elem(interp, reporters, k)._suite
    else:
        r._root_suite = Iface(JSuiteI).make(interp, name + '._root_suite')
    r._std_output_files = Iface(StdFilesI).make(interp, name + '._std_output_files')
    r._output_file = Any_.make(interp, name + '._output_file')
    r._error_file = Any_.make(interp, name + '._error_file')
    r._start_time = None
    r._total_time_timedelta = None
    r._root_suite_dir_abs_path = Iface(PathI).make(interp, name + '._root_suite_dir_abs_path')
    r._host_name = Str.make(interp, name + '._host_name')
    return r


JUNIT_ROOT_IO = Custom(_mk_junit_with_root_among_the_reporters)


def _included(reporter, root_suite):
    """every suite gets an element, except a root suite without cases of its own"""
    return not (reporter._suite is root_suite and len(root_suite.test_cases) == 0)


M.contract(P_JUNIT + ':JUnitRootSuiteReporter._package_and_name',
           params=dict(self=JUNIT_ROOT_IO, suite=Iface(JSuiteI)), returns=FixedList(Str, Str, as_tuple=True),
           ensures={'two strings': lambda result: isinstance(result[0], str) and isinstance(result[1], str)},
           raises_only=())

M.contract(P_JUNIT + ':JUnitRootSuiteReporter._xml_for_suites',
           params=dict(self=JUNIT_ROOT_IO),
           returns=Inst(etree_model.Element, tag=Str, attrib=Any_, children=ListOf(XML_SUITE), text=Any_, tail=Any_),
           setup=lambda interp, args, ghosts: args.update(root_suite=args['self']._root_suite,
                                                          suite_reporters=args['self']._sub_reporters),
           ensures={
               'testsuites: one element per suite, except a root suite without cases': lambda self, result:
               result.tag == 'testsuites'
               and len(result.children) == count_prefix(self._sub_reporters, len(self._sub_reporters), _included,
                                                        self._root_suite),
               'in the order of the run, each with the counts of its suite': lambda self, result:
               forall_range(0, len(self._sub_reporters), lambda i:
                            (not _included(self._sub_reporters[i], self._root_suite))
                            or suite_element_ok(result.children[count_prefix(self._sub_reporters, i, _included,
                                                                             self._root_suite)],
                                                self._sub_reporters[i])),
           }, raises_only=())

M.loop(P_JUNIT + ':JUnitRootSuiteReporter._xml_for_suites', 0,
       invariant=lambda _i, self, root, next_suite_id:
       next_suite_id == 1 + len(root.children)
       and len(root.children) == count_prefix(self._sub_reporters, _i, _included, self._root_suite)
       and forall_range(0, _i, lambda i:
                        (not _included(self._sub_reporters[i], self._root_suite))
                        or suite_element_ok(root.children[count_prefix(self._sub_reporters, i, _included,
                                                                       self._root_suite)],
                                            self._sub_reporters[i])),
       modifies={'next_suite_id': Int, '@root': None, 'root.children': ListOf(XML_SUITE),
                 'suite_reporter': 'local', 'package_name': 'local', 'name': 'local'})

def _written_to(trace, file):
    return [e[2][0] for e in trace if e[0] == 'file-write' and e[1] is file]


M.contract(P_JUNIT + ':JUnitRootSuiteReporter.report_final_results', params=dict(self=JUNIT_ROOT_IO), returns=Int,
           ensures={
               'exit code 0 whatever the outcome': lambda ret: ret == 0,
               'one document on stdout, then a line separator': lambda self, trace:
               len(_written_to(trace, self._std_output_files.out)) == 2
               and isinstance(_written_to(trace, self._std_output_files.out)[0], etree_model.XmlDocument),
               'a single suite: its testsuite element with its counts': lambda self, trace:
               len(self._sub_reporters) != 1
               or suite_element_ok(_written_to(trace, self._std_output_files.out)[0].root, self._sub_reporters[0]),
               'otherwise testsuites: one element per suite, except a root suite without cases': lambda self, trace:
               len(self._sub_reporters) == 1
               or (_written_to(trace, self._std_output_files.out)[0].root.tag == 'testsuites'
                   and len(_written_to(trace, self._std_output_files.out)[0].root.children)
                   == count_prefix(self._sub_reporters, len(self._sub_reporters), _included, self._root_suite)),
           }, raises_only=())

# the two real root reporters implement RootReporterI.new_sub_suite_reporter: a new SubSuiteReporter of the
# suite, without results, appended to the reporters of the run (whose results the final report reads)
for _qn, _shape in ((P_SPR + ':SimpleProgressRootSuiteReporter.new_sub_suite_reporter', PROGRESS_ROOT_IO),
                    (P_JUNIT + ':JUnitRootSuiteReporter.new_sub_suite_reporter', JUNIT_ROOT_IO)):
    M.contract(_qn, params=dict(self=_shape, sub_suite=SUITE), inline=True, modifies={},
               old=lambda self: len(self._sub_reporters),
               ensures={
                   'a new reporter of this suite, without results, is appended to the reporters of the run':
                       lambda self, sub_suite, old, ret:
                       len(self._sub_reporters) == old + 1 and self._sub_reporters[old] is ret
                       and isinstance(ret, reporting.SubSuiteReporter) and ret.suite is sub_suite
                       and len(ret.result()) == 0,
               }, raises_only=())

@M.check('exit-values')
def _exit_values(ctx):
    for name, ev, code, ident in (('ALL_PASS', exit_values.ALL_PASS, 0, 'OK'),
                                  ('FAILED_TESTS', exit_values.FAILED_TESTS, 4, 'ERROR'),
                                  ('INVALID_SUITE', exit_values.INVALID_SUITE, 3, 'INVALID_SUITE')):
        ctx.obligation('exit value %s is %s / %d' % (name, ident, code),
                       ev.exit_code == code and ev.exit_identifier == ident, 'enumeration',
                       detail={'exit_code': ev.exit_code, 'exit_identifier': ev.exit_identifier})
    ctx.obligation('JUnit reporter: exit code 0 whatever the outcome', junit.UNCONDITIONAL_EXIT_CODE == 0,
                   'enumeration')


# ------------------------------------------------------------------------------ the status partition

@M.check('status-partition')
def _partition(ctx):
    """every FullExeResultStatus is successful (progress reporter) xor counted as failure or error (JUnit):
    'the two reporters agree'.  Finite obligation on the three real constants."""
    for s in FullExeResultStatus:
        succ = s in spr.SUCCESS_STATUSES
        unsucc = (s in junit.FAIL_STATUSES) != (s in junit.ERROR_STATUSES)
        ctx.obligation('status partition: %s is in SUCCESS_STATUSES xor in exactly one of FAIL_STATUSES / ERROR_STATUSES'
                       % s.name, succ != unsucc and not (s in junit.FAIL_STATUSES and s in junit.ERROR_STATUSES),
                       'enumeration',
                       detail={'status': s.name, 'success': succ, 'fail': s in junit.FAIL_STATUSES,
                               'error': s in junit.ERROR_STATUSES},
                       replay=_PARTITION_REPLAY % s.name)
    ctx.obligation('SUCCESS_STATUSES is {PASS, SKIPPED, XFAIL} (the statement)',
                   {s.name for s in spr.SUCCESS_STATUSES} == set(SUCCESSFUL), 'enumeration')


_PARTITION_REPLAY = '''
import io, datetime, pathlib
from xml.etree import ElementTree as ET
from exactly_lib.execution.full_execution.result import FullExeResultStatus, FullExeResult
from exactly_lib.processing import test_case_processing as tcp
from exactly_lib.test_suite import reporting, structure
from exactly_lib.test_suite.reporters import junit, simple_progress_reporter as spr
from exactly_lib.util.file_utils.std import StdOutputFiles
status = FullExeResultStatus[%r]
root = pathlib.Path('/suite-dir')
suite = structure.TestSuiteHierarchy(root / 'a.suite', [], None, [], [])
case = tcp.test_case_reference_of_source_file(root / 'a.case')
info = reporting.TestCaseProcessingInfo(tcp.new_executed(FullExeResult(status, None, None, None)),
                                        datetime.timedelta(0))
def run(reporter):
    reporter.root_suite_begin()
    sub = reporter.new_sub_suite_reporter(suite)
    sub.case_end(case, info)
    reporter.root_suite_end()
    return reporter
out, err = io.StringIO(), io.StringIO()
p = run(spr.SimpleProgressRootSuiteReporter(StdOutputFiles(out, err), root))
_, _, exit_value = p._valid_suite_exit_value()
progress_ok = exit_value.exit_identifier == 'OK'
out, err = io.StringIO(), io.StringIO()
j = run(junit.JUnitRootSuiteReporter(suite, StdOutputFiles(out, err), root))
try:
    j.report_final_results()
    xml = ET.fromstring(out.getvalue().split('?>', 1)[1])
    counted = int(xml.get('failures')) + int(xml.get('errors'))
    child = [c.tag for tc in xml.iter('testcase') for c in tc]
except Exception as e:
    print('junit reporter raised', repr(e)); counted = None; child = None
print('status', status.name, ': progress reporter says', exit_value.exit_identifier,
      '; junit failures+errors =', counted, '; children of testcase:', child)
sys.exit(1 if (counted is None or progress_ok != (counted == 0) or (counted == 1) != (len(child) == 1)) else 0)
'''


# Assumed summaries of this module that follow from contracts PROVED for another property (Module.implied_by, ENGINE.md):
# the refinement obligations are generated by this property's check and the proved contract is re-proved here.
M.implied_by('exactly_lib.test_suite.file_reading.suite_file_reading:resolve_test_case_handling_setup', 'C17')
