"""C16 -- suite run: every case once, verdict OK iff all succeed, reporters agree.  See DESIGN.md section 3 / C16."""
from pyvc.api import (Module, Interface, Method, Iface, Inst, Int, Nat, Bool, Str, Opt, OneOf, Const, Union,
                      ListOf, FixedList, Any_, EnumOf, Custom, new_opaque, assume_pred)
from contracts.common import implies, iff, forall_range, exists_range

from exactly_lib.common.exit_value import ExitValue
from exactly_lib.execution.full_execution.result import FullExeResultStatus, FullExeResult
from exactly_lib.processing import test_case_processing as tcp
from exactly_lib.test_suite import exit_values, reporting, structure
from exactly_lib.test_suite.reporters import simple_progress_reporter as spr
from exactly_lib.test_suite.reporters import junit
from exactly_lib.util.ansi_terminal_color import ForegroundColor

M = Module('C16')

P_SPR = 'exactly_lib.test_suite.reporters.simple_progress_reporter'
P_JUNIT = 'exactly_lib.test_suite.reporters.junit'

# ------------------------------------------------------------------------------ oracle (from the property statement)

SUCCESSFUL = ('PASS', 'SKIPPED', 'XFAIL')


def successful(r):
    """the case ended PASS, SKIPPED or XFAIL"""
    return r.status is tcp.Status.EXECUTED and r.execution_result.status.name in SUCCESSFUL


def entry_successful(entry):
    """entry: (case, processing info) as recorded by SubSuiteReporter.case_end"""
    return successful(entry[1].result)


def all_successful(rep):
    return forall_range(0, len(rep._result), lambda b: entry_successful(rep._result[b]))


# ------------------------------------------------------------------------------ shapes

def result_is_well_formed(result):
    """error_type is given iff ACCESS_ERROR, execution_result iff EXECUTED (docstring of Result; the three
    constructors establish it: proved in C02 `well-formed`)."""
    return iff(result.status is tcp.Status.ACCESS_ERROR, result.access_error_type is not None) \
        and iff(result.status is tcp.Status.EXECUTED, result.execution_result is not None)


FULL_EXE_RESULT = Inst(FullExeResult,
                       _FullExeResult__status=EnumOf(FullExeResultStatus),
                       _ResultBase__sds=Any_,
                       _ResultBase__action_to_check_outcome=Any_,
                       _ResultBase__failure_info=Any_)

RESULT = Inst(tcp.Result, _invariant=result_is_well_formed,
              _tuple=[EnumOf(tcp.Status), Any_, Opt(EnumOf(tcp.AccessErrorType)), Opt(FULL_EXE_RESULT)])

M.assume('every test_case_processing.Result handed to a reporter is well formed (access_error_type iff ACCESS_ERROR, '
         'execution_result iff EXECUTED): results are built by new_internal_error/new_access_error/new_executed only '
         '(C02 proves `well-formed` of the three constructors)')


class PathI(Interface):
    """pathlib.Path as far as the reporters use it (presentation of file names)"""
    methods = {
        'relative_to': Method(returns=Iface(lambda: PathI), may_raise=(ValueError,)),
        '__str__': Method(returns=Str),
        'resolve': Method(returns=Iface(lambda: PathI)),
    }
    attrs = {'parent': Iface(lambda: PathI), 'name': Str, 'parts': Any_}


class DurationI(Interface):
    """datetime.timedelta"""
    methods = {
        '__add__': Method(returns=Iface(lambda: DurationI)),
        '__radd__': Method(returns=Iface(lambda: DurationI)),
        'total_seconds': Method(returns=Any_),
    }


class DateTimeI(Interface):
    methods = {'replace': Method(returns=Iface(lambda: DateTimeI)), 'isoformat': Method(returns=Str)}


class CaseI(Interface):
    """TestCaseFileReference; `ident` is a ghost name for the identity of the listed case."""
    target_class = tcp.TestCaseFileReference
    attrs = {'ident': Int, 'file_path': Iface(PathI), 'path_relativity_root_dir': Iface(PathI)}


CASE = Iface(CaseI)
INFO = Inst(reporting.TestCaseProcessingInfo, _tuple=[RESULT, Iface(DurationI)])
ENTRY = FixedList(CASE, INFO, as_tuple=True)

SUB_REPORTER = Inst(reporting.SubSuiteReporter, _suite=Any_, _listener=Any_, _result=ListOf(ENTRY),
                    _start_time=Iface(DateTimeI))

SUITE_EXIT_VALUE = OneOf(exit_values.ALL_PASS, exit_values.FAILED_TESTS)


# ------------------------------------------------------------------------------ progress reporter: the verdict

class _ErrListI(Interface):
    """the list of cases per exit identifier (only appended to)"""
    methods = {'append': Method()}


class _ErrorsI(Interface):
    """`errors`: exit identifier -> cases, used for the listing on stderr only (contents not specified here)"""
    methods = {'setdefault': Method(returns=Iface(_ErrListI))}


def _n_results(rep):
    return len(rep._result)


PROGRESS_ROOT = Inst(spr.SimpleProgressRootSuiteReporter,
                     _std_output_files=Any_, _output_file=Any_, _error_file=Any_,
                     _sub_reporters=ListOf(SUB_REPORTER), _start_time=Any_, _total_time_timedelta=Any_,
                     _root_suite_dir_abs_path=Any_)

from contracts.common import sum_prefix, count_prefix

M.contract(P_SPR + ':SimpleProgressRootSuiteReporter._valid_suite_exit_value',
           params=dict(self=PROGRESS_ROOT),
           returns=FixedList(Int, Any_, SUITE_EXIT_VALUE, as_tuple=True),
           ensures={
               'OK iff every case ended PASS, SKIPPED or XFAIL, else ERROR': lambda self, result:
               (result[2] is exit_values.ALL_PASS) == forall_range(0, len(self._sub_reporters),
                                                                    lambda a: all_successful(self._sub_reporters[a]))
               and (result[2] is exit_values.ALL_PASS or result[2] is exit_values.FAILED_TESTS),
               'number of tests is the number of recorded cases': lambda self, result:
               result[0] == sum_prefix(self._sub_reporters, len(self._sub_reporters), _n_results),
           },
           raises_only=())

M.loop(P_SPR + ':SimpleProgressRootSuiteReporter._valid_suite_exit_value', 0,
       invariant=lambda self, _i, num_tests, exit_value:
       (exit_value is exit_values.ALL_PASS) == forall_range(0, _i, lambda a: all_successful(self._sub_reporters[a]))
       and num_tests == sum_prefix(self._sub_reporters, _i, _n_results),
       modifies=dict(num_tests=Int, exit_value=SUITE_EXIT_VALUE, errors=Iface(_ErrorsI),
                     suite_reporter='local', case_setup='local', processing_info='local', result='local',
                     case_exit_value='local'))

M.loop(P_SPR + ':SimpleProgressRootSuiteReporter._valid_suite_exit_value', 1,
       invariant=lambda self, _i, _i_0, num_tests, exit_value, suite_reporter:
       (exit_value is exit_values.ALL_PASS) == (
               forall_range(0, _i_0, lambda a: all_successful(self._sub_reporters[a]))
               and forall_range(0, _i, lambda b: entry_successful(suite_reporter._result[b])))
       and num_tests == sum_prefix(self._sub_reporters, _i_0, _n_results) + _i,
       modifies=dict(num_tests=Int, exit_value=SUITE_EXIT_VALUE, errors=Iface(_ErrorsI),
                     case_setup='local', processing_info='local', result='local', case_exit_value='local'))


# ------------------------------------------------------------------------------ JUnit reporter
from pyvc.pymodels import etree_model
from contracts.common import nat_of_str

M.trust('xml.etree.ElementTree.Element/SubElement store the tag, attributes, text and sub-elements they are given, '
        'in order (pyvc/pymodels/etree_model.py)')


def entry_unsuccessful(entry):
    return not entry_successful(entry)


def has_problem_child(e):
    """the testcase element carries a failure or error element (and nothing else)"""
    return len(e.children) == 1 and e.children[0].tag in ('failure', 'error')


def case_element_ok(e, entry):
    return e.tag == 'testcase' and has_problem_child(e) == (not entry_successful(entry))


XML_LEAF = Inst(etree_model.Element, tag=Str, attrib=Any_, children=Any_, text=Any_, tail=Any_)
XML_CASE = Inst(etree_model.Element, tag=Str, attrib=Any_, children=ListOf(XML_LEAF), text=Any_, tail=Any_)

JUNIT_ROOT = Inst(junit.JUnitRootSuiteReporter,
                  _root_suite=Any_, _std_output_files=Any_, _output_file=Any_, _error_file=Any_,
                  _sub_reporters=ListOf(SUB_REPORTER), _start_time=Any_, _total_time_timedelta=Any_,
                  _root_suite_dir_abs_path=Iface(PathI), _host_name=Str)

# rendering of error messages is outside this property (C18: total on every failure shape)
M.contract('exactly_lib.common.result_reporting:error_message_for_full_result', trusted=True,
           params=dict(the_full_result=Any_), returns=Str)
M.contract('exactly_lib.common.result_reporting:error_message_for_error_info', trusted=True,
           params=dict(error_info=Any_), returns=Str)
M.trust('common.result_reporting.error_message_for_full_result / error_message_for_error_info return a string '
        '(rendering of error messages: C18)')

M.contract(P_JUNIT + ':JUnitRootSuiteReporter._file_path_pres', params=dict(self=JUNIT_ROOT, file=Iface(PathI)),
           returns=Str, ensures={'a string': lambda result: isinstance(result, str)}, raises_only=())


def verdict_name(result):
    if result.status is tcp.Status.EXECUTED:
        return result.execution_result.status.name
    if result.status is tcp.Status.ACCESS_ERROR:
        return result.access_error_type.name
    return 'INTERNAL_ERROR'


M.contract(P_JUNIT + ':_error_type', params=dict(result=RESULT), inline=True,
           ensures={'the verdict of the case': lambda result, ret: ret == verdict_name(result)}, raises_only=())

def _statuses_of_model(model):
    """candidate execution statuses of the counter-model (scalar or per-index values of `...status.idx`)"""
    import re
    all_statuses = list(FullExeResultStatus)
    out = []
    for k, v in model.items():
        if k.endswith('_FullExeResult__status.idx'):
            for n in ([v] if isinstance(v, int) else [int(x) for x in re.findall(r'-> (\d+)', str(v))]):
                if 0 <= n < len(all_statuses) and all_statuses[n].name not in out:
                    out.append(all_statuses[n].name)
    return out or [x.name for x in all_statuses]


def _junit_replay(model, rf):
    return _JUNIT_REPLAY % (_statuses_of_model(model),)


_JUNIT_REPLAY = '''
import io, datetime, pathlib
from exactly_lib.execution.full_execution.result import FullExeResultStatus, FullExeResult
from exactly_lib.processing import test_case_processing as tcp
from exactly_lib.test_suite import reporting, structure
from exactly_lib.test_suite.reporters import junit
from exactly_lib.util.file_utils.std import StdOutputFiles
SUCCESSFUL = ('PASS', 'SKIPPED', 'XFAIL')
root = pathlib.Path('/suite-dir')
suite = structure.TestSuiteHierarchy(root / 'a.suite', [], None, [], [])
case = tcp.test_case_reference_of_source_file(root / 'a.case')
bad = []
for name in %r:
    status = FullExeResultStatus[name]
    info = reporting.TestCaseProcessingInfo(tcp.new_executed(FullExeResult(status, None, None, None)),
                                            datetime.timedelta(0))
    reporter = junit.JUnitRootSuiteReporter(suite, StdOutputFiles(io.StringIO(), io.StringIO()), root)
    sub = reporter.new_sub_suite_reporter(suite)
    sub.case_end(case, info)
    try:
        xml = reporter._xml_for_suite(sub, 'a.suite')
        counted = int(xml.get('failures')) + int(xml.get('errors'))
        children = [c.tag for tc in xml.iter('testcase') for c in tc]
    except Exception as e:
        print(name, ': junit reporter raised', repr(e)); bad.append(name); continue
    unsuccessful = 0 if name in SUCCESSFUL else 1
    print('executed case with status', name, ': tests =', xml.get('tests'), ' failures+errors =', counted,
          ' children of <testcase>:', children, ' expected unsuccessful =', unsuccessful)
    if xml.get('tests') != '1' or counted != unsuccessful or len(children) != unsuccessful \\
            or any(c not in ('failure', 'error') for c in children):
        bad.append(name)
print('violating statuses:', bad)
sys.exit(1 if bad else 0)
'''

M.contract(P_JUNIT + ':JUnitRootSuiteReporter._xml_for_case',
           params=dict(self=JUNIT_ROOT, test_case_reference=CASE, processing_info=INFO), returns=XML_CASE,
           ensures={
               'a testcase element': lambda result: result.tag == 'testcase',
               'carries a failure or error element iff the case is unsuccessful':
                   lambda processing_info, result:
                   has_problem_child(result) == (not successful(processing_info.result)),
               'no other children': lambda result: len(result.children) <= 1,
           }, raises_only=(), replay=_junit_replay)


def _mk_additional_attributes(interp, name):
    return {'id': Str.make(interp, name + '.id'), 'package': Str.make(interp, name + '.package')}


M.contract(P_JUNIT + ':JUnitRootSuiteReporter._xml_for_suite',
           params=dict(self=JUNIT_ROOT, suite_reporter=SUB_REPORTER, name=Str,
                       additional_attributes=Union(Const(None), Custom(_mk_additional_attributes))),
           returns=Inst(etree_model.Element, tag=Str, attrib=Any_, children=Any_, text=Any_, tail=Any_),
           ensures={
               'tests = number of cases': lambda suite_reporter, result:
               result.attrib['tests'] == str(len(suite_reporter._result)),
               'failures + errors = number of unsuccessful cases': lambda suite_reporter, result:
               nat_of_str(result.attrib['failures']) + nat_of_str(result.attrib['errors'])
               == count_prefix(suite_reporter._result, len(suite_reporter._result), entry_unsuccessful),
               'one testcase element per case, in order; failure/error child iff unsuccessful':
                   lambda suite_reporter, result:
                   len(result.children) == len(suite_reporter._result) + 3
                   and forall_range(0, len(suite_reporter._result),
                                    lambda j: case_element_ok(result.children[1 + j], suite_reporter._result[j])),
           }, raises_only=(), replay=_junit_replay)

M.loop(P_JUNIT + ':JUnitRootSuiteReporter._xml_for_suite', 0,
       invariant=lambda _i, suite_reporter, root, num_errors, num_failures:
       num_errors >= 0 and num_failures >= 0
       and num_failures + num_errors == count_prefix(suite_reporter._result, _i, entry_unsuccessful)
       and len(root.children) == 1 + _i
       and forall_range(0, _i, lambda j: case_element_ok(root.children[1 + j], suite_reporter._result[j])),
       modifies={'num_errors': Int, 'num_failures': Int, 'sum_of_time_for_cases': Iface(DurationI),
                 '@root': None, 'root.children': ListOf(XML_CASE),
                 'test_case_setup': 'local', 'processing_info': 'local', 'result': 'local'})

# ------------------------------------------------------------------------------ order of the suites
from exactly_lib.test_suite import enumeration


class SuiteI(Interface):
    """TestSuiteHierarchy (read-only properties) with ghost attributes for the specification:
    `ident` names the identity of the suite, `po_len` / `po(k)` are its post-order enumeration
    (length and ident of the k-th suite), defined by `_po_def`."""
    target_class = structure.TestSuiteHierarchy
    attrs = {
        'sub_test_suites': ListOf(Iface(lambda: SuiteI)),
        'test_cases': ListOf(CASE),
        'source_file': Iface(PathI),
        'test_case_handling_setup': Any_,
        'suite_file_inclusions_leading_to_this_file': Any_,
        'ident': Int,
        'po_len': Int,
    }
    methods = {'po': Method(returns=Int, pure=True)}


SUITE = Iface(SuiteI)


def _po_len(s):
    return s.po_len


def _po_def(s):
    """Post-order, by structural recursion over the hierarchy: po(s) = po(c_0) ++ ... ++ po(c_n-1) ++ [s]
    (sub-suites, in listing order, before the suite that lists them)."""
    cs = s.sub_test_suites
    return s.po_len == 1 + sum_prefix(cs, len(cs), _po_len) \
        and s.po(s.po_len - 1) == s.ident \
        and forall_range(0, len(cs), lambda j:
                         cs[j].po_len >= 1 and
                         forall_range(0, cs[j].po_len, lambda m: s.po(sum_prefix(cs, j, _po_len) + m) == cs[j].po(m)))


def _assume_po_def(interp, args, ghosts):
    assume_pred(interp, _po_def, args['suite'])


M.assume('post-order `po` of a suite hierarchy is defined by structural recursion (`_po_def`: the enumerations of the '
         'sub-suites in listing order, then the suite itself); the definition is unfolded for the root of the '
         'hierarchy under verification; hierarchies are finite trees (built by _SingleFileReader, which rejects '
         'repeated and cyclic inclusion)')

M.contract('exactly_lib.test_suite.enumeration:DepthFirstEnumerator.apply',
           params=dict(self=Inst(enumeration.DepthFirstEnumerator), suite=SUITE), returns=ListOf(SUITE),
           setup=_assume_po_def,
           ensures={
               'as many suites as the hierarchy has': lambda suite, result: len(result) == suite.po_len,
               'post-order: sub-suites (in listing order) before the suite that lists them': lambda suite, result:
               forall_range(0, len(result), lambda k: result[k].ident == suite.po(k)),
           }, raises_only=())

M.loop('exactly_lib.test_suite.enumeration:DepthFirstEnumerator.apply', 0,
       invariant=lambda _i, suite, ret_val:
       len(ret_val) == sum_prefix(suite.sub_test_suites, _i, _po_len)
       and forall_range(0, len(ret_val), lambda k: ret_val[k].ident == suite.po(k)),
       modifies=dict(ret_val=ListOf(SUITE), sub_suite='local'))

# ------------------------------------------------------------------------------ the status partition

@M.check('status-partition')
def _partition(ctx):
    """every FullExeResultStatus is successful (progress reporter) xor counted as failure or error (JUnit):
    'the two reporters agree'.  Finite obligation on the three real constants."""
    for s in FullExeResultStatus:
        succ = s in spr.SUCCESS_STATUSES
        unsucc = (s in junit.FAIL_STATUSES) != (s in junit.ERROR_STATUSES)
        ctx.obligation('status partition: %s is in SUCCESS_STATUSES xor in exactly one of FAIL_STATUSES / ERROR_STATUSES'
                       % s.name, succ != unsucc and not (s in junit.FAIL_STATUSES and s in junit.ERROR_STATUSES),
                       'enumeration',
                       detail={'status': s.name, 'success': succ, 'fail': s in junit.FAIL_STATUSES,
                               'error': s in junit.ERROR_STATUSES},
                       replay=_PARTITION_REPLAY % s.name)
    ctx.obligation('SUCCESS_STATUSES is {PASS, SKIPPED, XFAIL} (the statement)',
                   {s.name for s in spr.SUCCESS_STATUSES} == set(SUCCESSFUL), 'enumeration')


_PARTITION_REPLAY = '''
import io, datetime, pathlib
from xml.etree import ElementTree as ET
from exactly_lib.execution.full_execution.result import FullExeResultStatus, FullExeResult
from exactly_lib.processing import test_case_processing as tcp
from exactly_lib.test_suite import reporting, structure
from exactly_lib.test_suite.reporters import junit, simple_progress_reporter as spr
from exactly_lib.util.file_utils.std import StdOutputFiles
status = FullExeResultStatus[%r]
root = pathlib.Path('/suite-dir')
suite = structure.TestSuiteHierarchy(root / 'a.suite', [], None, [], [])
case = tcp.test_case_reference_of_source_file(root / 'a.case')
info = reporting.TestCaseProcessingInfo(tcp.new_executed(FullExeResult(status, None, None, None)),
                                        datetime.timedelta(0))
def run(reporter):
    reporter.root_suite_begin()
    sub = reporter.new_sub_suite_reporter(suite)
    sub.case_end(case, info)
    reporter.root_suite_end()
    return reporter
out, err = io.StringIO(), io.StringIO()
p = run(spr.SimpleProgressRootSuiteReporter(StdOutputFiles(out, err), root))
_, _, exit_value = p._valid_suite_exit_value()
progress_ok = exit_value.exit_identifier == 'OK'
out, err = io.StringIO(), io.StringIO()
j = run(junit.JUnitRootSuiteReporter(suite, StdOutputFiles(out, err), root))
try:
    j.report_final_results()
    xml = ET.fromstring(out.getvalue().split('?>', 1)[1])
    counted = int(xml.get('failures')) + int(xml.get('errors'))
    child = [c.tag for tc in xml.iter('testcase') for c in tc]
except Exception as e:
    print('junit reporter raised', repr(e)); counted = None; child = None
print('status', status.name, ': progress reporter says', exit_value.exit_identifier,
      '; junit failures+errors =', counted, '; children of testcase:', child)
sys.exit(1 if (counted is None or progress_ok != (counted == 0) or (counted == 1) != (len(child) == 1)) else 0)
'''
