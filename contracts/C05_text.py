"""C05 -- text assertions and text transformers mean what the reference manual says (DESIGN.md 3/C05).
A text is any object satisfying the interface contract I_SSC of C14 (contracts/C14_text_value.py): one ghost
text `txt`; as_str == txt; as_lines yields split_nl(txt); the file decodes to txt.  "Whether the text is a
file, the output of the action to check, or a literal" is C14's obligation."""
try:
    import z3
except ImportError:      # replays run under the repository's interpreter, without z3
    z3 = None

from pyvc.api import (Module, Interface, Method, Iface, Inst, Int, Nat, Pos, Bool, Str, Opt, OneOf, Const, Union,
                      ListOf, MListOf, IterOf, FixedList, Any_, Custom, InPlace, InPlaceBy, new_opaque, assume_pred)
from pyvc.values import SStr, SList
from contracts.common import (implies, iff, forall_range, exists_range, prefix_join, join_of, peek, is_find, is_opaque,
                              items_of)
from contracts import text_spec
from contracts.text_spec import NL, is_line, is_split_nl, split_nl, lines_of, nlines, line_body
from contracts import C14_text_value          # (the module object: this module uses C14's spec functions and their models)
from contracts.C14_text_value import SSCI, SSI, SSC, SS, PathI, file_text, txt_of, ss_txt, freeze_events

from exactly_lib.type_val_prims.matcher.matching_result import MatchingResult
from exactly_lib.impls.types.string_matcher.impl import equality, emptiness, num_lines

M = Module('C05')
text_spec.register_models(M)

P_REPL = 'exactly_lib.impls.types.string_transformer.impl.replace.impl'


# ------------------------------------------------------------------------------ replace: re-splitting
# `_lines_iterator_from_replacements(replacer, lines)`: the lines are arbitrary objects (strings, or pairs
# (string, line-matcher model)), the replacer is a function of the line.  With subs[j] = replacer(lines[j])
# and R = subs[0] + subs[1] + ...: the generator yields exactly split_nl(R).

def _sub_fn():
    return z3.Function('replacer()', z3.IntSort(), z3.StringSort())


class AnyLineI(Interface):
    """an input line of unknown type; known only by its position"""


class ReplacerFnI(Interface):
    """replacer: Callable[[LINE], str] -- a function of the line (here: of its position in the input)"""
    methods = {'__call__': Method(model=lambda interp, self, args, kwargs: SStr(_sub_fn()(args[0]._pv_index[0])))}


def replacements(replacer, lines):
    """what the replacer makes of each line"""
    return [replacer(line) for line in lines]


def _m_replacements(interp, args, kwargs):
    """proof level: ONE list per (replacer, lines), whose j-th element is replacer(lines[j]) -- evaluated only
    where the proof looks at an element"""
    from pyvc import models as _m, seqs
    replacer, lines = args
    base = seqs.parts_of(lines)
    xs = base[0][1] if len(base) == 1 and base[0][0] == 'base' else lines
    cache = xs.aux.setdefault('replacements', {})
    ys = cache.get(id(replacer))
    if ys is None:
        ys = SList(xs.length, lambda interp2, idx: interp2.call(replacer, [_m.slist_elem(interp2, xs, idx)], {}),
                   xs.uid + '.replaced')
        cache[id(replacer)] = ys
        cache[('keep', id(replacer))] = replacer
    return ys


M.model(replacements, _m_replacements)

M.contract(P_REPL + ':_lines_iterator_from_replacements',
           params=dict(replacer=Iface(ReplacerFnI), lines=IterOf(Iface(AnyLineI))),
           old=lambda replacer, lines: replacements(replacer, peek(lines)),
           yields=ListOf(Str), event='re-split',
           ensures={
               'yields split_nl of the concatenated replacements':
                   lambda yielded, old: is_split_nl(yielded, join_of(old)),
           },
           raises_only=())


def _inv_outer(_i, yielded, segments, old):
    return join_of(yielded) + join_of(segments) == prefix_join(old, _i) \
        and NL not in join_of(segments) \
        and forall_range(0, len(yielded), lambda j: is_line(yielded[j]) and yielded[j].endswith(NL))


def _inv_inner(_i0, yielded, segments, old, sub_l, nli):
    # (the quantifier-free conjuncts first: what they establish about the pieces of sub_l is then known
    # to the path solver when the body slices sub_l)
    return is_find(nli, sub_l, NL) \
        and join_of(yielded) + join_of(segments) + sub_l == prefix_join(old, _i0 + 1) \
        and NL not in join_of(segments) \
        and forall_range(0, len(yielded), lambda j: is_line(yielded[j]) and yielded[j].endswith(NL))


M.loop(P_REPL + ':_lines_iterator_from_replacements', 0, invariant=_inv_outer,
       modifies=dict(yielded='len', segments=MListOf(Str), sub_l='local', nli='local', line='local'))
M.loop(P_REPL + ':_lines_iterator_from_replacements', 1, invariant=_inv_inner,
       modifies=dict(yielded='len', segments=MListOf(Str), sub_l=Str, nli=Int))


# ------------------------------------------------------------------------------ reading a prefix of a text
# `read_lines_as_str__w_minimum_num_chars(m, lines)`: whole lines are read from the start until at least m
# characters have been read.  With L = the text that the lines make up: the result (c, more) is
#   c == L and not more                 if |L| <  m
#   |c| >= m and more, c a prefix of L   if |L| >= m

P_RL = 'exactly_lib.util.str_.read_lines'
P_SS = 'exactly_lib.type_val_prims.string_source.string_source'


def prefix_len_lemma(xs, i):
    """TRUSTED LEMMA about the spec function prefix_join (induction over the list; bounded-checked in the check
    `lemmas`): the joined prefix of i items is a prefix of the join of all, in particular not longer."""
    return implies(0 <= i <= len(xs), join_of(xs).startswith(prefix_join(xs, i)))


def _m_prefix_len_lemma(interp, args, kwargs):
    from pyvc import texts
    from pyvc.values import to_z3
    xs, i = args
    whole = to_z3(texts.join_all(interp, xs))
    part = to_z3(texts.prefix_join(interp, xs, i))
    ti = to_z3(i)
    interp.st._add(z3.Implies(z3.And(ti >= 0, ti <= xs.length),
                              z3.And(z3.PrefixOf(part, whole), z3.Length(part) <= z3.Length(whole))))
    return True


M.model(prefix_len_lemma, _m_prefix_len_lemma)

def _advance_iter(interp, it, tag):
    """the callee consumes some of the iterator: its position afterwards is arbitrary, not before the old one"""
    from pyvc import models
    from pyvc.values import to_z3, wrap
    it = models.as_siter(interp, it)
    p0 = to_z3(it.pos) if not isinstance(it.pos, int) else z3.IntVal(it.pos)
    p1 = interp.st.fresh_int(tag + '.pos')
    interp.st.assume(z3.And(p1 >= p0, p1 <= it.xs.length))
    it.pos = wrap(p1)


M.contract(P_RL + ':read_lines_as_str__w_minimum_num_chars',
           params=dict(min_num_chars_to_read=Int, lines=IterOf(Str)),
           requires=lambda min_num_chars_to_read: min_num_chars_to_read >= 1,
           returns=FixedList(Str, Bool, as_tuple=True),
           modifies={'lines': InPlaceBy(_advance_iter)},
           ensures={
               'whole lines from the start': lambda lines, result: result[0] == prefix_join(lines.xs, lines.pos),
               'a short text is read completely, and is known to be complete':
                   lambda lines, min_num_chars_to_read, result:
                   prefix_len_lemma(lines.xs, lines.pos)
                   and implies(len(join_of(lines.xs)) < min_num_chars_to_read,
                               result[0] == join_of(lines.xs) and not result[1]),
               'of a long text at least the minimum is read, and it is reported as possibly longer':
                   lambda lines, min_num_chars_to_read, result:
                   prefix_len_lemma(lines.xs, lines.pos)
                   and implies(len(join_of(lines.xs)) >= min_num_chars_to_read,
                               len(result[0]) >= min_num_chars_to_read and result[1]),
               'no line more than needed': lambda lines, min_num_chars_to_read:
               lines.pos == 0 or len(prefix_join(lines.xs, lines.pos - 1)) < min_num_chars_to_read,
           }, raises_only=())
M.loop(P_RL + ':read_lines_as_str__w_minimum_num_chars', 0,
       invariant=lambda _i, _xs, actual_lines, actual_read, min_num_chars_to_read:
       join_of(actual_lines) == prefix_join(_xs, _i) and actual_read == len(prefix_join(_xs, _i))
       and actual_read < min_num_chars_to_read and len(actual_lines) == _i,
       modifies=dict(actual_lines=MListOf(Str), actual_read=Int, line='local'))

M.contract(P_SS + ':read_lines_as_str__w_minimum_num_chars',
           params=dict(min_num_chars_to_read=Int, source=SSC),
           requires=lambda min_num_chars_to_read: min_num_chars_to_read >= 1,
           returns=FixedList(Str, Bool, as_tuple=True),
           ensures={
               'a prefix of the text': lambda source, result: source.txt.startswith(result[0]),
               'a short text is read completely': lambda source, min_num_chars_to_read, result:
               implies(len(source.txt) < min_num_chars_to_read, result[0] == source.txt and not result[1]),
               'of a long text at least the minimum is read': lambda source, min_num_chars_to_read, result:
               implies(len(source.txt) >= min_num_chars_to_read,
                       len(result[0]) >= min_num_chars_to_read and result[1]),
           }, raises_only=())


# ------------------------------------------------------------------------------ equals
# Each of the four strategies of `equals` (chosen by where the two texts come from) gives True exactly when
# the two texts are equal.

P_EQ = 'exactly_lib.impls.types.string_matcher.impl.equality'

RESULT_TRUE = Inst(MatchingResult, _value=Const(True), _trace=Any_)


def _no_match_result(interp, self, args, kwargs):
    r = object.__new__(MatchingResult)
    r._value = False
    r._trace = Any_.make(interp, 'trace')
    return r


class NoMatchBuilderI(Interface):
    """build_result_for_no_match: builds a MatchingResult whose value is False from details
    (`_EqualityStringMatcher._result_for_no_match`, proved below)"""
    methods = {'__call__': Method(model=_no_match_result)}


APPLIER = Inst(equality._ApplierWExtDepsCases, _build_result_for_no_match=Iface(NoMatchBuilderI),
               _result_for_match=RESULT_TRUE, _expected=SS, _expected_unfrozen_has_ext_deps=Bool)


def _texts_equal(self, actual, result):
    return result.value == (self._expected.txt == actual.txt)


M.contract(P_EQ + ':_diff_detail', params=dict(get_actual_lines=Any_, get_expected_lines=Any_), returns=Any_,
           trusted=True)
M.trust('equality._diff_detail (difflib.unified_diff over the lines of both texts) only builds a detail of the error '
        'message of a failed `equals`; assumed to return: it is not part of the verdict')

M.contract(P_EQ + ':_min_num_chars_to_read', params=dict(operand=Str), returns=Int,
           ensures={'more than the operand has: a text that is read that far and still equal is equal':
                    lambda operand, result: result >= len(operand) + 1},
           raises_only=())

for _strategy in ('_ext_deps__none', '_ext_deps__only_actual', '_ext_deps__only_expected'):
    M.contract('%s:_ApplierWExtDepsCases.%s' % (P_EQ, _strategy), params=dict(self=APPLIER, actual=SSC),
               returns=Inst(MatchingResult, _value=Bool, _trace=Any_),
               ensures={'True iff the two texts are equal': _texts_equal}, raises_only=())

M.contract(P_EQ + ':_ApplierWExtDepsCases._freeze_and_read_expected_header',
           params=dict(self=APPLIER, min_num_chars=Int), requires=lambda min_num_chars: min_num_chars >= 1,
           returns=FixedList(Str, Bool, as_tuple=True),
           ensures={
               'a prefix of the expected text': lambda self, result: self._expected.txt.startswith(result[0]),
               'a short text is read completely': lambda self, min_num_chars, result:
               implies(len(self._expected.txt) < min_num_chars, result[0] == self._expected.txt and not result[1]),
               'of a long text at least the minimum is read': lambda self, min_num_chars, result:
               implies(len(self._expected.txt) >= min_num_chars, len(result[0]) >= min_num_chars and result[1]),
           }, raises_only=())

BOTH_HANDLER = Inst(equality._ExtDepsOfBothHandler, _result_for_match=RESULT_TRUE,
                    _build_result_for_no_match=Iface(NoMatchBuilderI), _expected=Iface(PathI))

M.contract(P_EQ + ':_ExtDepsOfBothHandler.match', params=dict(self=BOTH_HANDLER, actual=SSC),
           returns=Inst(MatchingResult, _value=Bool, _trace=Any_),
           ensures={'True iff the two texts are equal (relative to _do_compare, see C14)': lambda self, actual, result:
                    result.value == (file_text(self._expected) == actual.txt)},
           raises_only=())

M.contract(P_EQ + ':_ApplierWExtDepsCases.match', params=dict(self=APPLIER, actual=SSC),
           returns=Inst(MatchingResult, _value=Bool, _trace=Any_),
           ensures={'True iff the two texts are equal, whichever strategy is chosen': _texts_equal,
                    'the expected text is frozen (it is read more than once)': lambda self, trace:
                    len(freeze_events(trace, self._expected)) == 1},
           raises_only=())


# ------------------------------------------------------------------------------ is-empty, num-lines

P_EMPTY = 'exactly_lib.impls.types.string_matcher.impl.emptiness'
P_NUM_LINES = 'exactly_lib.impls.types.string_matcher.impl.num_lines'

EMPTINESS = Inst(emptiness.EmptinessStringMatcher, _structure_renderer=Any_)

M.contract(P_EMPTY + ':EmptinessStringMatcher._first_line', params=dict(file_to_check=SS), returns=Str,
           ensures={'empty iff the text is empty': lambda file_to_check, result:
                    iff(result == '', file_to_check.txt == '')},
           raises_only=())

M.contract(P_EMPTY + ':EmptinessStringMatcher.matches_w_trace', params=dict(self=EMPTINESS, model=SS),
           ensures={'True iff the text is empty': lambda model, result: result.value == (model.txt == '')},
           raises_only=())

M.contract(P_NUM_LINES + ':_PropertyGetter.get_from',
           params=dict(self=Inst(num_lines._PropertyGetter, _structure_renderer=Any_), model=SS), returns=Int,
           ensures={'the number of lines of the text': lambda model, result: result == nlines(model.txt)},
           raises_only=())
M.loop(P_EMPTY + ':EmptinessStringMatcher._first_line', 0, invariant=lambda _i: _i == 0, modifies={'line': 'local'})
M.loop(P_NUM_LINES + ':_PropertyGetter.get_from', 0, invariant=lambda _i, ret_val: ret_val == _i,
       modifies=dict(ret_val=Int, _='local'))


# ------------------------------------------------------------------------------ matches [-full] REGEX
# (the semantics of Python's `re` is assumed: a compiled pattern is known by its ghost denotations)

from exactly_lib.impls.types.matcher.impls import matches_regex, quantifier_matchers                 # noqa: E402
from exactly_lib.impls.types.string_matcher.impl import matches as matches_mod, on_transformed, line_matchers   # noqa: E402
from exactly_lib.impls.types.string_transformer.impl import sequence as st_sequence                 # noqa: E402
from exactly_lib.impls.types.string_transformer.impl.replace import impl as replace_impl            # noqa: E402
from exactly_lib.impls.types.line_matcher import model_construction                                  # noqa: E402
from exactly_lib.type_val_prims.matcher.matcher_base_class import MatcherWTrace                      # noqa: E402
from exactly_lib.type_val_prims.string_transformer import StringTransformer                          # noqa: E402
from exactly_lib.util.logic_types import Quantifier                                                  # noqa: E402


import re                                                                                             # noqa: E402
from exactly_lib.test_case.hard_error import HardErrorException                                       # noqa: E402


def _re_result(denotation):
    def model(interp, self, args, kwargs):
        found = interp.reg.call_opaque(interp, self, denotation, [args[0]], {})
        from pyvc.values import SOpt, to_z3
        from pyvc.api import OpaqueVal
        return SOpt(z3.Not(to_z3(found)) if not isinstance(found, bool) else z3.BoolVal(not found),
                    OpaqueVal(interp.st.fresh_name('match-object')))

    return model


class PatternI(Interface):
    """re.Pattern[str].  SEARCH(s) / FULL(s): whether the pattern is found in / matches all of s;
    SUB(repl, s): s with every non-overlapping match replaced.  (Python `re` semantics: assumed.)"""
    methods = {
        'SEARCH': Method(returns=Bool, pure=True), 'FULL': Method(returns=Bool, pure=True),
        'SUB': Method(returns=Str, pure=True),
        'search': Method(model=_re_result('SEARCH')), 'fullmatch': Method(model=_re_result('FULL')),
        # an invalid replacement template (e.g. a reference to a group that does not exist) makes `sub` raise
        'sub': Method(returns=Str, may_raise=(lambda interp, o: re.error('invalid replacement'),
                                              lambda interp, o: IndexError('invalid group')),
                      ensures=lambda self, repl, s, result: result == self.SUB(repl, s)),
    }


P_MRE = 'exactly_lib.impls.types.matcher.impls.matches_regex'
MATCHES_REGEX = Inst(matches_regex.MatchesRegex, _is_full_match=Bool, _pattern=Iface(PatternI), _pattern_renderer=Any_,
                     _renderer_of_expected=Any_, _structure_renderer=Any_)

M.contract(P_MRE + ':MatchesRegex.matches_w_trace', params=dict(self=MATCHES_REGEX, model=Str),
           ensures={'search, or full match with -full': lambda self, model, result:
                    result.value == (self._pattern.FULL(model) if self._is_full_match else self._pattern.SEARCH(model))},
           raises_only=())

M.contract('exactly_lib.impls.types.string_matcher.impl.matches:_PropertyGetter.get_from',
           params=dict(self=Inst(matches_mod._PropertyGetter, _structure_renderer=Any_), model=SS), returns=Str,
           ensures={'the whole text': lambda model, result: result == model.txt}, raises_only=())


# ------------------------------------------------------------------------------ matcher of a property of the text
# (`num-lines INTEGER-MATCHER`, `matches REGEX`): the verdict is that of the matcher on the property

def _value_of(denote):
    def model(interp, self, args, kwargs):
        r = object.__new__(MatchingResult)
        r._value = denote(interp, self, args)
        r._trace = Any_.make(interp, 'trace')
        return r

    return model


class PropMatcherI(Interface):
    """a matcher of an integer or a string: its verdict is a function of the value"""
    target_class = MatcherWTrace
    methods = {'D_int': Method(returns=Bool, pure=True), 'D_str': Method(returns=Bool, pure=True),
               'matches_w_trace': Method(model=_value_of(
                   lambda interp, self, args: interp.reg.call_opaque(
                       interp, self, 'D_str' if isinstance(args[0], (str, SStr)) else 'D_int', [args[0]], {}))),
               'structure': Method(returns=Any_)}


class PropGetterI(Interface):
    methods = {'P_int': Method(returns=Int, pure=True),
               'get_from': Method(model=lambda interp, self, args, kwargs:
                                  interp.reg.call_opaque(interp, self, 'P_int',
                                                         [interp.reg.opaque_getattr(interp, args[0], 'txt')], {})),
               'structure': Method(returns=Any_)}


class DescriberI(Interface):
    methods = {'trace': Method(returns=Any_), 'structure': Method(returns=Any_)}


from exactly_lib.impls.types.matcher import property_matcher                                       # noqa: E402

M.contract('exactly_lib.impls.types.matcher.property_matcher:PropertyMatcher.matches_w_trace',
           params=dict(self=Inst(property_matcher.PropertyMatcher, _matcher=Iface(PropMatcherI),
                                 _property_getter=Iface(PropGetterI), _describer=Iface(DescriberI), _structure=Any_),
                       model=SS),
           ensures={'the verdict of the matcher on the property of the text': lambda self, model, result:
                    result.value == self._matcher.D_int(self._property_getter.P_int(model.txt))},
           raises_only=())


# ------------------------------------------------------------------------------ -transformed-by, | (sequence)

class TransformerI(Interface):
    """a string transformer: the text of the result is G(text of the model) (C14: transformed sources)"""
    target_class = StringTransformer
    methods = {'G': Method(returns=Str, pure=True),
               'transform': Method(model=lambda interp, self, args, kwargs: _transformed(interp, self, args[0])),
               '__call__': Method(model=lambda interp, self, args, kwargs: _transformed(interp, self, args[0])),
               'structure': Method(returns=Any_)}
    attrs = {'is_identity_transformer': Bool}


def _transformed(interp, f, model):
    out = new_opaque(interp, SSI, 'transformed')
    out._pv_attrs['txt'] = interp.reg.call_opaque(interp, f, 'G', [interp.reg.opaque_getattr(interp, model, 'txt')], {})
    return out


class TextMatcherI(Interface):
    """a string matcher: its verdict is a function of the text of its model (it can observe nothing else: I_SSC)"""
    target_class = MatcherWTrace
    methods = {'D': Method(returns=Bool, pure=True),
               'matches_w_trace': Method(model=_value_of(
                   lambda interp, self, args: interp.reg.call_opaque(
                       interp, self, 'D', [interp.reg.opaque_getattr(interp, args[0], 'txt')], {}))),
               'structure': Method(returns=Any_)}


M.contract('exactly_lib.impls.types.string_matcher.impl.on_transformed:StringMatcherWithTransformation.matches_w_trace',
           params=dict(self=Inst(on_transformed.StringMatcherWithTransformation, _transformer=Iface(TransformerI),
                                 _on_transformed=Iface(TextMatcherI), _transformer_detail=Any_, _structure_renderer=Any_),
                       model=SS),
           ensures={'the matcher applied to the transformed text': lambda self, model, result:
                    result.value == self._on_transformed.D(self._transformer.G(model.txt))},
           raises_only=())


def applied(fs, k, t):
    """the text after the first k transformations of fs have been applied to t, one after the other"""
    for f in fs[:k]:
        t = f.G(t)
    return t


def _m_applied(interp, args, kwargs):
    from pyvc import models as _m
    from pyvc.values import to_z3, wrap
    fs, k, t = args
    a = fs.aux.setdefault('applied', {})
    tt = to_z3(t)
    f = a.get('fn')
    if f is None:
        f = a['fn'] = z3.Function('applied[%s]' % fs.uid, z3.IntSort(), z3.StringSort(), z3.StringSort())
    kk = z3.simplify(to_z3(k) if not isinstance(k, int) else z3.IntVal(k))
    for j in (z3.simplify(kk - 1), kk):          # defining equations at the steps the proof mentions
        key = (j.sexpr(), tt.get_id())
        if key in a:
            continue
        a[key] = tt
        interp.st._add(f(z3.IntVal(0), tt) == tt)
        if z3.is_int_value(j) and j.as_long() < 0:
            continue
        guard = z3.And(j >= 0, j < fs.length)
        if interp.st.must_hold(z3.Not(guard)):
            continue
        step = interp.reg.call_opaque(interp, _m.slist_elem(interp, fs, j), 'G', [wrap(f(j, tt))], {})
        interp.st._add(z3.Implies(guard, f(j + 1, tt) == to_z3(step)))
    return wrap(f(kk, tt))


M.model(applied, _m_applied)

M.contract('exactly_lib.impls.types.string_transformer.impl.sequence:SequenceStringTransformer.transform',
           params=dict(self=Inst(st_sequence.SequenceStringTransformer, _transformers=Any_, _is_identity=Bool,
                                 _non_identity_transformer_functions=ListOf(Iface(TransformerI)),
                                 _structure_renderer=Any_),
                       model=SS),
           old=lambda model: model.txt,
           ensures={'T1 | T2 | ...: the transformations applied one after the other, left to right':
                    lambda self, old, result:
                    result.txt == applied(self._non_identity_transformer_functions,
                                          len(self._non_identity_transformer_functions), old)},
           raises_only=())
M.loop('exactly_lib.impls.types.string_transformer.impl.sequence:SequenceStringTransformer.transform', 0,
       invariant=lambda _i, _xs, model, old: model.txt == applied(_xs, _i, old),
       modifies=dict(model=SS, transformer='local'))


# ------------------------------------------------------------------------------ every / any line : LINE-MATCHER
# The elements of a text are its lines: (n, line without its new-line) for n = 1, 2, ...  A line matcher's verdict
# is a function LM(n, text of the line).

P_QM = 'exactly_lib.impls.types.matcher.impls.quantifier_matchers'
P_MC = 'exactly_lib.impls.types.line_matcher.model_construction'
P_LM = 'exactly_lib.impls.types.string_matcher.impl.line_matchers'

LINE_ELEMENT = FixedList(Int, Str, as_tuple=True)


class LineMatcherI(Interface):
    target_class = MatcherWTrace
    methods = {'LM': Method(returns=Bool, pure=True),
               'matches_w_trace': Method(model=_value_of(
                   lambda interp, self, args: interp.reg.call_opaque(interp, self, 'LM', [args[0][0], args[0][1]], {}))),
               'structure': Method(returns=Any_)}


class RendererFnI(Interface):
    methods = {'__call__': Method(returns=Any_)}


def _mk_quantifier(cls, quantifier):
    conf = Inst(quantifier_matchers._ApplicationConf,
                setup=Inst(quantifier_matchers.ElementSetup,
                           rendering=Inst(quantifier_matchers.ElementRendering, type_name=Str,
                                          element_matcher_syntax_info=Any_, renderer=Iface(RendererFnI)),
                           elements_getter=Const(line_matchers._get_line_elements)),
                predicate=Iface(LineMatcherI), tcds=Any_, environment=Any_)
    return Inst(cls, _conf=conf, _quantifier=Const(quantifier), _name=Str, _structure_renderer=Any_)


from exactly_lib.type_val_prims.description.trace_building import TraceBuilder                     # noqa: E402

TRACE_BUILDER = Inst(TraceBuilder, _header=Str, _details=FixedList(), _children=FixedList())
EXISTS = _mk_quantifier(quantifier_matchers.Exists, Quantifier.EXISTS)
FOR_ALL = _mk_quantifier(quantifier_matchers.ForAll, Quantifier.ALL)


def holds_of_line(m, txt, j):
    """the line matcher's verdict on line number j+1 of the text"""
    return m.LM(j + 1, line_body(text_spec.line_at(txt, j)))


def _line_elements_of(lines, elements):
    return len(elements) == len(lines) and forall_range(
        0, len(lines), lambda j: elements[j][0] == j + 1 and elements[j][1] == lines[j].rstrip(NL))


M.contract(P_MC + ':model_iter_from_file_line_iter', params=dict(lines=IterOf(Str)),
           returns=IterOf(LINE_ELEMENT),
           ensures={'one element per line: (n, line without its new-line), n from 1': lambda lines, result:
                    _line_elements_of(lines.xs, items_of(result))},
           raises_only=())

M.contract(P_QM + ':Exists._matches',
           params=dict(self=EXISTS, tb=TRACE_BUILDER, predicate=Iface(LineMatcherI), elements=IterOf(LINE_ELEMENT)),
           returns=Inst(MatchingResult, _value=Bool, _trace=Any_),
           modifies={'elements': InPlaceBy(_advance_iter)},
           ensures={
               'True iff some element matches': lambda predicate, elements, result:
               result.value == exists_range(0, len(elements.xs),
                                            lambda j: predicate.LM(elements.xs[j][0], elements.xs[j][1])),
               'elements are tried in order, none after the first that matches': lambda predicate, elements, result:
               forall_range(0, elements.pos - 1, lambda j: not predicate.LM(elements.xs[j][0], elements.xs[j][1]))
               and implies(not result.value, elements.pos == len(elements.xs)),
           }, raises_only=())
M.loop(P_QM + ':Exists._matches', 0,
       invariant=lambda _i, _xs, predicate, num_elements:
       num_elements == _i and forall_range(0, _i, lambda j: not predicate.LM(_xs[j][0], _xs[j][1])),
       modifies=dict(num_elements=Int, element='local', result='local'))

M.contract(P_QM + ':ForAll._matches',
           params=dict(self=FOR_ALL, tb=TRACE_BUILDER, predicate=Iface(LineMatcherI), elements=IterOf(LINE_ELEMENT)),
           returns=Inst(MatchingResult, _value=Bool, _trace=Any_),
           modifies={'elements': InPlaceBy(_advance_iter)},
           ensures={
               'True iff every element matches': lambda predicate, elements, result:
               result.value == forall_range(0, len(elements.xs),
                                            lambda j: predicate.LM(elements.xs[j][0], elements.xs[j][1])),
               'elements are tried in order, none after the first that does not match':
                   lambda predicate, elements, result:
                   forall_range(0, elements.pos - 1, lambda j: predicate.LM(elements.xs[j][0], elements.xs[j][1]))
                   and implies(result.value, elements.pos == len(elements.xs)),
           }, raises_only=())
M.loop(P_QM + ':ForAll._matches', 0,
       invariant=lambda _i, _xs, predicate, num_elements:
       num_elements == _i and forall_range(0, _i, lambda j: predicate.LM(_xs[j][0], _xs[j][1])),
       modifies=dict(num_elements=Int, element='local', result='local'))

M.contract(P_QM + ':_QuantifierBase.matches_w_trace', params=dict(self=Union(EXISTS, FOR_ALL), model=SS),
           ensures={
               'any line: True iff the line matcher holds of some line (n, text without new-line)':
                   lambda self, model, result: implies(
                       self._quantifier is Quantifier.EXISTS,
                       result.value == exists_range(0, nlines(model.txt),
                                                    lambda j: holds_of_line(self._conf.predicate, model.txt, j))),
               'every line: True iff the line matcher holds of every line (n, text without new-line)':
                   lambda self, model, result: implies(
                       self._quantifier is Quantifier.ALL,
                       result.value == forall_range(0, nlines(model.txt),
                                                    lambda j: holds_of_line(self._conf.predicate, model.txt, j))),
           }, raises_only=())


# ------------------------------------------------------------------------------ replace: what is substituted where

STR_REPLACER_INCL = Inst(replace_impl._StrReplacerIncludingNewLines, _regex=Iface(PatternI), _replacement=Str)
STR_REPLACER_EXCL = Inst(replace_impl._StrReplacerExcludingNewLines, _regex=Iface(PatternI), _replacement=Str)

M.contract(P_REPL + ':_StrReplacer._sub', params=dict(self=Union(STR_REPLACER_INCL, STR_REPLACER_EXCL), s=Str),
           returns=Str, raises={HardErrorException: {}},
           ensures={'every match is replaced': lambda self, s, result: result == self._regex.SUB(self._replacement, s)},
           raises_only=(HardErrorException,))

M.contract(P_REPL + ':_StrReplacerIncludingNewLines.process', params=dict(self=STR_REPLACER_INCL, line=Str),
           returns=Str, raises={HardErrorException: {}},
           ensures={'every match in the line, its new-line included, is replaced': lambda self, line, result:
                    result == self._regex.SUB(self._replacement, line)},
           raises_only=(HardErrorException,))

M.contract(P_REPL + ':_StrReplacerExcludingNewLines.process', params=dict(self=STR_REPLACER_EXCL, line=Str),
           requires=lambda line: line != '',          # lines of a text are not empty (I_SSC)
           returns=Str, raises={HardErrorException: {}},
           ensures={'-preserve-new-lines: matches are replaced in the line without its new-line, which is kept':
                    lambda self, line, result:
                    result == (self._regex.SUB(self._replacement, line_body(line)) + NL if line.endswith(NL)
                               else self._regex.SUB(self._replacement, line))},
           raises_only=(HardErrorException,))


class StrFnI(Interface):
    """str_replacer: Callable[[str], str]"""
    methods = {'R': Method(returns=Str, pure=True),
               '__call__': Method(model=lambda interp, self, args, kwargs:
                                  interp.reg.call_opaque(interp, self, 'R', [args[0]], {}))}


M.contract(P_REPL + ':_ReplacerWLineMatcherSelector.process',
           params=dict(self=Inst(replace_impl._ReplacerWLineMatcherSelector, selector=Iface(LineMatcherI),
                                 replacer=Iface(StrFnI)),
                       line=FixedList(Str, LINE_ELEMENT, as_tuple=True)),
           returns=Str,
           ensures={'-at LINE-MATCHER: replaced iff the line matcher accepts (n, text); else unchanged':
                    lambda self, line, result:
                    result == (self.replacer.R(line[0]) if self.selector.LM(line[1][0], line[1][1]) else line[0])},
           raises_only=())

_REPLACE_TRANSFORMER = Inst(replace_impl._ReplaceStringTransformer)

M.contract(P_REPL + ':_ReplaceStringTransformer.__init__',
           params=dict(self=_REPLACE_TRANSFORMER, lines_selector=Opt(Iface(LineMatcherI)), preserve_new_lines=Bool,
                       compiled_regular_expression=Iface(PatternI), replacement=Str),
           ensures={
               'the replacer is chosen by -preserve-new-lines and is given the pattern and the replacement':
                   lambda self, preserve_new_lines, compiled_regular_expression, replacement: _replacer_ok(
                       _str_replacer_of(self), preserve_new_lines, compiled_regular_expression, replacement),
               'with -at the selector decides line by line; without it every line is processed':
                   lambda self, lines_selector:
                   (lines_selector is None
                    and type(self._replacer_applier) is replace_impl._ReplacerApplierWoLineMatcherSelector)
                   or (lines_selector is not None
                       and type(self._replacer_applier) is replace_impl._ReplacerApplierWLineMatcherSelector
                       and self._replacer_applier._replacer.selector is lines_selector),
           }, raises_only=())


def _str_replacer_of(transformer):
    a = transformer._replacer_applier
    if type(a) is replace_impl._ReplacerApplierWoLineMatcherSelector:
        return a._replacer
    return a._replacer.replacer.__self__


def _replacer_ok(r, preserve_new_lines, regex, replacement):
    return type(r) is (replace_impl._StrReplacerExcludingNewLines if preserve_new_lines
                       else replace_impl._StrReplacerIncludingNewLines) \
        and r._regex is regex and r._replacement == replacement


# --- the two appliers hand the lines and their replacer to the re-splitter (event 're-split' of its contract)

def _resplit_calls(trace):
    return [e[1] for e in trace if e[0] == 're-split']


M.contract(P_REPL + ':_ReplacerApplierWoLineMatcherSelector.process',
           params=dict(self=Inst(replace_impl._ReplacerApplierWoLineMatcherSelector, _replacer=STR_REPLACER_EXCL),
                       lines=IterOf(Str)),
           requires=lambda lines: forall_range(0, len(lines.xs), lambda j: lines.xs[j] != ''),    # lines of a text (I_SSC)
           inline=True,
           ensures={'every line is processed by the replacer, the result is re-split into lines':
                    lambda self, lines, trace:
                    len(_resplit_calls(trace)) == 1
                    and _resplit_calls(trace)[0]['replacer'] == self._replacer.process
                    and _resplit_calls(trace)[0]['lines'] is lines},
           raises_only=())

M.contract(P_REPL + ':_ReplacerApplierWLineMatcherSelector.process',
           params=dict(self=Inst(replace_impl._ReplacerApplierWLineMatcherSelector,
                                 _replacer=Inst(replace_impl._ReplacerWLineMatcherSelector,
                                                selector=Iface(LineMatcherI), replacer=Iface(StrFnI))),
                       lines=IterOf(Str)),
           inline=True,
           ensures={'every (line, (n, text)) is processed by the selecting replacer, the result is re-split':
                    lambda self, lines, trace:
                    len(_resplit_calls(trace)) == 1
                    and _resplit_calls(trace)[0]['replacer'] == self._replacer.process
                    and _line_pairs_of(lines.xs, items_of(_resplit_calls(trace)[0]['lines']))},
           raises_only=())


def _line_pairs_of(lines, pairs):
    return len(pairs) == len(lines) and forall_range(
        0, len(lines), lambda j: pairs[j][0] == lines[j] and pairs[j][1][0] == j + 1
        and pairs[j][1][1] == lines[j].rstrip(NL))


M.contract(P_REPL + ':_ReplaceStringTransformer._transform',
           params=dict(self=Inst(replace_impl._ReplaceStringTransformer,
                                 _replacer_applier=Inst(replace_impl._ReplacerApplierWoLineMatcherSelector,
                                                        _replacer=STR_REPLACER_INCL),
                                 _structure_renderer=Any_), lines=IterOf(Str)),
           ensures={'the lines go to the applier': lambda self, lines, trace:
                    len(_resplit_calls(trace)) == 1 and _resplit_calls(trace)[0]['lines'] is lines},
           raises_only=())


# ------------------------------------------------------------------------------ bounded stand-ins (DESIGN 2.6)
# strip / strip -trailing-space / strip -trailing-new-lines and char-case are defined by Unicode classes
# (str.isspace, strip, upper, lower) that no installed solver models: the REAL line transformations are run on
# every text up to a bound, given as its lines, and compared with the documented result on the whole text.

def _texts_upto(alphabet, max_len):
    import itertools
    for n in range(max_len + 1):
        for t in itertools.product(alphabet, repeat=n):
            yield ''.join(t)


def _bounded_lines_transformer(ctx, name, transform, reference, alphabet, max_len):
    failures = []
    cases = 0
    for t in _texts_upto(alphabet, max_len):
        cases += 1
        out = list(transform(iter(split_nl(t))))
        expected = reference(t)
        if ''.join(out) != expected or out != split_nl(expected):
            failures.append({'input': t, 'expected': split_nl(expected), 'actual': out,
                             'replay': 'from %s import %s as f\nfrom contracts.text_spec import split_nl\n'
                                       'out = list(f(iter(split_nl(%r))))\nprint(out)\n'
                                       'sys.exit(1 if out != %r else 0)\n'
                                       % (transform.__module__, transform.__name__, t, split_nl(expected))})
    ctx.bounded_result(name, 'every text of length <= %d over %r, given as its lines' % (max_len, alphabet), cases,
                       True, failures,
                       note='compared with %s; the output must also be the proper division of that text into lines'
                            % reference.__doc__)


def _ref_strip(t):
    """str.strip() of the whole text"""
    return t.strip()


def _ref_rstrip(t):
    """str.rstrip() of the whole text"""
    return t.rstrip()


def _ref_rstrip_nl(t):
    """str.rstrip('\\n') of the whole text"""
    return t.rstrip('\n')


_STRIP_ALPHABET = ' \t\na\x0c'


@M.bounded('strip (default)')
def _b_strip(ctx):
    from exactly_lib.impls.types.string_transformer.impl import strip_space
    _bounded_lines_transformer(ctx, 'strip_space._strip_space', strip_space._strip_space, _ref_strip,
                               _STRIP_ALPHABET, 7 if ctx.tier == 'thorough' else 6)


@M.bounded('strip -trailing-space')
def _b_strip_trailing_space(ctx):
    from exactly_lib.impls.types.string_transformer.impl import strip_space
    _bounded_lines_transformer(ctx, 'strip_space._strip_trailing_space', strip_space._strip_trailing_space,
                               _ref_rstrip, _STRIP_ALPHABET, 7 if ctx.tier == 'thorough' else 6)


@M.bounded('strip -trailing-new-lines')
def _b_strip_trailing_new_lines(ctx):
    from exactly_lib.impls.types.string_transformer.impl import strip_space
    _bounded_lines_transformer(ctx, 'strip_space._strip_trailing_new_lines', strip_space._strip_trailing_new_lines,
                               _ref_rstrip_nl, _STRIP_ALPHABET, 7 if ctx.tier == 'thorough' else 6)


def _ref_upper(t):
    """str.upper() of the whole text"""
    return t.upper()


def _ref_lower(t):
    """str.lower() of the whole text"""
    return t.lower()


@M.bounded('char-case')
def _b_char_case(ctx):
    from exactly_lib.impls.types.string_transformer.impl import case_converters

    def converter(f):
        from exactly_lib.util.description_tree import details
        c = case_converters._CaseConverter(details.empty(), f)

        def transform(lines):
            return c._transform(lines)

        transform.__module__, transform.__name__ = 'contracts.C05_text', '_case_%s' % f.__name__
        return transform

    for f, ref in ((str.upper, _ref_upper), (str.lower, _ref_lower)):
        _bounded_lines_transformer(ctx, 'case_converters._CaseConverter._transform(%s)' % f.__name__, converter(f), ref,
                                   'aB\xdfΣ\n ', 6 if ctx.tier == 'thorough' else 5)


# ------------------------------------------------------------------------------ the assertion: PASS iff the matcher holds
# `contents FILE : MATCHER`, `stdout MATCHER`, ...: the assertion part applies the matcher to the text; FAIL iff its
# value is False, HARD_ERROR only from a HardErrorException; `translate_pfh_exception_to_pfh` makes PASS of a normal
# return.  (Resolving the matcher expression to the matcher object is C08 / C06; assumed here.)

from exactly_lib.impls.instructions.assert_.utils.file_contents.parts import string_matcher_assertion_part as smap   # noqa: E402
from exactly_lib.impls.exception import pfh_exception                                                                 # noqa: E402
from exactly_lib.test_case.result import pfh                                                                          # noqa: E402

P_SMAP = 'exactly_lib.impls.instructions.assert_.utils.file_contents.parts.string_matcher_assertion_part'


def _hard_error(interp, o):
    e = HardErrorException.__new__(HardErrorException)
    e._error = Any_.make(interp, 'error-message')
    e.args = ()
    return e


class TextMatcherMayFailI(TextMatcherI):
    """a string matcher that may also stop with a HardErrorException (e.g. a program that cannot be run)"""
    methods = {'matches_w_trace': Method(
        may_raise=(_hard_error,),
        model=None, returns=Inst(MatchingResult, _value=Bool, _trace=Any_),
        ensures=lambda self, model, result: result.value == self.D(model.txt))}


class ResolvingHelperI(Interface):
    """LogicTypeResolvingHelper: resolve_matcher(sdv) gives the matcher the expression denotes (assumed: C08/C06)"""
    methods = {'resolve_matcher': Method(model=lambda interp, self, args, kwargs:
                                         interp.reg.opaque_getattr(interp, args[0], 'denoted'))}


class MatcherSdvI(Interface):
    attrs = {'denoted': Iface(TextMatcherMayFailI), 'references': Any_}


M.contract('exactly_lib.impls.instructions.utils.logic_type_resolving_helper:resolving_helper_for_instruction_env',
           params=dict(os_services=Any_, environment=Any_), returns=Iface(ResolvingHelperI), trusted=True)
M.trust('resolving_helper_for_instruction_env(...).resolve_matcher(sdv) yields the string matcher that the parsed expression '
        'denotes (symbol resolution and the expression grammar are C08 / C06)')

M.contract(P_SMAP + ':StringMatcherAssertionPart._apply_matcher',
           params=dict(matcher=Iface(TextMatcherMayFailI), model=SS),
           returns=Inst(MatchingResult, _value=Bool, _trace=Any_),
           raises={pfh_exception.PfhHardErrorException: {}},
           ensures={'the value of the matcher on the text': lambda matcher, model, result:
                    result.value == matcher.D(model.txt)},
           raises_only=(pfh_exception.PfhHardErrorException,))

M.contract(P_SMAP + ':StringMatcherAssertionPart._check',
           params=dict(self=Inst(smap.StringMatcherAssertionPart, _string_matcher=Iface(MatcherSdvI), _validator=Any_),
                       environment=Any_, os_services=Any_, model=SS),
           raises={pfh_exception.PfhFailException: {'ensures': lambda self, model, exc:
                                                     not self._string_matcher.denoted.D(model.txt)},
                   pfh_exception.PfhHardErrorException: {}},
           ensures={'returns (PASS) only if the matcher holds of the text': lambda self, model:
                    self._string_matcher.denoted.D(model.txt)},
           raises_only=(pfh_exception.PfhFailException, pfh_exception.PfhHardErrorException))


class ActionI(Interface):
    """an assertion action: returns, or raises a PfhException (FAIL / HARD_ERROR)"""
    attrs = {'outcome': OneOf('pass', 'fail', 'hard-error')}
    methods = {'__call__': Method(model=lambda interp, self, args, kwargs: _run_action(interp, self))}


def _run_action(interp, action):
    from pyvc.interp import PyRaise
    o = interp.resolve(interp.reg.opaque_getattr(interp, action, 'outcome'))
    if o == 'fail':
        raise PyRaise(interp.construct(pfh_exception.PfhFailException, [Any_.make(interp, 'msg')], {}))
    if o == 'hard-error':
        raise PyRaise(interp.construct(pfh_exception.PfhHardErrorException, [Any_.make(interp, 'msg')], {}))
    return None


M.contract('exactly_lib.impls.exception.pfh_exception:translate_pfh_exception_to_pfh', params=dict(action=Iface(ActionI)),
           ensures={'PASS iff the action returns; FAIL / HARD_ERROR as raised': lambda action, result:
                    result.status is {'pass': pfh.PassOrFailOrHardErrorEnum.PASS,
                                      'fail': pfh.PassOrFailOrHardErrorEnum.FAIL,
                                      'hard-error': pfh.PassOrFailOrHardErrorEnum.HARD_ERROR}[action.outcome]},
           raises_only=())


# ------------------------------------------------------------------------------ the `equals` matcher object

class PostSdsValidatorI(Interface):
    """PreOrPostSdsValidatorPrimitive: None, or an error message (e.g. the expected file does not exist)"""
    attrs = {'error': Opt(Any_)}
    methods = {'validate_post_sds_if_applicable': Method(model=lambda interp, self, args, kwargs:
                                                         interp.reg.opaque_getattr(interp, self, 'error'))}


def _mk_equality_matcher(interp, name):
    m = Inst(equality._EqualityStringMatcher, _expected_contents=SS, _validator=Iface(PostSdsValidatorI),
             _expected_detail_renderer=Any_, _structure_renderer=Any_).make(interp, name)
    a = APPLIER.make(interp, name + '._applier')
    a._expected = m._expected_contents
    m._applier = a
    return m


EQUALITY_MATCHER = Custom(_mk_equality_matcher)

M.contract(P_EQ + ':_EqualityStringMatcher._result_for_no_match',
           params=dict(self=EQUALITY_MATCHER, actual=FixedList()),
           ensures={'a result that is False': lambda result: result.value is False}, raises_only=())

M.contract(P_EQ + ':_EqualityStringMatcher.matches_w_trace', params=dict(self=EQUALITY_MATCHER, model=SS),
           ensures={'equals: True iff the expected text can be had and the two texts are equal':
                    lambda self, model, result:
                    result.value == (self._validator.error is None and self._expected_contents.txt == model.txt)},
           raises_only=())

M.contract(P_EQ + ':_EqualityStringMatcher.__init__',
           params=dict(self=Inst(equality._EqualityStringMatcher), expected_contents=SS,
                       validator=Iface(PostSdsValidatorI)),
           ensures={'the strategies compare with the expected text; a match is True': lambda self, expected_contents:
                    self._applier._expected is expected_contents and self._applier._result_for_match.value is True
                    and self._applier._build_result_for_no_match == self._result_for_no_match},
           raises_only=())


# Assumed summaries of this module that follow from contracts PROVED for another property (Module.implied_by, ENGINE.md):
# the refinement obligations are generated by this property's check and the proved contract is re-proved here.
M.implied_by('exactly_lib.impls.instructions.utils.logic_type_resolving_helper:resolving_helper_for_instruction_env', 'C19')
