"""C05 -- text assertions and text transformers mean what the reference manual says (DESIGN.md 3/C05).
A text is any object satisfying the interface contract I_SSC of C14 (contracts/C14_text_value.py)."""
try:
    import z3
except ImportError:      # replays run under the repository's interpreter, without z3
    z3 = None

from pyvc.api import (Module, Interface, Method, Iface, Inst, Int, Nat, Pos, Bool, Str, Opt, OneOf, Const, Union,
                      ListOf, MListOf, IterOf, FixedList, Any_, Custom, new_opaque, assume_pred)
from pyvc.values import SStr, SList
from contracts.common import implies, iff, forall_range, exists_range, prefix_join, join_of, peek, is_find
from contracts import text_spec
from contracts.text_spec import NL, is_line, is_split_nl, split_nl

M = Module('C05')
text_spec.register_models(M)

P_REPL = 'exactly_lib.impls.types.string_transformer.impl.replace.impl'


# ------------------------------------------------------------------------------ replace: re-splitting
# `_lines_iterator_from_replacements(replacer, lines)`: the lines are arbitrary objects (strings, or pairs
# (string, line-matcher model)), the replacer is a function of the line.  With subs[j] = replacer(lines[j])
# and R = subs[0] + subs[1] + ...: the generator yields exactly split_nl(R).

def _sub_fn():
    return z3.Function('replacer()', z3.IntSort(), z3.StringSort())


class AnyLineI(Interface):
    """an input line of unknown type; known only by its position"""


class ReplacerFnI(Interface):
    """replacer: Callable[[LINE], str] -- a function of the line (here: of its position in the input)"""
    methods = {'__call__': Method(model=lambda interp, self, args, kwargs: SStr(_sub_fn()(args[0]._pv_index[0])))}


def _setup_subs(interp, args, ghosts):
    lines = args['lines']
    return {'subs': SList(lines.xs.length, lambda interp2, idx: SStr(_sub_fn()(idx)), 'subs')}


M.contract(P_REPL + ':_lines_iterator_from_replacements',
           params=dict(replacer=Iface(ReplacerFnI), lines=IterOf(Iface(AnyLineI))),
           setup=_setup_subs, yields=ListOf(Str),
           ensures={
               'yields split_nl of the concatenated replacements':
                   lambda yielded, subs: is_split_nl(yielded, join_of(subs)),
           },
           raises_only=())


def _inv_outer(_i, yielded, segments, subs):
    return join_of(yielded) + join_of(segments) == prefix_join(subs, _i) \
        and NL not in join_of(segments) \
        and forall_range(0, len(yielded), lambda j: is_line(yielded[j]) and yielded[j].endswith(NL))


def _inv_inner(_i0, yielded, segments, subs, sub_l, nli):
    # (the quantifier-free conjuncts first: what they establish about the pieces of sub_l is then known
    # to the path solver when the body slices sub_l)
    return is_find(nli, sub_l, NL) \
        and join_of(yielded) + join_of(segments) + sub_l == prefix_join(subs, _i0 + 1) \
        and NL not in join_of(segments) \
        and forall_range(0, len(yielded), lambda j: is_line(yielded[j]) and yielded[j].endswith(NL))


M.loop(P_REPL + ':_lines_iterator_from_replacements', 0, invariant=_inv_outer,
       modifies=dict(yielded='len', segments=MListOf(Str), sub_l='local', nli='local', line='local'))
M.loop(P_REPL + ':_lines_iterator_from_replacements', 1, invariant=_inv_inner,
       modifies=dict(yielded='len', segments=MListOf(Str), sub_l=Str, nli=Int))
