"""C05 -- text assertions and text transformers mean what the reference manual says (DESIGN.md 3/C05).
A text is any object satisfying the interface contract I_SSC of C14 (contracts/C14_text_value.py): one ghost
text `txt`; as_str == txt; as_lines yields split_nl(txt); the file decodes to txt.  "Whether the text is a
file, the output of the action to check, or a literal" is C14's obligation."""
try:
    import z3
except ImportError:      # replays run under the repository's interpreter, without z3
    z3 = None

from pyvc.api import (Module, Interface, Method, Iface, Inst, Int, Nat, Pos, Bool, Str, Opt, OneOf, Const, Union,
                      ListOf, MListOf, IterOf, FixedList, Any_, Custom, InPlace, InPlaceBy, new_opaque, assume_pred)
from pyvc.values import SStr, SList
from contracts.common import implies, iff, forall_range, exists_range, prefix_join, join_of, peek, is_find, is_opaque
from contracts import text_spec
from contracts.text_spec import NL, is_line, is_split_nl, split_nl, lines_of, nlines
from contracts.C14_text_value import SSCI, SSI, SSC, SS, PathI, file_text, txt_of, ss_txt, freeze_events

from exactly_lib.type_val_prims.matcher.matching_result import MatchingResult
from exactly_lib.impls.types.string_matcher.impl import equality, emptiness, num_lines

M = Module('C05')
text_spec.register_models(M)

P_REPL = 'exactly_lib.impls.types.string_transformer.impl.replace.impl'


# ------------------------------------------------------------------------------ replace: re-splitting
# `_lines_iterator_from_replacements(replacer, lines)`: the lines are arbitrary objects (strings, or pairs
# (string, line-matcher model)), the replacer is a function of the line.  With subs[j] = replacer(lines[j])
# and R = subs[0] + subs[1] + ...: the generator yields exactly split_nl(R).

def _sub_fn():
    return z3.Function('replacer()', z3.IntSort(), z3.StringSort())


class AnyLineI(Interface):
    """an input line of unknown type; known only by its position"""


class ReplacerFnI(Interface):
    """replacer: Callable[[LINE], str] -- a function of the line (here: of its position in the input)"""
    methods = {'__call__': Method(model=lambda interp, self, args, kwargs: SStr(_sub_fn()(args[0]._pv_index[0])))}


def _setup_subs(interp, args, ghosts):
    lines = args['lines']
    return {'subs': SList(lines.xs.length, lambda interp2, idx: SStr(_sub_fn()(idx)), 'subs')}


M.contract(P_REPL + ':_lines_iterator_from_replacements',
           params=dict(replacer=Iface(ReplacerFnI), lines=IterOf(Iface(AnyLineI))),
           setup=_setup_subs, yields=ListOf(Str),
           ensures={
               'yields split_nl of the concatenated replacements':
                   lambda yielded, subs: is_split_nl(yielded, join_of(subs)),
           },
           raises_only=())


def _inv_outer(_i, yielded, segments, subs):
    return join_of(yielded) + join_of(segments) == prefix_join(subs, _i) \
        and NL not in join_of(segments) \
        and forall_range(0, len(yielded), lambda j: is_line(yielded[j]) and yielded[j].endswith(NL))


def _inv_inner(_i0, yielded, segments, subs, sub_l, nli):
    # (the quantifier-free conjuncts first: what they establish about the pieces of sub_l is then known
    # to the path solver when the body slices sub_l)
    return is_find(nli, sub_l, NL) \
        and join_of(yielded) + join_of(segments) + sub_l == prefix_join(subs, _i0 + 1) \
        and NL not in join_of(segments) \
        and forall_range(0, len(yielded), lambda j: is_line(yielded[j]) and yielded[j].endswith(NL))


M.loop(P_REPL + ':_lines_iterator_from_replacements', 0, invariant=_inv_outer,
       modifies=dict(yielded='len', segments=MListOf(Str), sub_l='local', nli='local', line='local'))
M.loop(P_REPL + ':_lines_iterator_from_replacements', 1, invariant=_inv_inner,
       modifies=dict(yielded='len', segments=MListOf(Str), sub_l=Str, nli=Int))


# ------------------------------------------------------------------------------ reading a prefix of a text
# `read_lines_as_str__w_minimum_num_chars(m, lines)`: whole lines are read from the start until at least m
# characters have been read.  With L = the text that the lines make up: the result (c, more) is
#   c == L and not more                 if |L| <  m
#   |c| >= m and more, c a prefix of L   if |L| >= m

P_RL = 'exactly_lib.util.str_.read_lines'
P_SS = 'exactly_lib.type_val_prims.string_source.string_source'


def prefix_len_lemma(xs, i):
    """TRUSTED LEMMA about the spec function prefix_join (induction over the list; bounded-checked in the check
    `lemmas`): the joined prefix of i items is a prefix of the join of all, in particular not longer."""
    return implies(0 <= i <= len(xs), join_of(xs).startswith(prefix_join(xs, i)))


def _m_prefix_len_lemma(interp, args, kwargs):
    from pyvc import texts
    from pyvc.values import to_z3
    xs, i = args
    whole = to_z3(texts.join_all(interp, xs))
    part = to_z3(texts.prefix_join(interp, xs, i))
    ti = to_z3(i)
    interp.st._add(z3.Implies(z3.And(ti >= 0, ti <= xs.length),
                              z3.And(z3.PrefixOf(part, whole), z3.Length(part) <= z3.Length(whole))))
    return True


M.model(prefix_len_lemma, _m_prefix_len_lemma)

def _advance_iter(interp, it, tag):
    """the callee consumes some of the iterator: its position afterwards is arbitrary, not before the old one"""
    from pyvc import models
    from pyvc.values import to_z3, wrap
    it = models.as_siter(interp, it)
    p0 = to_z3(it.pos) if not isinstance(it.pos, int) else z3.IntVal(it.pos)
    p1 = interp.st.fresh_int(tag + '.pos')
    interp.st.assume(z3.And(p1 >= p0, p1 <= it.xs.length))
    it.pos = wrap(p1)


M.contract(P_RL + ':read_lines_as_str__w_minimum_num_chars',
           params=dict(min_num_chars_to_read=Int, lines=IterOf(Str)),
           requires=lambda min_num_chars_to_read: min_num_chars_to_read >= 1,
           returns=FixedList(Str, Bool, as_tuple=True),
           modifies={'lines': InPlaceBy(_advance_iter)},
           ensures={
               'whole lines from the start': lambda lines, result: result[0] == prefix_join(lines.xs, lines.pos),
               'a short text is read completely, and is known to be complete':
                   lambda lines, min_num_chars_to_read, result:
                   prefix_len_lemma(lines.xs, lines.pos)
                   and implies(len(join_of(lines.xs)) < min_num_chars_to_read,
                               result[0] == join_of(lines.xs) and not result[1]),
               'of a long text at least the minimum is read, and it is reported as possibly longer':
                   lambda lines, min_num_chars_to_read, result:
                   prefix_len_lemma(lines.xs, lines.pos)
                   and implies(len(join_of(lines.xs)) >= min_num_chars_to_read,
                               len(result[0]) >= min_num_chars_to_read and result[1]),
               'no line more than needed': lambda lines, min_num_chars_to_read:
               lines.pos == 0 or len(prefix_join(lines.xs, lines.pos - 1)) < min_num_chars_to_read,
           }, raises_only=())
M.loop(P_RL + ':read_lines_as_str__w_minimum_num_chars', 0,
       invariant=lambda _i, _xs, actual_lines, actual_read, min_num_chars_to_read:
       join_of(actual_lines) == prefix_join(_xs, _i) and actual_read == len(prefix_join(_xs, _i))
       and actual_read < min_num_chars_to_read and len(actual_lines) == _i,
       modifies=dict(actual_lines=MListOf(Str), actual_read=Int, line='local'))

M.contract(P_SS + ':read_lines_as_str__w_minimum_num_chars',
           params=dict(min_num_chars_to_read=Int, source=SSC),
           requires=lambda min_num_chars_to_read: min_num_chars_to_read >= 1,
           returns=FixedList(Str, Bool, as_tuple=True),
           ensures={
               'a prefix of the text': lambda source, result: source.txt.startswith(result[0]),
               'a short text is read completely': lambda source, min_num_chars_to_read, result:
               implies(len(source.txt) < min_num_chars_to_read, result[0] == source.txt and not result[1]),
               'of a long text at least the minimum is read': lambda source, min_num_chars_to_read, result:
               implies(len(source.txt) >= min_num_chars_to_read,
                       len(result[0]) >= min_num_chars_to_read and result[1]),
           }, raises_only=())


# ------------------------------------------------------------------------------ equals
# Each of the four strategies of `equals` (chosen by where the two texts come from) gives True exactly when
# the two texts are equal.

P_EQ = 'exactly_lib.impls.types.string_matcher.impl.equality'

RESULT_TRUE = Inst(MatchingResult, _value=Const(True), _trace=Any_)


def _no_match_result(interp, self, args, kwargs):
    r = object.__new__(MatchingResult)
    r._value = False
    r._trace = Any_.make(interp, 'trace')
    return r


class NoMatchBuilderI(Interface):
    """build_result_for_no_match: builds a MatchingResult whose value is False from details
    (`_EqualityStringMatcher._result_for_no_match`, proved below)"""
    methods = {'__call__': Method(model=_no_match_result)}


APPLIER = Inst(equality._ApplierWExtDepsCases, _build_result_for_no_match=Iface(NoMatchBuilderI),
               _result_for_match=RESULT_TRUE, _expected=SS, _expected_unfrozen_has_ext_deps=Bool)


def _texts_equal(self, actual, result):
    return result.value == (self._expected.txt == actual.txt)


M.contract(P_EQ + ':_diff_detail', params=dict(get_actual_lines=Any_, get_expected_lines=Any_), returns=Any_,
           trusted=True)
M.trust('equality._diff_detail (difflib.unified_diff over the lines of both texts) only builds a detail of the error '
        'message of a failed `equals`; assumed to return: it is not part of the verdict')

M.contract(P_EQ + ':_min_num_chars_to_read', params=dict(operand=Str), returns=Int,
           ensures={'more than the operand has: a text that is read that far and still equal is equal':
                    lambda operand, result: result >= len(operand) + 1},
           raises_only=())

for _strategy in ('_ext_deps__none', '_ext_deps__only_actual', '_ext_deps__only_expected'):
    M.contract('%s:_ApplierWExtDepsCases.%s' % (P_EQ, _strategy), params=dict(self=APPLIER, actual=SSC),
               returns=Inst(MatchingResult, _value=Bool, _trace=Any_),
               ensures={'True iff the two texts are equal': _texts_equal}, raises_only=())

M.contract(P_EQ + ':_ApplierWExtDepsCases._freeze_and_read_expected_header',
           params=dict(self=APPLIER, min_num_chars=Int), requires=lambda min_num_chars: min_num_chars >= 1,
           returns=FixedList(Str, Bool, as_tuple=True),
           ensures={
               'a prefix of the expected text': lambda self, result: self._expected.txt.startswith(result[0]),
               'a short text is read completely': lambda self, min_num_chars, result:
               implies(len(self._expected.txt) < min_num_chars, result[0] == self._expected.txt and not result[1]),
               'of a long text at least the minimum is read': lambda self, min_num_chars, result:
               implies(len(self._expected.txt) >= min_num_chars, len(result[0]) >= min_num_chars and result[1]),
           }, raises_only=())

BOTH_HANDLER = Inst(equality._ExtDepsOfBothHandler, _result_for_match=RESULT_TRUE,
                    _build_result_for_no_match=Iface(NoMatchBuilderI), _expected=Iface(PathI))

M.contract(P_EQ + ':_ExtDepsOfBothHandler.match', params=dict(self=BOTH_HANDLER, actual=SSC),
           returns=Inst(MatchingResult, _value=Bool, _trace=Any_),
           ensures={'True iff the two texts are equal (relative to _do_compare, see C14)': lambda self, actual, result:
                    result.value == (file_text(self._expected) == actual.txt)},
           raises_only=())

M.contract(P_EQ + ':_ApplierWExtDepsCases.match', params=dict(self=APPLIER, actual=SSC),
           returns=Inst(MatchingResult, _value=Bool, _trace=Any_),
           ensures={'True iff the two texts are equal, whichever strategy is chosen': _texts_equal,
                    'the expected text is frozen (it is read more than once)': lambda self, trace:
                    len(freeze_events(trace, self._expected)) == 1},
           raises_only=())


# ------------------------------------------------------------------------------ is-empty, num-lines

P_EMPTY = 'exactly_lib.impls.types.string_matcher.impl.emptiness'
P_NUM_LINES = 'exactly_lib.impls.types.string_matcher.impl.num_lines'

EMPTINESS = Inst(emptiness.EmptinessStringMatcher, _structure_renderer=Any_)

M.contract(P_EMPTY + ':EmptinessStringMatcher._first_line', params=dict(file_to_check=SS), returns=Str,
           ensures={'empty iff the text is empty': lambda file_to_check, result:
                    iff(result == '', file_to_check.txt == '')},
           raises_only=())

M.contract(P_EMPTY + ':EmptinessStringMatcher.matches_w_trace', params=dict(self=EMPTINESS, model=SS),
           ensures={'True iff the text is empty': lambda model, result: result.value == (model.txt == '')},
           raises_only=())

M.contract(P_NUM_LINES + ':_PropertyGetter.get_from',
           params=dict(self=Inst(num_lines._PropertyGetter, _structure_renderer=Any_), model=SS), returns=Int,
           ensures={'the number of lines of the text': lambda model, result: result == nlines(model.txt)},
           raises_only=())
M.loop(P_EMPTY + ':EmptinessStringMatcher._first_line', 0, invariant=lambda _i: _i == 0, modifies={'line': 'local'})
M.loop(P_NUM_LINES + ':_PropertyGetter.get_from', 0, invariant=lambda _i, ret_val: ret_val == _i,
       modifies=dict(ret_val=Int, _='local'))
