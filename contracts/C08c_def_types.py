"""C08, "every reference is checked against the type demanded by its context" presupposes that the type recorded for a
symbol is the type it was DEFINED with:  in `def TYPE NAME = VALUE` the type named is the value type of the container
that `def` puts into the symbol table (`TheInstructionEmbryo.main`, contracts/C08_symbols.py), the name is NAME, and the
value is what the value parser registered for TYPE parsed.

 * `define_symbol.parser._parse` is under contract for every token stream (the token parser and the thirteen value
   parsers are the environment: any tokens, any value; syntax of tokens / values: C09, C05, C06, C10, C12 ...);
 * check `def-type-table` (enumeration over the real tables): `type_setup.TYPE_SETUPS` is keyed by the type names of the
   syntax, one entry per ValueType, each with the value type of that name;
 * `EmbryoParser.parse` is under contract: the instruction defines NAME as a SymbolContainer of exactly the value and
   THE VALUE TYPE that `_parse` returned (the ParseSource, the token parser made from it and the source-location
   record are the environment; `splitlines()` = some list of strings);
 * bounded stand-in `def-value-classes`: the real `EmbryoParser.parse` on sample definitions of every type -- the
   container has the named type, and the value is of the class that the users of that type demand
   (`symbol_lookup.lookup_<type>`), the name is NAME."""
from pyvc.api import (Module, Interface, Method, Iface, Inst, Int, Bool, Str, Opt, ListOf, FixedList, EnumOf, CtxOf, Any_)
from contracts.common import implies, iff, forall_range
from contracts.C09_strings import valid_name

from exactly_lib.definitions.test_case.instructions import define_symbol as syntax
from exactly_lib.impls.instructions.multi_phase.define_symbol import parser as def_parser, type_setup, type_parser
from exactly_lib.section_document.element_parsers.instruction_parser_exceptions import \
    SingleInstructionInvalidArgumentException
from exactly_lib.section_document.element_parsers.token_stream_parser import TokenParser
from exactly_lib.symbol.sdv_structure import SymbolDependentValue
from exactly_lib.symbol.value_type import ValueType

M = Module('C08')

P_DEF = 'exactly_lib.impls.instructions.multi_phase.define_symbol.parser'
P_TYPE_PARSER = 'exactly_lib.impls.instructions.multi_phase.define_symbol.type_parser'

UNQUOTED = 'unquoted-token'
CONSTANT = 'constant-token'
EOL_CHECK = 'no-superfluous-arguments'
VALUE_PARSED = 'value-parsed'


def _invalid(interp, o):
    return SingleInstructionInvalidArgumentException('invalid')


class TokenParserI(Interface):
    """the token stream of the instruction's source (environment: any tokens; C09)"""
    target_class = TokenParser
    methods = {
        'consume_mandatory_unquoted_string': Method(returns=Str, event=UNQUOTED, may_raise=(_invalid,)),
        'consume_mandatory_constant_unquoted_string': Method(event=CONSTANT, may_raise=(_invalid,)),
        'report_superfluous_arguments_if_not_at_eol': Method(event=EOL_CHECK, may_raise=(_invalid,)),
    }


class ValueSdvI(Interface):
    """what a value parser gives (environment: any value)"""
    target_class = SymbolDependentValue


VALUE_PARSER_CLASSES = sorted(n for n, c in vars(type_parser).items()
                              if isinstance(c, type) and issubclass(c, type_parser.TypeValueParser)
                              and c is not type_parser.TypeValueParser)

for _cls in VALUE_PARSER_CLASSES:
    M.contract('%s:%s.parse' % (P_TYPE_PARSER, _cls), trusted=True, event=VALUE_PARSED,
               params=dict(self=Any_, fs_location_info=Any_, token_parser=Any_), returns=Iface(ValueSdvI),
               may_raise=(SingleInstructionInvalidArgumentException,))
M.trust('define_symbol.type_parser.<Type>Parser.parse(fs_location_info, token_parser) (13 classes): parses a value of '
        'its type from the token stream -- some SymbolDependentValue, or SingleInstructionInvalidArgumentException '
        '(environment of `def`: the value syntaxes are C05/C06/C09/C10/C12/C13/C15; which class of value each gives: '
        'bounded stand-in `def-value-classes`).  Ghost event with the parser object that was asked.')


def unquoted_tokens(trace):
    """the unquoted strings consumed so far, in order"""
    return [e[2] for e in trace if e[0] == UNQUOTED + ':returned']


def value_parsings(trace):
    return [e for e in trace if e[0] == VALUE_PARSED]


def kinds(trace):
    """what was asked of the token stream / the value parsers, in order"""
    return [e[0] for e in trace if e[0] in (UNQUOTED, CONSTANT, EOL_CHECK, VALUE_PARSED)]


DEF_PARSED = 'def-parsed'

M.contract(P_DEF + ':_parse', params=dict(fs_location_info=Any_, parser=Iface(TokenParserI)),
           returns=FixedList(Str, EnumOf(ValueType), Iface(ValueSdvI), as_tuple=True), event=DEF_PARSED,
           ensures={
               'def TYPE NAME = VALUE: type, name, "=", value, end of line -- in this order, each once':
                   lambda trace: kinds(trace) == [UNQUOTED, UNQUOTED, CONSTANT, VALUE_PARSED, EOL_CHECK]
                   and [e[2][0] for e in trace if e[0] == CONSTANT] == [syntax.ASSIGNMENT_ARGUMENT],
               'the type named is the type recorded for the symbol: the value type whose name in the syntax of def '
               'is TYPE': lambda result, trace:
               syntax.ANY_TYPE_INFO_DICT[result[1]].identifier == unquoted_tokens(trace)[0],
               'the name is NAME, a valid symbol name': lambda result, trace:
               result[0] == unquoted_tokens(trace)[1] and valid_name(result[0]),
               'the value is what the value parser registered for TYPE parsed from this token stream':
                   lambda fs_location_info, parser, result, trace:
                   value_parsings(trace)[0][1]['self'] is type_setup.TYPE_SETUPS[unquoted_tokens(trace)[0]].parser
                   and value_parsings(trace)[0][1]['token_parser'] is parser
                   and value_parsings(trace)[0][1]['fs_location_info'] is fs_location_info
                   and result[2] is [e[2] for e in trace if e[0] == VALUE_PARSED + ':returned'][0],
           },
           raises={SingleInstructionInvalidArgumentException: {
               'ensures': lambda trace:
               # an unknown TYPE or an invalid NAME is rejected before anything further is consumed
               len(unquoted_tokens(trace)) == 0
               or (len(unquoted_tokens(trace)) == 1 and kinds(trace) in ([UNQUOTED], [UNQUOTED, UNQUOTED]))
               or (len(unquoted_tokens(trace)) == 2 and unquoted_tokens(trace)[0] in type_setup.TYPE_SETUPS
                   and (valid_name(unquoted_tokens(trace)[1]) or kinds(trace) == [UNQUOTED, UNQUOTED]))}},
           raises_only=(SingleInstructionInvalidArgumentException,))


# ------------------------------------------------------------------------------ EmbryoParser.parse: the definition built
# The source bookkeeping (which lines the definition was written on) is outside the property: the ParseSource, the
# token parser made from it and the source-location record are the environment; `splitlines()` is some list of strings.

from exactly_lib.section_document.parse_source import ParseSource
from exactly_lib.section_document.source_location import FileSystemLocationInfo
from exactly_lib.symbol.sdv_structure import SymbolContainer, SymbolDefinition

M.weak_splitlines = True
TOKEN_PARSER_OF_SOURCE = 'token-parser-of-source'
SOURCE_INFO = 'source-location-info'


class ParseSourceI(Interface):
    target_class = ParseSource
    attrs = {'current_line_number': Int, 'current_line_text': Str, 'column_index': Int}
    props = {'remaining_source': lambda interp, self: Str.make(interp, 'remaining_source')}   # changes while parsing


class SourceFileI(Interface):
    methods = {'source_location_info_for': Method(returns=Any_, event=SOURCE_INFO)}


class FsLocationI(Interface):
    target_class = FileSystemLocationInfo
    attrs = {'current_source_file': Iface(SourceFileI)}


M.contract('exactly_lib.section_document.element_parsers.token_stream_parser:from_parse_source', trusted=True,
           event=TOKEN_PARSER_OF_SOURCE,
           params=dict(source=Any_, consume_last_line_if_is_at_eol_after_parse=Any_,
                       consume_last_line_if_is_at_eof_after_parse=Any_),
           returns=CtxOf(Iface(TokenParserI)))
M.trust('token_stream_parser.from_parse_source(source, ..): context manager giving a TokenParser over the remaining '
        'source of the ParseSource, which is advanced afterwards (C07/C09; the source bookkeeping is outside C08)')


def def_parsed(trace):
    """what the one call of _parse returned: (name, value type, value)"""
    rs = [e for e in trace if e[0] == DEF_PARSED + ':returned']
    if len(rs) != 1:
        raise ValueError('not exactly one _parse')
    return rs[0]


M.contract(P_DEF + ':EmbryoParser.parse',
           params=dict(self=Any_, fs_location_info=Iface(FsLocationI), source=Iface(ParseSourceI)),
           ensures={
               'the definition is parsed once, from a token parser made of this source': lambda fs_location_info, source, trace:
               [e[1]['source'] for e in trace if e[0] == TOKEN_PARSER_OF_SOURCE] == [source]
               and def_parsed(trace)[1]['fs_location_info'] is fs_location_info,
               'the instruction defines NAME as a container of the parsed value with THE TYPE NAMED':
                   lambda result, trace:
                   type(result) is def_parser.TheInstructionEmbryo and type(result.symbol) is SymbolDefinition
                   and result.symbol.name == def_parsed(trace)[2][0]
                   and type(result.symbol.symbol_container) is SymbolContainer
                   and result.symbol.symbol_container.value_type is def_parsed(trace)[2][1]
                   and result.symbol.symbol_container.sdv is def_parsed(trace)[2][2],
           },
           raises={SingleInstructionInvalidArgumentException: {
               'ensures': lambda trace: len([e for e in trace if e[0] == DEF_PARSED + ':returned']) == 0}},
           raises_only=(SingleInstructionInvalidArgumentException,))


@M.check('def-type-table')
def _def_type_table(ctx):
    """type_setup.TYPE_SETUPS against the syntax tables of the definitions package (independent of type_setup)"""
    setups = type_setup.TYPE_SETUPS
    ctx.obligation('one def type per value type (%d)' % len(ValueType),
                   sorted(ts.value_type.name for ts in setups.values()) == sorted(v.name for v in ValueType)
                   and len(setups) == len(type_setup.TYPE_SETUPS_LIST), 'enumeration',
                   detail={'types': sorted(setups)})
    for name, ts in sorted(setups.items()):
        ctx.obligation('def type %r is the value type of that name' % name,
                       syntax.ANY_TYPE_INFO_DICT[ts.value_type].identifier == name
                       and ts.type_info.value_type is ts.value_type, 'enumeration')
    ctx.obligation('every value parser class of type_parser is registered for exactly one type',
                   sorted(type(ts.parser).__name__ for ts in setups.values()) == VALUE_PARSER_CLASSES, 'enumeration')


@M.bounded('def-value-classes')
def _def_value_classes(ctx):
    """The real `EmbryoParser.parse` on sample definitions `TYPE NAME = VALUE` of every type (2-3 values each, names of
    several shapes): the symbol definition has the name NAME, its container has the value type named TYPE, the value
    is of the class that the users of that type demand when they look the symbol up (`symbol_lookup.lookup_<type>`
    asserts it; files-source / text-source: their Sdv base class), and `main` puts exactly that container under NAME.
    The matcher types share one class (MatcherSdv): WHICH matcher type a matcher value has is not checked here.
    NOT counted as proved."""
    import pathlib
    from exactly_lib.section_document.parse_source import ParseSource
    from exactly_lib.section_document.source_location import FileSystemLocationInfo, FileLocationInfo
    from exactly_lib.type_val_deps.sym_ref import symbol_lookup
    from exactly_lib.type_val_deps.types.files_source.sdv import FilesSourceSdv
    from exactly_lib.type_val_deps.types.string_source.sdv import StringSourceSdv
    from exactly_lib.util.symbol_table import SymbolTable

    fli = FileSystemLocationInfo(FileLocationInfo(pathlib.Path('/abs')))
    samples = {
        ValueType.STRING: ['hello', '"a b"', 'x@[OTHER]@y'],
        ValueType.LIST: ['a b c', '@[OTHER]@ "x y"', 'single'],
        ValueType.PATH: ['-rel-act f.txt', 'f.txt', '-rel-home dir/f'],
        ValueType.INTEGER_MATCHER: ['== 1', '> 5'],
        ValueType.LINE_MATCHER: ['line-num == 1', 'line-num > 2'],
        ValueType.FILE_MATCHER: ['type file', 'type dir'],
        ValueType.FILES_MATCHER: ['is-empty', 'num-files == 2'],
        ValueType.FILES_CONDITION: ['{ }', '{ f.txt }'],
        ValueType.FILES_SOURCE: ['{ }'],
        ValueType.STRING_SOURCE: ['"x"', 'unquoted'],
        ValueType.STRING_MATCHER: ['is-empty', 'num-lines == 1'],
        ValueType.STRING_TRANSFORMER: ['strip', 'char-case -to-upper'],
        ValueType.PROGRAM: ['% ls', '$ echo hi'],
    }
    demanded_class = {ValueType.FILES_SOURCE: FilesSourceSdv, ValueType.STRING_SOURCE: StringSourceSdv}
    names = ['s', 'NAME', 'a_1', '_x']
    cases, failures = 0, []
    for vt in ValueType:
        type_name = syntax.ANY_TYPE_INFO_DICT[vt].identifier
        for value in samples[vt]:
            for name in names:
                cases += 1
                text = '%s %s = %s' % (type_name, name, value)
                try:
                    embryo = def_parser.EmbryoParser().parse(fli, ParseSource(text))
                    definition = embryo.symbol
                    container = definition.symbol_container
                    table = SymbolTable()
                    embryo.custom_main(table)
                    problems = []
                    if definition.name != name:
                        problems.append('name %r' % definition.name)
                    if container.value_type is not vt:
                        problems.append('value type %s' % container.value_type)
                    if not (table.contains(name) and table.lookup(name) is container and len(table.names_set) == 1):
                        problems.append('table %r' % sorted(table.names_set))
                    if vt in demanded_class:
                        if not isinstance(container.sdv, demanded_class[vt]):
                            problems.append('class %s' % type(container.sdv).__name__)
                    else:
                        try:
                            getattr(symbol_lookup, 'lookup_' + vt.name.lower())(table, name)
                        except AssertionError as e:
                            problems.append('lookup: %s' % e)
                except Exception as e:
                    problems = ['%s: %s' % (type(e).__name__, str(e)[:120])]
                if problems:
                    failures.append({'input': text, 'expected': '%s symbol %s' % (vt.name, name),
                                     'actual': '; '.join(problems)})
    ctx.bounded_result('define_symbol EmbryoParser.parse: named type = recorded type = class of the value',
                       bound='13 types x 1-3 sample values x 4 names', cases=cases, exhaustive=False,
                       failures=failures, note='class oracle: symbol_lookup.lookup_<type> / Sdv base class')


# ------------------------------------------------------------------------------ the path restriction (C12)
# "every reference is checked against the type demanded by its context": a reference in a path context demands a PATH
# whose (resolved) relativity is accepted.  `PathAndRelativityRestriction.is_satisfied_by` -- the one restriction class
# that contracts/C08_symbols.py left to the assumption about opaque restrictions -- is under contract in C12 (satisfied
# iff the symbol is a path and the relativity of the path it resolves to is accepted; nothing raised; the symbol table
# is a frame there), together with `relativity_validation.is_satisfied_by`, the path reference restrictions built from
# it and the focused contract of ReferenceRestrictionsOnDirectAndIndirect for path restrictions.  They carry C08 too:
# the check of C08 re-proves them on the current tree.

def _share_path_restriction():
    from contracts.common import share_contracts
    share_contracts('C08', 'contracts.C12_paths',
                    lambda q: q.endswith(':PathAndRelativityRestriction.is_satisfied_by')
                    or q == 'exactly_lib.tcfs.relativity_validation:is_satisfied_by'
                    or q.endswith(':reference_restrictions_for_path_symbol')
                    or q.endswith('path.references:path_relativity_restriction'))


M.after_load = _share_path_restriction
