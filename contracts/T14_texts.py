"""T14 -- engine self-test for sequences of strings (prefix-join measure, append, iterators, generator
summaries).  ok_* must verify, bad_* must be refuted.  Not a property of the repository."""
from pyvc.api import Module, Int, Nat, Bool, Str, Opt, ListOf, MListOf, IterOf, FixedList, OneOf, Inst
from contracts.common import implies, iff, forall_range, exists_range, prefix_join, join_of, is_find, peek

M = Module('T14')
P = 'contracts.T14_texts'


def ok_join_loop(xs):
    acc = ''
    for x in xs:
        acc = acc + x
    return acc


M.contract(P + ':ok_join_loop', params=dict(xs=ListOf(Str)), returns=Str,
           ensures={'join': lambda xs, result: result == join_of(xs)}, raises_only=())
M.loop(P + ':ok_join_loop', 0, invariant=lambda _i, xs, acc: acc == prefix_join(xs, _i),
       modifies=dict(acc=Str, x='local'))


def ok_collect(xs):
    out = []
    n = 0
    for x in xs:
        out.append(x)
        n += len(x)
    return ''.join(out), n


M.contract(P + ':ok_collect', params=dict(xs=ListOf(Str)),
           ensures={'join': lambda xs, result: result[0] == join_of(xs),
                    'len': lambda xs, result: result[1] == len(join_of(xs))}, raises_only=())
M.loop(P + ':ok_collect', 0,
       invariant=lambda _i, xs, out, n: join_of(out) == prefix_join(xs, _i) and n == len(prefix_join(xs, _i))
                                        and len(out) == _i,
       modifies=dict(out=MListOf(Str), n=Int, x='local'))


def bad_collect(xs):
    out = []
    for x in xs:
        if x != 'skip':
            out.append(x)
    return ''.join(out)


M.contract(P + ':bad_collect', params=dict(xs=ListOf(Str)), returns=Str,
           ensures={'join': lambda xs, result: result == join_of(xs)}, raises_only=())
M.loop(P + ':bad_collect', 0,
       invariant=lambda _i, xs, out: join_of(out) == prefix_join(xs, _i),
       modifies=dict(out=MListOf(Str), x='local'))


def ok_gen_copy(lines):
    for line in lines:
        yield line
    yield 'end'


M.contract(P + ':ok_gen_copy', params=dict(lines=IterOf(Str)), old=lambda lines: peek(lines), yields=ListOf(Str),
           ensures={'count': lambda old, yielded: len(yielded) == len(old) + 1,
                    'last': lambda yielded: yielded[len(yielded) - 1] == 'end',
                    'join': lambda old, yielded: join_of(yielded) == join_of(old) + 'end'}, raises_only=())
M.loop(P + ':ok_gen_copy', 0,
       invariant=lambda _i, _xs, yielded: len(yielded) == _i and join_of(yielded) == prefix_join(_xs, _i),
       modifies=dict(yielded='len', line='local'))

EXPECTED_REFUTED = {
    P + ':bad_collect : loop#0 invariant[preserved]',
}
