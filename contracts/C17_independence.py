"""C17 -- cases are independent; suite contents apply alike standalone and in a suite run.
See DESIGN.md section 3 / C17.

Two kinds of facts:
 (1) freshness / no aliasing: what one case can mutate (environ dicts, symbol table, instruction settings,
     current directory, sandbox) is created anew for the next one -- `_Executor._exe_conf_that_may_be_updated`,
     `_Executor.apply` here; `_PartialExecutor.__init__`, `partial_execution.execute` (preserved cwd, sandbox per
     execution) in C04 (those contracts carry both property ids);
 (2) construction equalities: the suite route (`_SingleFileReader.__call__` -> `SuitesExecutor`) and the standalone
     route (`AccessorResolver`) both obtain the handling setup from
     `resolve_test_case_handling_setup(read_suite_document(SUITE, parser, parsing setup), default)` and hand its
     parts to the same constructors; the transformer puts the suite's phase contents first (cleanup: last); a
     sub-suite's setup is resolved from its own document and the environment default.
"""
import pathlib

from pyvc import fsmodel
from pyvc.api import (Module, Interface, Method, Iface, Inst, Int, Nat, Pos, Bool, Str, Opt, OneOf, Const, Union,
                      ListOf, FixedList, Any_, EnumOf, Custom, Dependent, new_opaque)
from contracts.common import implies, iff, forall_range
from contracts import C04_sandbox as c04
from contracts.C04_sandbox import events, same_object, is_fresh_copy

from exactly_lib.processing import processors, processing_utils, test_case_handling_setup as tchs
from exactly_lib.processing.standalone import accessor_resolver
from exactly_lib.processing.test_case_handling_setup import TestCaseHandlingSetup, ComposedTestCaseTransformer, \
    TestCaseTransformer
from exactly_lib.section_document.model import SectionContents, ElementType
from exactly_lib.test_case import test_case_doc
from exactly_lib.test_suite import test_suite_doc, structure
from exactly_lib.test_suite import processing as suite_processing
from exactly_lib.test_suite.file_reading import suite_file_reading, suite_hierarchy_reading
from exactly_lib.test_suite.instruction_set.sections.configuration.instruction_definition import \
    ConfigurationSectionEnvironment, ConfigurationSectionInstruction

M = Module('C17')

P_SFR = 'exactly_lib.test_suite.file_reading.suite_file_reading'
P_SHR = 'exactly_lib.test_suite.file_reading.suite_hierarchy_reading'
P_TCHS = 'exactly_lib.processing.test_case_handling_setup'
P_PROC = 'exactly_lib.processing.processors'
P_ACC = 'exactly_lib.processing.standalone.accessor_resolver'
P_SUITE = 'exactly_lib.test_suite.processing'

M.assume('determinism below the constructors: the same handling setup, parsing setup, case file and execution '
         'configuration give the same outcome (processes, clocks and temp-dir names are outside) -- DESIGN C17')
M.assume('os.environ is never written and the current directory is restored after each execution (C04)')

# ============================================================================ phase contents: suite first, cleanup last

SECTION = Inst(SectionContents, _elements=ListOf(Any_))
TEST_CASE = Inst(test_case_doc.TestCase, _tuple=[SECTION, SECTION, SECTION, SECTION, SECTION, SECTION])
SUITE_DOC = Inst(test_suite_doc.TestSuiteDocument, _tuple=[Any_, Any_, Any_, TEST_CASE])
ADDER = Inst(suite_file_reading._TestCaseInstructionsFromTestSuiteAdder, _test_suite=SUITE_DOC)

for _q in ('exactly_lib.test_case.test_case_doc:TestCase.__assert_instruction_class',
           'exactly_lib.test_suite.test_suite_doc:_assert_instruction_class'):
    M.contract(_q, trusted=True, params=dict(phase_contents=Any_, instruction_class=Any_))
M.trust('TestCase.__assert_instruction_class / test_suite_doc._assert_instruction_class consist of `assert '
        'isinstance(...)` statements only (the code\'s own dynamic type checks, taken as assumptions): no effect')


def is_concat_at(r, a, b, j):
    """the sequence r is a followed by b (element identity), stated at an arbitrary index j"""
    return (len(r) == len(a) + len(b)
            and (j >= len(a) or r[j] is a[j])
            and (j >= len(b) or r[len(a) + j] is b[j]))


def suite_contents_first(result, suite, case, k, j):
    return is_concat_at(result[k].elements, suite[k].elements, case[k].elements, j)


M.contract(P_SFR + ':_TestCaseInstructionsFromTestSuiteAdder.transform',
           params=dict(self=ADDER, test_case=TEST_CASE), returns=TEST_CASE,
           ghosts=dict(j=Nat),       # an arbitrary position: the clauses hold for every j
           ensures={
               'conf: suite contents first': lambda self, test_case, result, j:
               suite_contents_first(result, self._test_suite.case_phases, test_case, 0, j),
               'setup: suite contents first': lambda self, test_case, result, j:
               suite_contents_first(result, self._test_suite.case_phases, test_case, 1, j),
               'act: suite contents first': lambda self, test_case, result, j:
               suite_contents_first(result, self._test_suite.case_phases, test_case, 2, j),
               'before-assert: suite contents first': lambda self, test_case, result, j:
               suite_contents_first(result, self._test_suite.case_phases, test_case, 3, j),
               'assert: suite contents first': lambda self, test_case, result, j:
               suite_contents_first(result, self._test_suite.case_phases, test_case, 4, j),
               'cleanup: suite contents LAST': lambda self, test_case, result, j:
               is_concat_at(result.cleanup_phase.elements, test_case.cleanup_phase.elements,
                            self._test_suite.case_phases.cleanup_phase.elements, j),
               'the case and the suite document are not changed': lambda self, test_case, result:
               result is not test_case and result is not self._test_suite.case_phases,
           },
           raises_only=())


class TransformerI(Interface):
    """any TestCaseTransformer (the default one of the handling setup is the identity)"""
    target_class = TestCaseTransformer
    methods = {'transform': Method(returns=Any_, event='transform')}


M.contract(P_TCHS + ':ComposedTestCaseTransformer.transform',
           params=dict(self=Inst(ComposedTestCaseTransformer, _first=Iface(TransformerI),
                                 _second=Iface(TransformerI)),
                       test_case=Any_), inline=True,
           ensures={'second after first': lambda self, test_case, result, trace:
           [e[:2] for e in trace] == [('transform', self._first), ('transform:returned', self._first),
                                      ('transform', self._second), ('transform:returned', self._second)]
           and trace[0][2][0] is test_case and trace[2][2][0] is trace[1][2] and result is trace[3][2]},
           raises_only=())

M.contract(P_TCHS + ':TestCaseTransformer.transform', params=dict(self=Inst(TestCaseTransformer), test_case=Any_),
           inline=True, ensures={'identity': lambda test_case, result: result is test_case}, raises_only=())
