"""C17 -- cases are independent; suite contents apply alike standalone and in a suite run.
See DESIGN.md section 3 / C17.

Two kinds of facts:
 (1) freshness / no aliasing: what one case can mutate (environ dicts, symbol table, instruction settings,
     current directory, sandbox) is created anew for the next one -- `_Executor._exe_conf_that_may_be_updated`,
     `_Executor.apply` here; `_PartialExecutor.__init__`, `partial_execution.execute` (preserved cwd, sandbox per
     execution) in C04 (those contracts carry both property ids);
 (2) construction equalities: the suite route (`_SingleFileReader.__call__` -> `SuitesExecutor`) and the standalone
     route (`AccessorResolver`) both obtain the handling setup from
     `resolve_test_case_handling_setup(read_suite_document(SUITE, parser, parsing setup), default)` and hand its
     parts to the same constructors; the transformer puts the suite's phase contents first (cleanup: last); a
     sub-suite's setup is resolved from its own document and the environment default.
"""
import pathlib

from pyvc import fsmodel
from pyvc.api import (Module, Interface, Method, Iface, Inst, Int, Nat, Pos, Bool, Str, Opt, OneOf, Const, Union,
                      ListOf, FixedList, Any_, EnumOf, Custom, Dependent, new_opaque)
from contracts.common import implies, iff, forall_range
from contracts import C04_sandbox as c04
from contracts.C04_sandbox import events, same_object, is_fresh_copy

from exactly_lib.processing import processors, processing_utils, test_case_handling_setup as tchs
from exactly_lib.processing.standalone import accessor_resolver
from exactly_lib.processing.test_case_handling_setup import TestCaseHandlingSetup, ComposedTestCaseTransformer, \
    TestCaseTransformer
from exactly_lib.section_document.model import SectionContents, ElementType
from exactly_lib.test_case import test_case_doc
from exactly_lib.test_suite import test_suite_doc, structure
from exactly_lib.test_suite import processing as suite_processing
from exactly_lib.test_suite.file_reading import suite_file_reading, suite_hierarchy_reading
from exactly_lib.test_suite.instruction_set.sections.configuration.instruction_definition import \
    ConfigurationSectionEnvironment, ConfigurationSectionInstruction

M = Module('C17')

P_SFR = 'exactly_lib.test_suite.file_reading.suite_file_reading'
P_SHR = 'exactly_lib.test_suite.file_reading.suite_hierarchy_reading'
P_TCHS = 'exactly_lib.processing.test_case_handling_setup'
P_PROC = 'exactly_lib.processing.processors'
P_ACC = 'exactly_lib.processing.standalone.accessor_resolver'
P_SUITE = 'exactly_lib.test_suite.processing'

M.assume('determinism below the constructors: the same handling setup, parsing setup, case file and execution '
         'configuration give the same outcome (processes, clocks and temp-dir names are outside) -- DESIGN C17')
M.assume('os.environ is never written and the current directory is restored after each execution (C04)')

# ============================================================================ phase contents: suite first, cleanup last

SECTION = Inst(SectionContents, _elements=ListOf(Any_))
TEST_CASE = Inst(test_case_doc.TestCase, _tuple=[SECTION, SECTION, SECTION, SECTION, SECTION, SECTION])
SUITE_DOC = Inst(test_suite_doc.TestSuiteDocument, _tuple=[Any_, Any_, Any_, TEST_CASE])
ADDER = Inst(suite_file_reading._TestCaseInstructionsFromTestSuiteAdder, _test_suite=SUITE_DOC)

for _q in ('exactly_lib.test_case.test_case_doc:TestCase.__assert_instruction_class',
           'exactly_lib.test_suite.test_suite_doc:_assert_instruction_class'):
    M.contract(_q, trusted=True, params=dict(phase_contents=Any_, instruction_class=Any_))
M.trust('TestCase.__assert_instruction_class / test_suite_doc._assert_instruction_class consist of `assert '
        'isinstance(...)` statements only (the code\'s own dynamic type checks, taken as assumptions): no effect')


def is_concat_at(r, a, b, j):
    """the sequence r is a followed by b (element identity), stated at an arbitrary index j"""
    return (len(r) == len(a) + len(b)
            and (j >= len(a) or r[j] is a[j])
            and (j >= len(b) or r[len(a) + j] is b[j]))


def suite_contents_first(result, suite, case, k, j):
    return is_concat_at(result[k].elements, suite[k].elements, case[k].elements, j)


M.contract(P_SFR + ':_TestCaseInstructionsFromTestSuiteAdder.transform',
           params=dict(self=ADDER, test_case=TEST_CASE), returns=TEST_CASE,
           ghosts=dict(j=Nat),       # an arbitrary position: the clauses hold for every j
           ensures={
               'conf: suite contents first': lambda self, test_case, result, j:
               suite_contents_first(result, self._test_suite.case_phases, test_case, 0, j),
               'setup: suite contents first': lambda self, test_case, result, j:
               suite_contents_first(result, self._test_suite.case_phases, test_case, 1, j),
               'act: suite contents first': lambda self, test_case, result, j:
               suite_contents_first(result, self._test_suite.case_phases, test_case, 2, j),
               'before-assert: suite contents first': lambda self, test_case, result, j:
               suite_contents_first(result, self._test_suite.case_phases, test_case, 3, j),
               'assert: suite contents first': lambda self, test_case, result, j:
               suite_contents_first(result, self._test_suite.case_phases, test_case, 4, j),
               'cleanup: suite contents LAST': lambda self, test_case, result, j:
               is_concat_at(result.cleanup_phase.elements, test_case.cleanup_phase.elements,
                            self._test_suite.case_phases.cleanup_phase.elements, j),
               'the case and the suite document are not changed': lambda self, test_case, result:
               result is not test_case and result is not self._test_suite.case_phases,
           },
           raises_only=())


class TransformerI(Interface):
    """any TestCaseTransformer (the default one of the handling setup is the identity)"""
    target_class = TestCaseTransformer
    methods = {'transform': Method(returns=Any_, event='transform')}


M.contract(P_TCHS + ':ComposedTestCaseTransformer.transform',
           params=dict(self=Inst(ComposedTestCaseTransformer, _first=Iface(TransformerI),
                                 _second=Iface(TransformerI)),
                       test_case=Any_), inline=True,
           ensures={'second after first': lambda self, test_case, result, trace:
           [e[:2] for e in trace] == [('transform', self._first), ('transform:returned', self._first),
                                      ('transform', self._second), ('transform:returned', self._second)]
           and trace[0][2][0] is test_case and trace[2][2][0] is trace[1][2] and result is trace[3][2]},
           raises_only=())

M.contract(P_TCHS + ':TestCaseTransformer.transform', params=dict(self=Inst(TestCaseTransformer), test_case=Any_),
           inline=True, ensures={'identity': lambda test_case, result: result is test_case}, raises_only=())


# ============================================================================ the handling setup derived from a suite

class ConfInstructionI(Interface):
    """a [conf] instruction of a suite (environment: it may set the preprocessor and the act phase setup of the
    environment it is given to anything)"""
    target_class = ConfigurationSectionInstruction

    @staticmethod
    def _execute(interp, self, args, kwargs):
        (env,) = args
        interp.st.emit('suite-conf-instruction', self, env)
        interp.setattr(env, '_preprocessor', Any_.make(interp, 'preprocessor-set-by-suite'))
        interp.setattr(env, '_act_phase_setup', Any_.make(interp, 'act-phase-setup-set-by-suite'))
        return None

    methods = {'execute': Method(model=lambda interp, self, args, kwargs:
    ConfInstructionI._execute(interp, self, args, kwargs))}


class InstructionInfoI(Interface):
    attrs = {'instruction': Iface(ConfInstructionI)}


class ElementI(Interface):
    attrs = {'element_type': EnumOf(ElementType), 'instruction_info': Iface(InstructionInfoI)}


HANDLING_SETUP = Inst(TestCaseHandlingSetup, _tuple=[Any_, Any_, Iface(TransformerI)])
CONF_SECTION = Inst(SectionContents, _elements=ListOf(Iface(ElementI)))
SUITE_DOC_W_CONF = Inst(test_suite_doc.TestSuiteDocument, _tuple=[CONF_SECTION, Any_, Any_, TEST_CASE])
CONF_ENV = Inst(ConfigurationSectionEnvironment, _preprocessor=Any_, _act_phase_setup=Any_)


def no_instruction_before(xs, n):
    return forall_range(0, n, lambda j: xs[j].element_type is not ElementType.INSTRUCTION)


def executed_on(trace, env):
    """every suite [conf] instruction executed so far was given `env`"""
    return all(e[2] is env for e in trace if e[0] == 'suite-conf-instruction')


M.contract(P_SFR + ':derive_conf_section_environment',
           params=dict(test_suite=SUITE_DOC_W_CONF, default_handling_setup=HANDLING_SETUP), returns=CONF_ENV,
           event='derive_conf_section_environment',
           ensures={
               'a-new-environment-not-the-default-setup': lambda result, default_handling_setup:
               type(result) is ConfigurationSectionEnvironment and result is not default_handling_setup,
               'without-suite-conf-instructions-the-defaults-apply': lambda test_suite, default_handling_setup, result:
               (not no_instruction_before(test_suite.configuration_section.elements,
                                          len(test_suite.configuration_section.elements)))
               or (result.preprocessor is default_handling_setup.preprocessor
                   and result.act_phase_setup is default_handling_setup.act_phase_setup),
               'the-default-setup-is-not-changed': lambda default_handling_setup, old:
               default_handling_setup.preprocessor is old[0] and default_handling_setup.act_phase_setup is old[1]
               and default_handling_setup.transformer is old[2],
           },
           old=lambda default_handling_setup: (default_handling_setup.preprocessor,
                                               default_handling_setup.act_phase_setup,
                                               default_handling_setup.transformer),
           raises_only=())
# the loop executes the instruction of element _i (if it is one) on the one environment; order is the loop's
M.loop(P_SFR + ':derive_conf_section_environment', 0,
       invariant=lambda _i, _xs, instruction_environment, default_handling_setup, trace:
       type(instruction_environment) is ConfigurationSectionEnvironment
       and executed_on(trace, instruction_environment)
       and ((not no_instruction_before(_xs, _i))
            or (instruction_environment.preprocessor is default_handling_setup.preprocessor
                and instruction_environment.act_phase_setup is default_handling_setup.act_phase_setup)),
       modifies={'section_element': 'local', 'instruction': 'local',
                 'instruction_environment._preprocessor': Any_, 'instruction_environment._act_phase_setup': Any_})

M.contract(P_SFR + ':resolve_test_case_handling_setup',
           params=dict(test_suite=SUITE_DOC_W_CONF, default_handling_setup=HANDLING_SETUP),
           # at call sites: some actor / preprocessor (whatever the suite's [conf] sets) and the transformer the
           # third clause describes
           returns=Dependent(lambda interp, name, env: TestCaseHandlingSetup(
               Any_.make(interp, name + '.act_phase_setup'), Any_.make(interp, name + '.preprocessor'),
               ComposedTestCaseTransformer(
                   env['default_handling_setup'].transformer,
                   suite_file_reading._TestCaseInstructionsFromTestSuiteAdder(env['test_suite'])))),
           event='resolve_test_case_handling_setup',
           ensures={
               'actor-and-preprocessor-from-the-suite-conf-environment': (lambda result, trace:
               [e[0] for e in trace] == ['derive_conf_section_environment',
                                         'derive_conf_section_environment:returned']
               and result.act_phase_setup is trace[1][2].act_phase_setup
               and result.preprocessor is trace[1][2].preprocessor, 'check-only'),
               'environment-derived-from-this-suite-and-this-default': (lambda test_suite, default_handling_setup, trace:
               trace[0][1]['test_suite'] is test_suite
               and trace[0][1]['default_handling_setup'] is default_handling_setup, 'check-only'),
               'transformer: the default one, then the suite contents are added': lambda test_suite, default_handling_setup, result:
               type(result.transformer) is ComposedTestCaseTransformer
               and result.transformer._first is default_handling_setup.transformer
               and type(result.transformer._second) is suite_file_reading._TestCaseInstructionsFromTestSuiteAdder
               and result.transformer._second._test_suite is test_suite,
           },
           raises_only=())


# ============================================================================ reading the suite: both routes

from exactly_lib.test_suite.file_reading.exception import SuiteParseError, SuiteReadError

PATH = c04.PATH


def _mk_file_in_dir(interp, name):
    """a file path with a directory part: DIR / NAME (NAME a relative name)"""
    d = fsmodel.mk_path(interp, Str.make(interp, name + '.dir'))
    n = Str.make(interp, name + '.name')
    interp.st.assume(interp.not_(interp.call(interp.getattr(n, 'startswith'), ['/'], {})))
    return interp.binop(__import__('ast').Div, d, n)


FILE_IN_DIR = Custom(_mk_file_in_dir)


def Const_bare_name():
    """a case file given by a bare name (`exactly x.case`): pathlib's parent is '.'"""
    return Custom(lambda interp, name: fsmodel.mk_path(interp, 'x.case'))

# Reading and parsing a suite file is outside the property (C07 / C16); what matters here is WHICH file is read
# with WHICH parsers: the call is a ghost event.  It may fail with SuiteParseError.
M.contract(P_SFR + ':read_suite_document', trusted=True,
           params=dict(suite_file_path=PATH, configuration_section_parser=Any_, test_case_parsing_setup=Any_),
           returns=SUITE_DOC_W_CONF, event='read_suite_document', may_raise=(SuiteParseError,))
M.trust('read_suite_document(path, conf parser, parsing setup) returns the document of that file or raises '
        'SuiteParseError (parsing is C07/C16); determinism of reading the same file twice is assumed')


def calls(trace, name):
    """(arguments, result) of the calls of the contracted function `name` that returned"""
    out = []
    for i, e in enumerate(trace):
        if e[0] == name:
            rest = [x for x in trace[i + 1:] if x[0] == name + ':returned' and x[1] is e[1] or
                    x[0] == name + ':returned' and x[1] == e[1]]
            out.append((e[1], rest[0][2] if rest else None))
    return out


def setup_resolved_from(trace, suite_file, parser, parsing_setup, default, result):
    """`result` is resolve_test_case_handling_setup(read_suite_document(suite_file, parser, parsing_setup), default)
    -- and these are the only two calls"""
    reads = calls(trace, 'read_suite_document')
    resolves = calls(trace, 'resolve_test_case_handling_setup')
    return (len(reads) == 1 and len(resolves) == 1
            and str(reads[0][0]['suite_file_path']) == str(suite_file)
            and reads[0][0]['configuration_section_parser'] is parser
            and reads[0][0]['test_case_parsing_setup'] is parsing_setup
            and resolves[0][0]['test_suite'] is reads[0][1]
            and resolves[0][0]['default_handling_setup'] is default
            and result is resolves[0][1])


M.contract(P_SFR + ':resolve_handling_setup_from_suite_file',
           params=dict(default_handling_setup=HANDLING_SETUP, configuration_section_parser=Any_,
                       test_case_parsing_setup=Any_, suite_to_read_config_from=PATH),
           returns=HANDLING_SETUP, event='resolve_handling_setup_from_suite_file', may_raise=(SuiteParseError,),
           ensures={'resolved-from-the-document-of-that-file-and-the-default': (
               lambda default_handling_setup, configuration_section_parser, test_case_parsing_setup,
                      suite_to_read_config_from, result, trace:
               setup_resolved_from(trace, suite_to_read_config_from, configuration_section_parser,
                                   test_case_parsing_setup, default_handling_setup, result), 'check-only')},
           raises_only=())

# ---- standalone: explicit suite, else exactly.suite beside the case if it is a file, else the default

ACCESSOR_RESOLVER = Inst(accessor_resolver.AccessorResolver, _test_case_parsing_setup=Any_,
                         _suite_configuration_section_parser=Any_, _default_handling_setup=HANDLING_SETUP)


def suite_file_used(trace):
    return [str(a['suite_to_read_config_from']) for (a, r) in calls(trace, 'resolve_handling_setup_from_suite_file')]


def asked_for(trace):
    return [(e[1], e[3]) for e in trace if e[0] == 'exists?']


def beside(test_case_file_path):
    return str(test_case_file_path.parent / 'exactly.suite')


def from_suite_file(self, trace, result):
    c = calls(trace, 'resolve_handling_setup_from_suite_file')
    return (len(c) == 1 and result is c[0][1]
            and c[0][0]['default_handling_setup'] is self._default_handling_setup
            and c[0][0]['configuration_section_parser'] is self._suite_configuration_section_parser
            and c[0][0]['test_case_parsing_setup'] is self._test_case_parsing_setup)


M.contract(P_ACC + ':AccessorResolver._handling_setup',
           params=dict(self=ACCESSOR_RESOLVER, test_case_file_path=Union(FILE_IN_DIR, Const_bare_name()),
                       explicit_suite_file_path=Opt(PATH)),
           returns=HANDLING_SETUP, event='_handling_setup', may_raise=(SuiteParseError,),
           ensures={
               'explicit suite: its setup': (lambda self, explicit_suite_file_path, result, trace:
               explicit_suite_file_path is None
               or (from_suite_file(self, trace, result)
                   and same_path(suite_file_used(trace)[0], explicit_suite_file_path)), 'check-only'),
               'no explicit suite, exactly.suite beside the case is a file: its setup': (
                   lambda self, test_case_file_path, explicit_suite_file_path, result, trace:
                   explicit_suite_file_path is not None or asked_for(trace) != [(beside(test_case_file_path), True)]
                   or (from_suite_file(self, trace, result)
                       and suite_file_used(trace) == [beside(test_case_file_path)]), 'check-only'),
               'neither: the default setup, no suite is read': (
                   lambda self, test_case_file_path, explicit_suite_file_path, result, trace:
                   explicit_suite_file_path is not None or asked_for(trace) != [(beside(test_case_file_path), False)]
                   or (result is self._default_handling_setup
                       and calls(trace, 'resolve_handling_setup_from_suite_file') == []), 'check-only'),
               'the only file looked for is exactly.suite beside the case': (
                   lambda test_case_file_path, explicit_suite_file_path, trace:
                   asked_for(trace) == [] if explicit_suite_file_path is not None
                   else [p for (p, a) in asked_for(trace)] == [beside(test_case_file_path)], 'check-only'),
           },
           raises_only=())


def same_path(s, p):
    return s == str(p)


def _m_same_path(interp, args, kwargs):
    s, p = [interp.resolve(x) if isinstance(x, fsmodel.SOpt) else x for x in args]
    return interp.eq(s, fsmodel.path_str(interp, p))


M.model(same_path, _m_same_path)

M.contract(P_PROC + ':new_accessor',
           params=dict(preprocessor=Any_, test_case_parsing_setup=Any_, test_case_transformer=Any_), inline=True,
           ensures={'accessor-of-exactly-these-parts': lambda preprocessor, test_case_parsing_setup,
                                                              test_case_transformer, result:
           type(result) is processing_utils.AccessorFromParts
           and result._pre_processor is preprocessor and result._transformer is test_case_transformer
           and type(result._parser) is processors._Parser
           and result._parser._test_case_parsing_setup is test_case_parsing_setup
           and type(result._source_reader) is processors._SourceReader},
           raises_only=())

M.contract(P_ACC + ':AccessorResolver.resolve',
           params=dict(self=ACCESSOR_RESOLVER, test_case_file_path=PATH, explicit_suite_file_path=Opt(PATH)),
           may_raise=(SuiteParseError,),
           ensures={'accessor and actor are built from the parts of the resolved handling setup': lambda self, result, trace:
           len(calls(trace, '_handling_setup')) == 1
           and result[0]._pre_processor is calls(trace, '_handling_setup')[0][1].preprocessor
           and result[0]._transformer is calls(trace, '_handling_setup')[0][1].transformer
           and result[0]._parser._test_case_parsing_setup is self._test_case_parsing_setup
           and result[1] is calls(trace, '_handling_setup')[0][1].act_phase_setup,
                    'the handling setup is resolved for this case and this explicit suite': lambda test_case_file_path, explicit_suite_file_path, trace:
                    calls(trace, '_handling_setup')[0][0]['test_case_file_path'] is test_case_file_path
                    and same_object(calls(trace, '_handling_setup')[0][0]['explicit_suite_file_path'],
                                    explicit_suite_file_path)},
           raises_only=())
