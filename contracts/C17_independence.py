"""C17 -- cases are independent; suite contents apply alike standalone and in a suite run.
See DESIGN.md section 3 / C17.

Two kinds of facts:
 (1) freshness / no aliasing: what one case can mutate (environ dicts, symbol table, instruction settings,
     current directory, sandbox) is created anew for the next one -- `_Executor._exe_conf_that_may_be_updated`,
     `_Executor.apply` here; `_PartialExecutor.__init__`, `partial_execution.execute` (preserved cwd, sandbox per
     execution) in C04 (those contracts carry both property ids);
 (2) construction equalities: the suite route (`_SingleFileReader.__call__` -> `SuitesExecutor`) and the standalone
     route (`AccessorResolver`) both obtain the handling setup from
     `resolve_test_case_handling_setup(read_suite_document(SUITE, parser, parsing setup), default)` and hand its
     parts to the same constructors; the transformer puts the suite's phase contents first (cleanup: last); a
     sub-suite's setup is resolved from its own document and the environment default.
"""
import pathlib

from pyvc import fsmodel
from pyvc.api import (Module, Interface, Method, Iface, Inst, Int, Nat, Pos, Bool, Str, Opt, OneOf, Const, Union,
                      ListOf, FixedList, Any_, EnumOf, Custom, Dependent, new_opaque)
from contracts.common import implies, iff, forall_range
from contracts import C04_sandbox as c04
from contracts.C04_sandbox import events, same_object, is_fresh_copy

from exactly_lib.processing import processors, processing_utils, test_case_handling_setup as tchs
from exactly_lib.processing.standalone import accessor_resolver
from exactly_lib.processing.test_case_handling_setup import TestCaseHandlingSetup, ComposedTestCaseTransformer, \
    TestCaseTransformer
from exactly_lib.section_document.model import SectionContents, ElementType
from exactly_lib.test_case import test_case_doc
from exactly_lib.test_suite import test_suite_doc, structure
from exactly_lib.test_suite import processing as suite_processing
from exactly_lib.test_suite.file_reading import suite_file_reading, suite_hierarchy_reading
from exactly_lib.test_suite.instruction_set.sections.configuration.instruction_definition import \
    ConfigurationSectionEnvironment, ConfigurationSectionInstruction

M = Module('C17')

P_SFR = 'exactly_lib.test_suite.file_reading.suite_file_reading'
P_SHR = 'exactly_lib.test_suite.file_reading.suite_hierarchy_reading'
P_TCHS = 'exactly_lib.processing.test_case_handling_setup'
P_PROC = 'exactly_lib.processing.processors'
P_ACC = 'exactly_lib.processing.standalone.accessor_resolver'
P_SUITE = 'exactly_lib.test_suite.processing'

M.assume('determinism below the constructors: the same handling setup, parsing setup, case file and execution '
         'configuration give the same outcome (processes, clocks and temp-dir names are outside) -- DESIGN C17')
M.assume('os.environ is never written and the current directory is restored after each execution (C04)')

# ============================================================================ phase contents: suite first, cleanup last

SECTION = Inst(SectionContents, _elements=ListOf(Any_))
TEST_CASE = Inst(test_case_doc.TestCase, _tuple=[SECTION, SECTION, SECTION, SECTION, SECTION, SECTION])
SUITE_DOC = Inst(test_suite_doc.TestSuiteDocument, _tuple=[Any_, Any_, Any_, TEST_CASE])
ADDER = Inst(suite_file_reading._TestCaseInstructionsFromTestSuiteAdder, _test_suite=SUITE_DOC)

for _q in ('exactly_lib.test_case.test_case_doc:TestCase.__assert_instruction_class',
           'exactly_lib.test_suite.test_suite_doc:_assert_instruction_class'):
    M.contract(_q, trusted=True, params=dict(phase_contents=Any_, instruction_class=Any_))
M.trust('TestCase.__assert_instruction_class / test_suite_doc._assert_instruction_class consist of `assert '
        'isinstance(...)` statements only (the code\'s own dynamic type checks, taken as assumptions): no effect')


def is_concat_at(r, a, b, j):
    """the sequence r is a followed by b (element identity), stated at an arbitrary index j"""
    return (len(r) == len(a) + len(b)
            and (j >= len(a) or r[j] is a[j])
            and (j >= len(b) or r[len(a) + j] is b[j]))


def suite_contents_first(result, suite, case, k, j):
    return is_concat_at(result[k].elements, suite[k].elements, case[k].elements, j)


M.contract(P_SFR + ':_TestCaseInstructionsFromTestSuiteAdder.transform',
           params=dict(self=ADDER, test_case=TEST_CASE), returns=TEST_CASE,
           ghosts=dict(j=Nat),       # an arbitrary position: the clauses hold for every j
           ensures={
               'conf: suite contents first': lambda self, test_case, result, j:
               suite_contents_first(result, self._test_suite.case_phases, test_case, 0, j),
               'setup: suite contents first': lambda self, test_case, result, j:
               suite_contents_first(result, self._test_suite.case_phases, test_case, 1, j),
               'act: suite contents first': lambda self, test_case, result, j:
               suite_contents_first(result, self._test_suite.case_phases, test_case, 2, j),
               'before-assert: suite contents first': lambda self, test_case, result, j:
               suite_contents_first(result, self._test_suite.case_phases, test_case, 3, j),
               'assert: suite contents first': lambda self, test_case, result, j:
               suite_contents_first(result, self._test_suite.case_phases, test_case, 4, j),
               'cleanup: suite contents LAST': lambda self, test_case, result, j:
               is_concat_at(result.cleanup_phase.elements, test_case.cleanup_phase.elements,
                            self._test_suite.case_phases.cleanup_phase.elements, j),
               'the case and the suite document are not changed': lambda self, test_case, result:
               result is not test_case and result is not self._test_suite.case_phases,
           },
           raises_only=())


class TransformerI(Interface):
    """any TestCaseTransformer (the default one of the handling setup is the identity)"""
    target_class = TestCaseTransformer
    methods = {'transform': Method(returns=Any_, event='transform')}


M.contract(P_TCHS + ':ComposedTestCaseTransformer.transform',
           params=dict(self=Inst(ComposedTestCaseTransformer, _first=Iface(TransformerI),
                                 _second=Iface(TransformerI)),
                       test_case=Any_), inline=True,
           ensures={'second after first': lambda self, test_case, result, trace:
           [e[:2] for e in trace] == [('transform', self._first), ('transform:returned', self._first),
                                      ('transform', self._second), ('transform:returned', self._second)]
           and trace[0][2][0] is test_case and trace[2][2][0] is trace[1][2] and result is trace[3][2]},
           raises_only=())

M.contract(P_TCHS + ':TestCaseTransformer.transform', params=dict(self=Inst(TestCaseTransformer), test_case=Any_),
           inline=True, ensures={'identity': lambda test_case, result: result is test_case}, raises_only=())


# ============================================================================ the handling setup derived from a suite

class ConfInstructionI(Interface):
    """a [conf] instruction of a suite (environment: it may set the preprocessor and the act phase setup of the
    environment it is given to anything)"""
    target_class = ConfigurationSectionInstruction

    @staticmethod
    def _execute(interp, self, args, kwargs):
        (env,) = args
        interp.st.emit('suite-conf-instruction', self, env)
        interp.setattr(env, '_preprocessor', Any_.make(interp, 'preprocessor-set-by-suite'))
        interp.setattr(env, '_act_phase_setup', Any_.make(interp, 'act-phase-setup-set-by-suite'))
        return None

    methods = {'execute': Method(model=lambda interp, self, args, kwargs:
    ConfInstructionI._execute(interp, self, args, kwargs))}


class InstructionInfoI(Interface):
    attrs = {'instruction': Iface(ConfInstructionI)}


class ElementI(Interface):
    attrs = {'element_type': EnumOf(ElementType), 'instruction_info': Iface(InstructionInfoI)}


HANDLING_SETUP = Inst(TestCaseHandlingSetup, _tuple=[Any_, Any_, Iface(TransformerI)])
CONF_SECTION = Inst(SectionContents, _elements=ListOf(Iface(ElementI)))
SUITE_DOC_W_CONF = Inst(test_suite_doc.TestSuiteDocument, _tuple=[CONF_SECTION, Any_, Any_, TEST_CASE])
CONF_ENV = Inst(ConfigurationSectionEnvironment, _preprocessor=Any_, _act_phase_setup=Any_)


def no_instruction_before(xs, n):
    return forall_range(0, n, lambda j: xs[j].element_type is not ElementType.INSTRUCTION)


def executed_on(trace, env):
    """every suite [conf] instruction executed so far was given `env`"""
    return all(e[2] is env for e in trace if e[0] == 'suite-conf-instruction')


M.contract(P_SFR + ':derive_conf_section_environment',
           params=dict(test_suite=SUITE_DOC_W_CONF, default_handling_setup=HANDLING_SETUP), returns=CONF_ENV,
           event='derive_conf_section_environment',
           ensures={
               'a-new-environment-not-the-default-setup': lambda result, default_handling_setup:
               type(result) is ConfigurationSectionEnvironment and result is not default_handling_setup,
               'without-suite-conf-instructions-the-defaults-apply': lambda test_suite, default_handling_setup, result:
               (not no_instruction_before(test_suite.configuration_section.elements,
                                          len(test_suite.configuration_section.elements)))
               or (result.preprocessor is default_handling_setup.preprocessor
                   and result.act_phase_setup is default_handling_setup.act_phase_setup),
               'the-default-setup-is-not-changed': lambda default_handling_setup, old:
               default_handling_setup.preprocessor is old[0] and default_handling_setup.act_phase_setup is old[1]
               and default_handling_setup.transformer is old[2],
           },
           old=lambda default_handling_setup: (default_handling_setup.preprocessor,
                                               default_handling_setup.act_phase_setup,
                                               default_handling_setup.transformer),
           raises_only=())
# the loop executes the instruction of element _i (if it is one) on the one environment; order is the loop's
M.loop(P_SFR + ':derive_conf_section_environment', 0,
       invariant=lambda _i, _xs, instruction_environment, default_handling_setup, trace:
       type(instruction_environment) is ConfigurationSectionEnvironment
       and executed_on(trace, instruction_environment)
       and ((not no_instruction_before(_xs, _i))
            or (instruction_environment.preprocessor is default_handling_setup.preprocessor
                and instruction_environment.act_phase_setup is default_handling_setup.act_phase_setup)),
       modifies={'section_element': 'local', 'instruction': 'local',
                 'instruction_environment._preprocessor': Any_, 'instruction_environment._act_phase_setup': Any_})

M.contract(P_SFR + ':resolve_test_case_handling_setup',
           params=dict(test_suite=SUITE_DOC_W_CONF, default_handling_setup=HANDLING_SETUP),
           # at call sites: some actor / preprocessor (whatever the suite's [conf] sets) and the transformer the
           # third clause describes
           returns=Dependent(lambda interp, name, env: TestCaseHandlingSetup(
               Any_.make(interp, name + '.act_phase_setup'), Any_.make(interp, name + '.preprocessor'),
               ComposedTestCaseTransformer(
                   env['default_handling_setup'].transformer,
                   suite_file_reading._TestCaseInstructionsFromTestSuiteAdder(env['test_suite'])))),
           event='resolve_test_case_handling_setup',
           ensures={
               'actor-and-preprocessor-from-the-suite-conf-environment': (lambda result, trace:
               [e[0] for e in trace] == ['derive_conf_section_environment',
                                         'derive_conf_section_environment:returned']
               and result.act_phase_setup is trace[1][2].act_phase_setup
               and result.preprocessor is trace[1][2].preprocessor, 'check-only'),
               'environment-derived-from-this-suite-and-this-default': (lambda test_suite, default_handling_setup, trace:
               trace[0][1]['test_suite'] is test_suite
               and trace[0][1]['default_handling_setup'] is default_handling_setup, 'check-only'),
               'transformer: the default one, then the suite contents are added': lambda test_suite, default_handling_setup, result:
               type(result.transformer) is ComposedTestCaseTransformer
               and result.transformer._first is default_handling_setup.transformer
               and type(result.transformer._second) is suite_file_reading._TestCaseInstructionsFromTestSuiteAdder
               and result.transformer._second._test_suite is test_suite,
           },
           raises_only=())


# ============================================================================ reading the suite: both routes

from exactly_lib.test_suite.file_reading.exception import SuiteParseError, SuiteReadError

PATH = c04.PATH


def _mk_file_in_dir(interp, name):
    """a file path with a directory part: DIR / NAME (NAME a relative name)"""
    d = fsmodel.mk_path(interp, Str.make(interp, name + '.dir'))
    n = Str.make(interp, name + '.name')
    interp.st.assume(interp.not_(interp.call(interp.getattr(n, 'startswith'), ['/'], {})))
    return interp.binop(__import__('ast').Div, d, n)


FILE_IN_DIR = Custom(_mk_file_in_dir)


def Const_bare_name():
    """a case file given by a bare name (`exactly x.case`): pathlib's parent is '.'"""
    return Custom(lambda interp, name: fsmodel.mk_path(interp, 'x.case'))

# Reading and parsing a suite file is outside the property (C07 / C16); what matters here is WHICH file is read
# with WHICH parsers: the call is a ghost event.  It may fail with SuiteParseError.
M.contract(P_SFR + ':read_suite_document', trusted=True,
           params=dict(suite_file_path=PATH, configuration_section_parser=Any_, test_case_parsing_setup=Any_),
           returns=SUITE_DOC_W_CONF, event='read_suite_document', may_raise=(SuiteParseError,))
M.trust('read_suite_document(path, conf parser, parsing setup) returns the document of that file or raises '
        'SuiteParseError (parsing is C07/C16); determinism of reading the same file twice is assumed')


def calls(trace, name):
    """(arguments, result) of the calls of the contracted function `name` that returned"""
    out = []
    for i, e in enumerate(trace):
        if e[0] == name:
            rest = [x for x in trace[i + 1:] if x[0] == name + ':returned' and x[1] is e[1] or
                    x[0] == name + ':returned' and x[1] == e[1]]
            out.append((e[1], rest[0][2] if rest else None))
    return out


def setup_resolved_from(trace, suite_file, parser, parsing_setup, default, result):
    """`result` is resolve_test_case_handling_setup(read_suite_document(suite_file, parser, parsing_setup), default)
    -- and these are the only two calls"""
    reads = calls(trace, 'read_suite_document')
    resolves = calls(trace, 'resolve_test_case_handling_setup')
    return (len(reads) == 1 and len(resolves) == 1
            and str(reads[0][0]['suite_file_path']) == str(suite_file)
            and reads[0][0]['configuration_section_parser'] is parser
            and reads[0][0]['test_case_parsing_setup'] is parsing_setup
            and resolves[0][0]['test_suite'] is reads[0][1]
            and resolves[0][0]['default_handling_setup'] is default
            and result is resolves[0][1])


M.contract(P_SFR + ':resolve_handling_setup_from_suite_file',
           params=dict(default_handling_setup=HANDLING_SETUP, configuration_section_parser=Any_,
                       test_case_parsing_setup=Any_, suite_to_read_config_from=PATH),
           returns=HANDLING_SETUP, event='resolve_handling_setup_from_suite_file', may_raise=(SuiteParseError,),
           ensures={'resolved-from-the-document-of-that-file-and-the-default': (
               lambda default_handling_setup, configuration_section_parser, test_case_parsing_setup,
                      suite_to_read_config_from, result, trace:
               setup_resolved_from(trace, suite_to_read_config_from, configuration_section_parser,
                                   test_case_parsing_setup, default_handling_setup, result), 'check-only')},
           raises_only=())

# ---- standalone: explicit suite, else exactly.suite beside the case if it is a file, else the default

ACCESSOR_RESOLVER = Inst(accessor_resolver.AccessorResolver, _test_case_parsing_setup=Any_,
                         _suite_configuration_section_parser=Any_, _default_handling_setup=HANDLING_SETUP)


def suite_file_used(trace):
    return [str(a['suite_to_read_config_from']) for (a, r) in calls(trace, 'resolve_handling_setup_from_suite_file')]


def asked_for(trace):
    return [(e[1], e[3]) for e in trace if e[0] == 'exists?']


def beside(test_case_file_path):
    return str(test_case_file_path.parent / 'exactly.suite')


def from_suite_file(self, trace, result):
    c = calls(trace, 'resolve_handling_setup_from_suite_file')
    return (len(c) == 1 and result is c[0][1]
            and c[0][0]['default_handling_setup'] is self._default_handling_setup
            and c[0][0]['configuration_section_parser'] is self._suite_configuration_section_parser
            and c[0][0]['test_case_parsing_setup'] is self._test_case_parsing_setup)


M.contract(P_ACC + ':AccessorResolver._handling_setup',
           params=dict(self=ACCESSOR_RESOLVER, test_case_file_path=Union(FILE_IN_DIR, Const_bare_name()),
                       explicit_suite_file_path=Opt(PATH)),
           returns=HANDLING_SETUP, event='_handling_setup', may_raise=(SuiteParseError,),
           ensures={
               'explicit suite: its setup': (lambda self, explicit_suite_file_path, result, trace:
               explicit_suite_file_path is None
               or (from_suite_file(self, trace, result)
                   and same_path(suite_file_used(trace)[0], explicit_suite_file_path)), 'check-only'),
               'no explicit suite, exactly.suite beside the case is a file: its setup': (
                   lambda self, test_case_file_path, explicit_suite_file_path, result, trace:
                   explicit_suite_file_path is not None or asked_for(trace) != [(beside(test_case_file_path), True)]
                   or (from_suite_file(self, trace, result)
                       and suite_file_used(trace) == [beside(test_case_file_path)]), 'check-only'),
               'neither: the default setup, no suite is read': (
                   lambda self, test_case_file_path, explicit_suite_file_path, result, trace:
                   explicit_suite_file_path is not None or asked_for(trace) != [(beside(test_case_file_path), False)]
                   or (result is self._default_handling_setup
                       and calls(trace, 'resolve_handling_setup_from_suite_file') == []), 'check-only'),
               'the only file looked for is exactly.suite beside the case': (
                   lambda test_case_file_path, explicit_suite_file_path, trace:
                   asked_for(trace) == [] if explicit_suite_file_path is not None
                   else [p for (p, a) in asked_for(trace)] == [beside(test_case_file_path)], 'check-only'),
           },
           raises_only=())


def same_path(s, p):
    return s == str(p)


def _m_same_path(interp, args, kwargs):
    s, p = [interp.resolve(x) if isinstance(x, fsmodel.SOpt) else x for x in args]
    return interp.eq(s, fsmodel.path_str(interp, p))


M.model(same_path, _m_same_path)

M.contract(P_PROC + ':new_accessor',
           params=dict(preprocessor=Any_, test_case_parsing_setup=Any_, test_case_transformer=Any_), inline=True,
           ensures={'accessor-of-exactly-these-parts': lambda preprocessor, test_case_parsing_setup,
                                                              test_case_transformer, result:
           type(result) is processing_utils.AccessorFromParts
           and result._pre_processor is preprocessor and result._transformer is test_case_transformer
           and type(result._parser) is processors._Parser
           and result._parser._test_case_parsing_setup is test_case_parsing_setup
           and type(result._source_reader) is processors._SourceReader},
           raises_only=())

M.contract(P_ACC + ':AccessorResolver.resolve',
           params=dict(self=ACCESSOR_RESOLVER, test_case_file_path=PATH, explicit_suite_file_path=Opt(PATH)),
           may_raise=(SuiteParseError,),
           ensures={'accessor and actor are built from the parts of the resolved handling setup': lambda self, result, trace:
           len(calls(trace, '_handling_setup')) == 1
           and result[0]._pre_processor is calls(trace, '_handling_setup')[0][1].preprocessor
           and result[0]._transformer is calls(trace, '_handling_setup')[0][1].transformer
           and result[0]._parser._test_case_parsing_setup is self._test_case_parsing_setup
           and result[1] is calls(trace, '_handling_setup')[0][1].act_phase_setup,
                    'the handling setup is resolved for this case and this explicit suite': lambda test_case_file_path, explicit_suite_file_path, trace:
                    calls(trace, '_handling_setup')[0][0]['test_case_file_path'] is test_case_file_path
                    and same_object(calls(trace, '_handling_setup')[0][0]['explicit_suite_file_path'],
                                    explicit_suite_file_path)},
           raises_only=())


# ============================================================================ the suite route

HIERARCHY = Inst(structure.TestSuiteHierarchy,
                 _TestSuiteHierarchy__source_file=Any_,
                 _TestSuiteHierarchy__suite_file_inclusions_leading_to_this_file=Any_,
                 _TestSuiteHierarchy__test_case_handling_setup=HANDLING_SETUP,
                 _TestSuiteHierarchy__sub_test_suites=Any_,
                 _TestSuiteHierarchy__test_cases=Any_)
READER_ENV = Inst(suite_hierarchy_reading.Environment, _tuple=[Any_, HANDLING_SETUP, Any_])
READER = Inst(suite_hierarchy_reading._SingleFileReader, environment=READER_ENV, _root_suite_file_path=PATH,
              _visited=Any_)

# Which files a suite lists is C16; here only: how many sub-suites / cases are listed does not matter for how
# each is read.  BOUNDED in the number of listed files (0..2 sub-suites, 0..1 cases): `map` applies the same
# reader to every element.
M.contract(P_SHR + ':_SingleFileReader._resolve_paths', trusted=True,
           params=dict(self=Any_, test_suite=Any_, suite_file_path=Any_),
           returns=Union(FixedList(FixedList(), FixedList(), as_tuple=True),
                         FixedList(FixedList(FILE_IN_DIR), FixedList(FILE_IN_DIR), as_tuple=True),
                         FixedList(FixedList(FILE_IN_DIR, FILE_IN_DIR), FixedList(), as_tuple=True)),
           may_raise=(SuiteReadError,))
M.trust('_SingleFileReader._resolve_paths returns the listed sub-suite and case files (C16); the proof of __call__ '
        'is bounded to 0..2 listed sub-suites / 0..1 cases (every element is treated alike by `map`)')


def sub_suite_reads(trace):
    return calls(trace, '__call__')


M.contract(P_SHR + ':_SingleFileReader.__call__',
           params=dict(self=READER, inclusions=FixedList(), suite_file_path=PATH),
           returns=HIERARCHY, event='__call__', may_raise=(SuiteReadError,),
           old=lambda self: (self.environment, self.environment.default_test_case_handling_setup),
           ensures={
               'handling setup: from THIS suite file and the environment default': (
                   lambda self, suite_file_path, result, trace:
                   setup_resolved_from(trace, suite_file_path, self.environment.configuration_section_parser,
                                       self.environment.test_case_parsing_setup,
                                       self.environment.default_test_case_handling_setup,
                                       result.test_case_handling_setup), 'check-only'),
               'sub-suites are read by this same reader: nothing of this suite\'s setup is passed down': (
                   lambda self, inclusions, suite_file_path, result, trace, old:
                   all(a['self'] is self and len(a) == 3 and a['inclusions'] == inclusions + [suite_file_path]
                       for (a, r) in sub_suite_reads(trace))
                   and self.environment is old[0]
                   and self.environment.default_test_case_handling_setup is old[1], 'check-only'),
               'the sub-suites of the result are what these reads returned': (
                   lambda result, trace: len(result.sub_test_suites) == len(sub_suite_reads(trace))
                   and all(s is r for (s, (a, r)) in zip(result.sub_test_suites, sub_suite_reads(trace))),
                   'check-only'),
           },
           raises_only=())

# ---- the configuration of the cases of a suite

PROC_CONFIGURATION = Inst(processors.Configuration, default_handling_setup=HANDLING_SETUP, os_services=Any_,
                          test_case_definition=Any_, mem_buff_size=Int, is_keep_sandbox=Bool,
                          exe_atc_and_skip_assertions=Opt(Any_), sandbox_root_dir_resolver=Any_)
SUITES_EXECUTOR = Inst(suite_processing.SuitesExecutor, _reporter=Any_, _default_case_configuration=PROC_CONFIGURATION,
                       _test_case_processor_constructor=Any_)

M.contract(P_SUITE + ':SuitesExecutor._configuration_for_cases_in_suite',
           params=dict(self=SUITES_EXECUTOR, suite=HIERARCHY), inline=True,
           ensures={
               'handling setup of the suite that lists the case': lambda suite, result:
               result.default_handling_setup is suite.test_case_handling_setup,
               'everything else as for every other case of the run': lambda self, result:
               result.test_case_definition is self._default_case_configuration.test_case_definition
               and result.os_services is self._default_case_configuration.os_services
               and result.mem_buff_size == self._default_case_configuration.mem_buff_size
               and result.is_keep_sandbox == self._default_case_configuration.is_keep_sandbox
               and result.sandbox_root_dir_resolver is self._default_case_configuration.sandbox_root_dir_resolver
               and result.exe_atc_and_skip_assertions is None,
               'a new configuration object': lambda self, result: result is not self._default_case_configuration,
           },
           raises_only=())


# ============================================================================ from a handling setup to a processor
# Both routes hand the parts of the handling setup to the same constructors.

from exactly_lib.execution.configuration import PredefinedProperties, ExecutionConfiguration
from exactly_lib.processing.standalone import processor as standalone_processor, result_reporting
from exactly_lib.util.symbol_table import SymbolTable

P_STANDALONE = 'exactly_lib.processing.standalone.processor'

PREDEFINED = Inst(PredefinedProperties, _default_environ_getter=Any_, _environ=c04.ENVIRON,
                  _timeout_in_seconds=Opt(Int), _predefined_symbols=Iface(c04.SymbolTableI))
TC_DEFINITION = Inst(processors.TestCaseDefinition, _test_case_parsing_setup=Any_, _predefined_properties=PREDEFINED)
PROC_CONFIGURATION_FULL = Inst(processors.Configuration, default_handling_setup=HANDLING_SETUP, os_services=Any_,
                               test_case_definition=TC_DEFINITION, mem_buff_size=Int, is_keep_sandbox=Bool,
                               exe_atc_and_skip_assertions=Opt(Any_), sandbox_root_dir_resolver=Any_)


def exe_conf_of(ec, predefined, os_services, resolver, mem_buff_size, exe_atc):
    """the execution configuration carries exactly the predefined properties and these values"""
    return (ec.default_environ_getter is predefined.default_environ_getter
            and same_object(ec.environ, predefined.environ)
            and ec.timeout_in_seconds == predefined.timeout_in_seconds
            and ec.predefined_symbols is predefined.predefined_symbols
            and ec.os_services is os_services and ec.sds_root_dir_resolver is resolver
            and ec.mem_buff_size == mem_buff_size and same_object(ec.exe_atc_and_skip_assertions, exe_atc))


M.contract(P_PROC + ':Configuration.execution_configuration', params=dict(self=PROC_CONFIGURATION_FULL), inline=True,
           ensures={'predefined properties and the values of the configuration': lambda self, result:
           exe_conf_of(result, self.test_case_definition.predefined_properties, self.os_services,
                       self.sandbox_root_dir_resolver, self.mem_buff_size, self.exe_atc_and_skip_assertions)},
           raises_only=())


def executor_of(x, act_phase_setup, is_keep_sandbox):
    return (type(x) is processors._Executor and x.default_act_phase_setup is act_phase_setup
            and x._is_keep_sandbox == is_keep_sandbox)


def accessor_of(a, handling_setup, parsing_setup):
    return (type(a) is processing_utils.AccessorFromParts and a._pre_processor is handling_setup.preprocessor
            and a._transformer is handling_setup.transformer
            and a._parser._test_case_parsing_setup is parsing_setup)


M.contract(P_PROC + ':new_processor_that_should_not_pollute_current_process',
           params=dict(configuration=PROC_CONFIGURATION_FULL), inline=True,
           ensures={
               'accessor: preprocessor, parsing setup, transformer of the configured handling setup':
                   lambda configuration, result:
                   accessor_of(result._accessor, configuration.default_handling_setup,
                               configuration.test_case_definition.parsing_setup),
               'executor: actor of the configured handling setup, keep flag, execution configuration':
                   lambda configuration, result:
                   executor_of(result._executor, configuration.default_handling_setup.act_phase_setup,
                               configuration.is_keep_sandbox)
                   and exe_conf_of(result._executor._exe_conf, configuration.test_case_definition.predefined_properties,
                                   configuration.os_services, configuration.sandbox_root_dir_resolver,
                                   configuration.mem_buff_size, configuration.exe_atc_and_skip_assertions),
           },
           raises_only=())


def _mk_reporter(interp, name):
    r = object.__new__(result_reporting._ResultReporterForNormalOutput)
    r._reporting_environment = Any_.make(interp, name + '.env')
    return r


STANDALONE_PROCESSOR = Inst(standalone_processor.Processor, _test_case_definition=TC_DEFINITION, _os_services=Any_,
                            _suite_configuration_section_parser=Any_, _mem_buff_size=Int)

M.contract(P_STANDALONE + ':Processor._executor',
           params=dict(self=STANDALONE_PROCESSOR, act_phase_setup=Any_, is_keep_sandbox=Bool,
                       sandbox_root_dir_resolver=Any_, result_reporter=Custom(_mk_reporter)), inline=True,
           ensures={'executor: the given actor and keep flag, the predefined properties': lambda self, act_phase_setup, is_keep_sandbox, sandbox_root_dir_resolver, result:
           executor_of(result, act_phase_setup, is_keep_sandbox)
           and exe_conf_of(result._exe_conf, self._test_case_definition.predefined_properties, self._os_services,
                           sandbox_root_dir_resolver, self._mem_buff_size, None)},
           raises_only=())


def harness_standalone_and_suite_build_the_same(tcd, os_services, suite_conf_parser, mem_buff_size, handling_setup,
                                                 resolver, reporter):
    """Given the SAME resolved handling setup (both routes obtain it from resolve_test_case_handling_setup of the
    same suite document and default -- proved above) the suite route and the standalone route (normal reporting)
    build processors with equal parts."""
    # the suite route: SuitesExecutor._configuration_for_cases_in_suite + the processor constructor of the suite run
    in_suite = processors.new_processor_that_should_not_pollute_current_process(
        processors.Configuration(tcd, handling_setup, os_services, mem_buff_size, False, resolver))
    # the standalone route: standalone Processor._processor after AccessorResolver.resolve
    alone = standalone_processor.Processor(tcd, os_services, suite_conf_parser, mem_buff_size)
    accessor = processors.new_accessor(handling_setup.preprocessor, tcd.parsing_setup, handling_setup.transformer)
    executor = alone._executor(handling_setup.act_phase_setup, reporter.depends_on_result_in_sandbox(), resolver,
                               reporter)
    a1, a2 = in_suite._accessor, accessor
    e1, e2 = in_suite._executor, executor
    c1, c2 = e1._exe_conf, e2._exe_conf
    return (a1._pre_processor is a2._pre_processor and a1._transformer is a2._transformer
            and a1._parser._test_case_parsing_setup is a2._parser._test_case_parsing_setup
            and type(a1._source_reader) is type(a2._source_reader)
            and e1.default_act_phase_setup is e2.default_act_phase_setup
            and e1._is_keep_sandbox == e2._is_keep_sandbox
            and c1.default_environ_getter is c2.default_environ_getter and same_object(c1.environ, c2.environ)
            and c1.timeout_in_seconds == c2.timeout_in_seconds and c1.os_services is c2.os_services
            and c1.sds_root_dir_resolver is c2.sds_root_dir_resolver and c1.mem_buff_size == c2.mem_buff_size
            and c1.predefined_symbols is c2.predefined_symbols
            and c1.exe_atc_and_skip_assertions is None and c2.exe_atc_and_skip_assertions is None)


M.contract('contracts.C17_independence:harness_standalone_and_suite_build_the_same',
           params=dict(tcd=TC_DEFINITION, os_services=Any_, suite_conf_parser=Any_, mem_buff_size=Int,
                       handling_setup=HANDLING_SETUP, resolver=Any_, reporter=Custom(_mk_reporter)),
           ensures={'equal parts': lambda result: result}, raises_only=())


# ============================================================================ nothing carries over between cases

def harness_two_cases_share_nothing_mutable(executor):
    """two successive `apply`s of the one _Executor of a run: each gets its own environ dict and symbol table,
    and neither is the configured one"""
    first = executor._exe_conf_that_may_be_updated()
    second = executor._exe_conf_that_may_be_updated()
    configured = executor._exe_conf
    env_ok = ((first.environ is None and second.environ is None) if configured.environ is None
              else (is_fresh_copy(first.environ, configured.environ) and is_fresh_copy(second.environ, configured.environ)
                    and first.environ is not second.environ))
    return (env_ok
            and first.predefined_symbols is not second.predefined_symbols
            and first.predefined_symbols is not configured.predefined_symbols
            and second.predefined_symbols is not configured.predefined_symbols
            and first is not second)


M.contract('contracts.C17_independence:harness_two_cases_share_nothing_mutable',
           params=dict(executor=c04.PROC_EXECUTOR),
           ensures={'fresh environ and symbols for every case': lambda result: result},
           raises_only=())

# every case is executed with a configuration of its own
M.contract('exactly_lib.execution.full_execution.execution:execute', trusted=True,
           params=dict(conf=Any_, configuration_builder=Any_, is_keep_sandbox=Bool, test_case=Any_),
           returns=Any_, event='full-execution', may_raise=(c04.ArbitraryExecutionError,))
M.trust('full_execution.execute: its behaviour is C01/C02/C03; here only the arguments it is called with')

from exactly_lib.processing.act_phase import ActPhaseSetup

PROC_EXECUTOR_W_ACTOR = Inst(processors._Executor, default_act_phase_setup=Inst(ActPhaseSetup, _tuple=[Str, Any_]),
                             _is_keep_sandbox=Bool, _exe_conf=c04.EXE_CONF)

M.contract(P_PROC + ':_Executor.apply',
           params=dict(self=PROC_EXECUTOR_W_ACTOR, test_case_file_path=FILE_IN_DIR, test_case=Any_),
           raises={c04.ArbitraryExecutionError: {}},
           ensures={'executed with a fresh execution configuration, the configured actor and keep flag': lambda self, test_case, trace:
           len(calls(trace, 'full-execution')) == 1
           and calls(trace, 'full-execution')[0][0]['conf'] is not self._exe_conf
           and ((calls(trace, 'full-execution')[0][0]['conf'].environ is None) if self._exe_conf.environ is None
                else is_fresh_copy(calls(trace, 'full-execution')[0][0]['conf'].environ, self._exe_conf.environ))
           and calls(trace, 'full-execution')[0][0]['conf'].predefined_symbols is not self._exe_conf.predefined_symbols
           and calls(trace, 'full-execution')[0][0]['test_case'] is test_case
           and calls(trace, 'full-execution')[0][0]['is_keep_sandbox'] == self._is_keep_sandbox
           and calls(trace, 'full-execution')[0][0]['configuration_builder'].actor
           == self.default_act_phase_setup.actor_nav},
           raises_only=())


# ============================================================================ the suite [conf] instruction, the main program

from exactly_lib.cli import main_program
from exactly_lib.processing.preprocessor import PreprocessorViaExternalProgram
from exactly_lib.test_suite.instruction_set.sections.configuration import preprocessor as preprocessor_instruction

M.contract('exactly_lib.test_suite.instruction_set.sections.configuration.preprocessor:Instruction.execute',
           params=dict(self=Inst(preprocessor_instruction.Instruction, command_and_arguments=Any_),
                       environment=CONF_ENV), inline=True,
           old=lambda environment: environment.act_phase_setup,
           ensures={'sets the preprocessor of the environment it is given, nothing else': lambda self, environment, old:
           type(environment.preprocessor) is PreprocessorViaExternalProgram
           and environment.preprocessor.external_program is self.command_and_arguments
           and environment.act_phase_setup is old},
           raises_only=())


class SuiteDefinitionI(Interface):
    attrs = {'configuration_section_parser': Any_, 'sandbox_root_dir_sdv': Any_}


MAIN_PROGRAM = Inst(main_program.MainProgram, _test_suite_definition=Iface(SuiteDefinitionI),
                    _test_case_definition=TC_DEFINITION, _mem_buff_size=Int,
                    _default_test_case_handling_setup=HANDLING_SETUP)

M.contract('exactly_lib.cli.main_program:_resolve_os_services', trusted=True, params=dict(), returns=Any_)
M.trust('main_program._resolve_os_services returns the OS services of the platform (same for both modes)')


class SuiteSettingsI(Interface):
    attrs = {'handling_setup': HANDLING_SETUP, 'processing_reporter': Any_, 'suite_root_file_path': PATH}


M.contract('exactly_lib.test_suite.processing:Processor.process_reporter', trusted=True,
           params=dict(self=Any_, suite_root_file_path=Any_), returns=Any_, event='suite-process_reporter')
M.trust('test_suite.processing.Processor.process_reporter (C16): here only the processor it is called on')


def suite_processor(trace):
    return [e[1]['self'] for e in trace if e[0] == 'suite-process_reporter'][0]


M.contract('exactly_lib.cli.main_program:MainProgram.execute_test_suite',
           params=dict(self=MAIN_PROGRAM, settings=Iface(SuiteSettingsI)),
           ensures={'suites are read with the parsers, parsing setup and default setup the standalone mode uses': lambda self, settings, trace:
           suite_processor(trace)._suite_hierarchy_reader._environment.configuration_section_parser
           is self._test_suite_definition.configuration_section_parser
           and suite_processor(trace)._suite_hierarchy_reader._environment.test_case_parsing_setup
           is self._test_case_definition.parsing_setup
           and suite_processor(trace)._suite_hierarchy_reader._environment.default_test_case_handling_setup
           is settings.handling_setup
           and suite_processor(trace)._default_case_configuration.test_case_definition is self._test_case_definition
           and suite_processor(trace)._default_case_configuration.mem_buff_size == self._mem_buff_size
           and suite_processor(trace)._default_case_configuration.is_keep_sandbox is False
           and suite_processor(trace)._test_case_processor_constructor
           is processors.new_processor_that_should_not_pollute_current_process},
           raises_only=())

M.contract('exactly_lib.cli.main_program:MainProgram.execute_test_case',
           params=dict(self=MAIN_PROGRAM, settings=Any_),
           ensures={'the standalone processor gets the same case definition, suite [conf] parser and buffer size': lambda self, settings, result:
           result._processor._test_case_definition is self._test_case_definition
           and result._processor._suite_configuration_section_parser
           is self._test_suite_definition.configuration_section_parser
           and result._processor._mem_buff_size == self._mem_buff_size
           and result._settings is settings},
           raises_only=())


# ------------------------------------------------------------------------------ what every case of a suite starts from
# "environment changes ... never carry over from one case to the next": every case gets its environment from
# `os_environ_getter`, which must hand out a NEW dict (the env instructions write into what they are given), and
# the environment of the Exactly process itself is never written (frame).  Both are obligations of C11 / C04 on
# the real tree; they carry C17 as well.  (After the seeded change C17-s5: `return os.environ`.)
M.shared_checks = [('C11', 'default-environ'),
                   ('C04', 'frame: os.environ is never written, chdir call sites are the known ones')]


# Assumed summaries of this module that follow from contracts PROVED for another property (Module.implied_by, ENGINE.md):
# the refinement obligations are generated by this property's check and the proved contract is re-proved here.
M.implied_by('exactly_lib.test_suite.file_reading.suite_file_reading:read_suite_document', 'C16')
M.implied_by('exactly_lib.test_suite.file_reading.suite_hierarchy_reading:_SingleFileReader._resolve_paths', 'C16')
M.implied_by('exactly_lib.test_suite.processing:Processor.process_reporter', 'C16')
