"""C09, "a quoted word is a string, never syntax": an option (`-name`) and a keyword are recognised only when written
UNQUOTED -- `'-existing-file'` as a program argument or `'-contents-of'` as file contents is a string with that
text.  The token matchers of util/parse/token_matchers.py are what every option-aware parser asks.
(Seeded change C09-s7: `is_option` lost `must_be_unquoted=True`.)"""
from pyvc.api import Module, Inst, Str, Bool, ListOf, Iface, Interface
from contracts.C09_strings import ANY_TOKEN
from contracts.common import iff, exists_range

from exactly_lib.util.parse import token_matchers
from exactly_lib.util.parse.token import TokenType

M = Module('C09')

P = 'exactly_lib.util.parse.token_matchers'


class OptionNameI(Interface):
    """a.OptionName: the long name of an option"""
    attrs = {'long': Str}


EQUALS = Inst(token_matchers._Equals, value=Str, must_be_unquoted=Bool)

M.contract(P + ':_Equals.matches', params=dict(self=EQUALS, token=ANY_TOKEN), returns=Bool,
           ensures={'equal string, and unquoted if that is demanded': lambda self, token, result:
                    result == (token[1] == self.value
                               and not (self.must_be_unquoted and token[0] is TokenType.QUOTED))},
           raises_only=())

M.contract(P + ':is_option', params=dict(option=Iface(OptionNameI)), returns=EQUALS,
           ensures={'matches exactly the UNQUOTED token `-<long name>`': lambda option, result:
                    type(result) is token_matchers._Equals and result.must_be_unquoted is True
                    and result.value == '-' + option.long},
           raises_only=())

M.contract(P + ':is_unquoted_and_equals', params=dict(value=Str), returns=EQUALS,
           ensures={'matches exactly the UNQUOTED token with that string': lambda value, result:
                    type(result) is token_matchers._Equals and result.must_be_unquoted is True
                    and result.value == value},
           raises_only=())

M.contract(P + ':_IsUnquotedAndEqualsAny.matches',
           params=dict(self=Inst(token_matchers._IsUnquotedAndEqualsAny, _accepted=ListOf(Str)), token=ANY_TOKEN),
           returns=Bool,
           ensures={'unquoted and one of the accepted strings': lambda self, token, result:
                    result == (token[0] is not TokenType.QUOTED
                               and exists_range(0, len(self._accepted), lambda k: self._accepted[k] == token[1]))},
           raises_only=())

M.contract(P + ':is_unquoted_and_equals_any', params=dict(accepted=ListOf(Str)),
           returns=Inst(token_matchers._IsUnquotedAndEqualsAny, _accepted=ListOf(Str)),
           ensures={'the matcher of exactly the accepted strings': lambda accepted, result:
                    type(result) is token_matchers._IsUnquotedAndEqualsAny and result._accepted is accepted},
           raises_only=())


# ------------------------------------------------------------------------------ one written string = one argument
# "A quoted string denotes exactly one string, also the empty one": a program argument written as a string -- `""`
# included -- is one element of the argument list (seeded change C09-s8: an "optimisation" returned the empty argument
# list for a string without fragments, so `% prog a "" b` ran with ['a', 'b']).
from pyvc.api import Method, Any_, Union, Const
from exactly_lib.impls.types.program.parse import parse_arguments
from exactly_lib.type_val_deps.types.program.sdv.arguments import ArgumentsSdv
from exactly_lib.type_val_deps.types.list_.list_sdv import ListSdv
from exactly_lib.type_val_deps.types.list_ import list_sdvs
from exactly_lib.util.either import Either

STRING_OR_SYMBOL = 'string-or-symbol-name'


class StringSdvI(Interface):
    """a parsed StringSdv (C09_strings proves what it denotes); here: an object, possibly without fragments"""
    by_id = True
    attrs = {'has_fragments': Bool}


class EitherI(Interface):
    """Either[SymbolName, StringSdv] as the rich-string parser returns it"""
    attrs = {'_is_left': Bool, '_l': Str, '_r': Iface(StringSdvI)}
    methods = {'is_left': Method(model=lambda interp, self, args, kwargs: interp.getattr(self, '_is_left')),
               'left': Method(model=lambda interp, self, args, kwargs: interp.getattr(self, '_l')),
               'right': Method(model=lambda interp, self, args, kwargs: interp.getattr(self, '_r'))}


class StringOrSymRefParserI(Interface):
    methods = {'parse_from_token_parser': Method(returns=Iface(EitherI), event=STRING_OR_SYMBOL)}


def _parsed(trace):
    return [e for e in trace if e[0] == STRING_OR_SYMBOL + ':returned'][0][2]


M.contract('exactly_lib.impls.types.program.parse.parse_arguments:_ElementParser._parse_plain_list_element',
           params=dict(self=Inst(parse_arguments._ElementParser, _string_or_sym_ref_parser=Iface(StringOrSymRefParserI),
                                 _element_choices=Any_),
                       token_parser=Any_),
           returns=Any_,
           ensures={
               'a symbol name is handed on': lambda result, trace:
               (not _parsed(trace).is_left()) or (result.is_left() and result.left() == _parsed(trace).left()),
               'a string -- with or without fragments -- is exactly ONE argument: that string': lambda result, trace:
               _parsed(trace).is_left() or (
                   result.is_right() and type(result.right()) is ArgumentsSdv
                   and type(result.right()._arguments) is ListSdv
                   and len(result.right()._arguments._elements) == 1
                   and result.right()._arguments._elements[0]._string_sdv is _parsed(trace).right()
                   and len(result.right()._validators) == 0),
           },
           raises_only=())
