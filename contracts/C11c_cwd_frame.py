"""C11, "cd persists forward": the current directory an instruction leaves is the one the next instruction, the next
phase and the action to check start in.  Nothing between them may restore an earlier directory: `preserved_cwd` (the
context manager that restores the directory on exit) is used at exactly ONE place, around the whole partial execution
(C04 proves that use).  Syntactic obligation over the current source (seeded change C10-s10: `_setup__main` wrapped in
`preserved_cwd()`, so a `cd` in [setup] was undone before [act]).  Shared with C10 ("... and the test's current
directory")."""
import ast
import os

from pyvc import REPO_SRC
from pyvc.api import Module

M = Module('C11')

ALLOWED_USES = {('execution/partial_execution/execution.py', 'execute')}
DEFINED_IN = 'util/file_utils/misc_utils.py'


@M.check('preserved_cwd is used only around the whole partial execution')
def _preserved_cwd_uses(ctx):
    root = os.path.join(REPO_SRC, 'exactly_lib')
    uses = set()
    n = 0
    for dirpath, _dirs, files in os.walk(root):
        for fn in sorted(files):
            if not fn.endswith('.py'):
                continue
            path = os.path.join(dirpath, fn)
            rel = os.path.relpath(path, root).replace(os.sep, '/')
            src = open(path, encoding='utf-8').read()
            n += 1
            if 'preserved_cwd' not in src:
                continue
            tree = ast.parse(src, path)
            for fdef in [x for x in ast.walk(tree) if isinstance(x, (ast.FunctionDef, ast.AsyncFunctionDef))]:
                for node in ast.walk(fdef):
                    name = node.id if isinstance(node, ast.Name) else node.attr if isinstance(node, ast.Attribute) else None
                    if name == 'preserved_cwd' and not (rel == DEFINED_IN and fdef.name == 'preserved_cwd'):
                        uses.add((rel, fdef.name))
            # a use at module level (decorator, alias) is a use as well
            for node in tree.body:
                if not isinstance(node, (ast.FunctionDef, ast.AsyncFunctionDef, ast.ClassDef, ast.Import, ast.ImportFrom)):
                    if any(getattr(x, 'id', getattr(x, 'attr', None)) == 'preserved_cwd' for x in ast.walk(node)):
                        uses.add((rel, '<module>'))
    ctx.obligation('source tree scanned', n > 1000, 'scan', detail={'files': n})
    ctx.obligation('the uses of preserved_cwd are exactly: partial_execution.execution.execute',
                   uses == ALLOWED_USES, 'scan', detail={'uses': sorted(uses)})
